"""C04 - responses are decoded per documented status and media type (structural clauses)."""
from __future__ import annotations

import ast
import copy
import dataclasses
import itertools
import re
import textwrap
import types
from typing import Any

from jinja2 import nodes

from .. import tplq
from . import c04_tplwalk as tplwalk
from ..astutil import Locals, call_name, calls_in, norm, region, short, where
from ..core import PKG, Report
from ..jinja_interp import expr_text
from .c06 import MAY_RAISE, caught, handlers_around
from .scenario import NONE, UNKNOWN, TooComplex, V, Walker, private_callees

LEVEL = ("structural clauses: under every assignment of the conditions (those around a loop included, macros read in place, loops over literal tables read round by round) each parsed "
         "response gets exactly one status test, the loop that emits it emits a return, and `return None` only where the plain variants are "
         "not generated (truth tables); the unexpected-status tail "
         "(raise or None) is unconditional and the dedicated error's constructor applies no conversion to the body that can raise; the "
         "media-type classifier, decided as a truth table (the media type key and the result of get_content_type are abstract strings known "
         "through the atoms is-None / == / startswith / endswith over the classifier's string literals; every consistent assignment is "
         "followed along the path it selects), returns a source the property statement documents for the parsed type (a type in two "
         "documented classes, text/x+json, may go to either), each source pairs an httpx accessor with its type and every Response built "
         "by empty_response carries the none source; in the scenarios no content / empty content / no schema every feasible path of the "
         "response parser (scenario walker: abstract None-ness / truthiness of locals, helpers walked with their arguments) ends in "
         "empty_response(...) without reaching property_from_data; construct-or-cast; a failing type check of a union member aborts decoding only when "
         "nothing can follow it (decided on the decoder function the union construct macro writes for every list of up to three abstract "
         "members - known by has-construct / has-type-check only - followed symbolically through the template: loops over literal tables, "
         "call blocks with parameters, accumulating namespaces included); _build_response (read as Python from the expanded template: macros and call "
         "blocks inlined, literal arguments folded) forwards status, content, headers, parsed; "
         "blocking/asyncio parity; in the scenario of an invalid status key every path ends the iteration with a diagnostic recorded and "
         "no response added; reference resolution converges (shared with C20); the source and the schema of a response come from one media "
         "type (provenance of both followed - locals, tuples, generators, next(), helpers, closures - to every Response(...) the parser "
         "builds); for every property template with a construct macro the union decoder emits the member's construct outside try/except "
         "only when nothing can follow (template facts x the walked decoders); the builder renders each operation's module from that "
         "operation (shared with C16); the async httpx client is constructed with the arguments of the blocking one; the document fields "
         "the response parser reads are not rewritten in place (shared with C02).")


# ---- helpers -----------------------------------------------------------------------------------------------------------------

def _k3(e: ast.expr, known: dict[str, bool]) -> bool | None:
    """Kleene evaluation of a Python test under partial knowledge (atom text -> truth value); None = not determined"""
    if isinstance(e, ast.BoolOp):
        vals = [_k3(v, known) for v in e.values]
        if isinstance(e.op, ast.And):
            return False if any(v is False for v in vals) else (True if all(v is True for v in vals) else None)
        return True if any(v is True for v in vals) else (False if all(v is False for v in vals) else None)
    if isinstance(e, ast.UnaryOp) and isinstance(e.op, ast.Not):
        v = _k3(e.operand, known)
        return None if v is None else not v
    return known.get(norm(e))


def _tpl_stmts(body: list[nodes.Node], types: tuple, guards: tuple = (), gnodes: tuple = (), loops: tuple = ()):
    """statements of the given node types with the conditions / loops they sit under (tplq.frags yields output only)"""
    for n in body:
        if isinstance(n, types):
            yield tplq.Frag(type(n).__name__, "", n.lineno, guards, gnodes, loops, n)
        if isinstance(n, nodes.If):
            t = expr_text(n.test)
            yield from _tpl_stmts(n.body, types, guards + ((t, True),), gnodes + (n.test,), loops)
            neg = guards + ((t, False),)
            gn = gnodes + (n.test,)
            for el in n.elif_:
                t2 = expr_text(el.test)
                yield from _tpl_stmts(el.body, types, neg + ((t2, True),), gn + (el.test,), loops)
                neg = neg + ((t2, False),)
                gn = gn + (el.test,)
            yield from _tpl_stmts(n.else_, types, neg, gn, loops)
        elif isinstance(n, nodes.For):
            yield from _tpl_stmts(n.body, types, guards, gnodes, loops + (expr_text(n.iter),))
            yield from _tpl_stmts(n.else_, types, guards, gnodes, loops)
        elif isinstance(n, (nodes.With, nodes.Scope, nodes.CallBlock, nodes.FilterBlock)):
            yield from _tpl_stmts(getattr(n, "body", []), types, guards, gnodes, loops)


def _subst(n: nodes.Node, binding: "dict[str, nodes.Node]") -> None:
    """replace, in place, every read of a macro parameter by (a copy of) the argument expression"""
    for fld, val in n.iter_fields():
        items = val if isinstance(val, list) else [val]
        for i, x in enumerate(items):
            if not isinstance(x, nodes.Node):
                continue
            if isinstance(x, nodes.Name) and x.ctx == "load" and x.name in binding:
                new = copy.deepcopy(binding[x.name])
                if isinstance(val, list):
                    val[i] = new
                else:
                    setattr(n, fld, new)
            else:
                _subst(x, binding)


def _bind_macro_call(m: "nodes.Macro | None", call: Any) -> "dict[str, nodes.Node] | None":
    """parameter -> argument expression of a macro call that can be bound statically (no *args / **kwargs, every parameter covered)"""
    if m is None or not isinstance(call, nodes.Call) or call.dyn_args or call.dyn_kwargs:
        return None
    params = [a.name for a in m.args]
    binding: "dict[str, nodes.Node]" = dict(zip(params[len(params) - len(m.defaults):], m.defaults)) if m.defaults else {}
    binding.update(zip(params, call.args))
    binding.update({k.key: k.value for k in call.kwargs})
    if len(call.args) > len(params) or set(binding) != set(params):
        return None
    return binding


def _is_caller(c: nodes.Node) -> bool:
    return isinstance(c, nodes.Call) and isinstance(c.node, nodes.Name) and c.node.name == "caller" and not c.args and not c.kwargs


def _splice_caller(body: "list[nodes.Node]", inner: "list[nodes.Node]") -> "list[nodes.Node] | None":
    """the macro body with every `{{ caller() }}` replaced by the statements of the call block; None when `caller` is used in any other
    way (filtered, with arguments, stored): then the text it contributes cannot be read in place"""
    out: list[nodes.Node] = []
    for n in body:
        if isinstance(n, nodes.Output):
            cur: list[nodes.Node] = []
            for c in n.nodes:
                if _is_caller(c):
                    if cur:
                        out.append(nodes.Output(cur, lineno=n.lineno))
                        cur = []
                    out += copy.deepcopy(inner)
                elif any(isinstance(x, nodes.Name) and x.name == "caller" for x in c.find_all(nodes.Name)):
                    return None
                else:
                    cur.append(c)
            if cur:
                out.append(nodes.Output(cur, lineno=n.lineno))
            continue
        n2 = copy.copy(n)
        for fld in ("body", "else_"):
            if isinstance(getattr(n, fld, None), list):
                sub = _splice_caller(getattr(n, fld), inner)
                if sub is None:
                    return None
                setattr(n2, fld, sub)
        if isinstance(n, nodes.If):
            n2.elif_ = []
            for el in n.elif_:
                el2 = copy.copy(el)
                sub = _splice_caller(el.body, inner)
                if sub is None:
                    return None
                el2.body = sub
                n2.elif_.append(el2)
        elif not any(isinstance(getattr(n, fld, None), list) for fld in ("body", "else_")) and \
                any(x.name == "caller" for x in n.find_all(nodes.Name)):
            return None
        out.append(n2)
    return out


def _fold_expr(c: nodes.Node) -> nodes.Node:
    """what an expression is once literal arguments have been substituted: a conditional expression / `not` / and / or over literals"""
    if isinstance(c, nodes.CondExpr):
        t = _fold_expr(c.test)
        if isinstance(t, nodes.Const):
            return _fold_expr(c.expr1) if t.value else (_fold_expr(c.expr2) if c.expr2 is not None else nodes.Const(""))
    if isinstance(c, nodes.Not):
        t = _fold_expr(c.node)
        if isinstance(t, nodes.Const):
            return nodes.Const(not t.value, lineno=c.lineno)
    if isinstance(c, (nodes.And, nodes.Or)):
        l, r = _fold_expr(c.left), _fold_expr(c.right)
        if isinstance(l, nodes.Const):
            return (r if l.value else l) if isinstance(c, nodes.And) else (l if l.value else r)
    if isinstance(c, (nodes.Getattr, nodes.Getitem)):
        # an entry of a dict the template spells out (a row of a literal table once the row stands where the loop variable stood):
        # `row["k"]` is the entry; `row.k` is the entry unless dict itself has an attribute k (Jinja looks at attributes first)
        d = _fold_expr(c.node)
        key = c.attr if isinstance(c, nodes.Getattr) else (c.arg.value if isinstance(c.arg, nodes.Const) else None)
        if isinstance(d, nodes.Dict) and isinstance(key, str) and not (isinstance(c, nodes.Getattr) and hasattr(dict, key)):
            hits = [p.value for p in d.items if isinstance(p.key, nodes.Const) and p.key.value == key]
            if hits and all(isinstance(p.key, nodes.Const) for p in d.items):
                return _fold_expr(hits[-1])
    if isinstance(c, nodes.Concat):
        # `a ~ b` over literal texts / integers is the text written out
        parts = [_fold_expr(x) for x in c.nodes]
        if all(isinstance(x, nodes.Const) and isinstance(x.value, (str, int)) and not isinstance(x.value, bool) for x in parts):
            return nodes.Const("".join(str(x.value) for x in parts), lineno=c.lineno)
    return c


def _fold(body: "list[nodes.Node]") -> "list[nodes.Node]":
    """Partial evaluation of an inlined macro body: an output expression that has become a literal is template text (adjacent pieces of
    text are one piece), an `if` whose test has become a literal is the arm it selects.  `{{ name }}(` with name="sync" renders exactly
    what the text `sync(` renders."""
    out: list[nodes.Node] = []
    for n in body:
        if isinstance(n, nodes.Output):
            cs: list[nodes.Node] = []
            for c in n.nodes:
                c = _fold_expr(c)
                if isinstance(c, nodes.Const) and isinstance(c.value, (str, int)) and not isinstance(c.value, bool):
                    c = nodes.TemplateData(str(c.value), lineno=getattr(c, "lineno", n.lineno) or n.lineno)
                if isinstance(c, nodes.TemplateData) and cs and isinstance(cs[-1], nodes.TemplateData):
                    cs[-1] = nodes.TemplateData(cs[-1].data + c.data, lineno=cs[-1].lineno)
                else:
                    cs.append(c)
            out.append(nodes.Output(cs, lineno=n.lineno))
            continue
        if isinstance(n, nodes.If):
            t = _fold_expr(n.test)
            if isinstance(t, nodes.Const) and not n.elif_:
                out += _fold(n.body if t.value else n.else_)
                continue
        n2 = copy.copy(n)
        for fld in ("body", "else_"):
            if isinstance(getattr(n, fld, None), list):
                setattr(n2, fld, _fold(getattr(n, fld)))
        if isinstance(n, nodes.If):
            n2.elif_ = []
            for el in n.elif_:
                el2 = copy.copy(el)
                el2.body = _fold(el.body)
                n2.elif_.append(el2)
        out.append(n2)
    return out


def _inline_macros(body: "list[nodes.Node]", resolve: Any, depth: int = 2) -> "list[nodes.Node]":
    """The template body with every `{{ macro(args) }}` (filters such as `| indent(n)` aside) and every `{% call macro(args) %}...{% endcall %}`
    of a macro that `resolve` finds - defined in the template or imported by name from another one - replaced by the macro's body,
    parameters substituted by the argument expressions (literal arguments folded: _fold) and `{{ caller() }}` by the call block's
    statements: moving a piece of a template into a macro and calling it in the same place renders the same text, so rules about what is
    emitted under which conditions read the expanded template.  A call that cannot be bound statically (*args, unknown parameter) stays."""
    out: list[nodes.Node] = []
    for n in body:
        if isinstance(n, nodes.Output) and depth > 0:
            cur: list[nodes.Node] = []
            for c in n.nodes:
                call = c
                while isinstance(call, nodes.Filter) and call.node is not None:
                    call = call.node
                m = resolve(call.node.name) if isinstance(call, nodes.Call) and isinstance(call.node, nodes.Name) else None
                binding = _bind_macro_call(m, call)
                if m is None or binding is None:
                    cur.append(c)
                    continue
                if cur:
                    out.append(nodes.Output(cur, lineno=n.lineno))
                    cur = []
                inlined = copy.deepcopy(m.body)
                for x in inlined:
                    _subst(x, binding)
                out += _inline_macros(_fold(inlined), resolve, depth - 1)
            if cur:
                out.append(nodes.Output(cur, lineno=n.lineno))
        elif isinstance(n, nodes.CallBlock) and depth > 0:
            m = resolve(n.call.node.name) if isinstance(n.call, nodes.Call) and isinstance(n.call.node, nodes.Name) else None
            binding = _bind_macro_call(m, n.call) if not n.args else None
            spliced = None
            if m is not None and binding is not None:
                inlined = copy.deepcopy(m.body)
                for x in inlined:
                    _subst(x, binding)
                spliced = _splice_caller(_fold(inlined), _inline_macros(n.body, resolve, depth))
            if spliced is None:
                n2 = copy.copy(n)
                n2.body = _inline_macros(n.body, resolve, depth)
                out.append(n2)
            else:
                out += _inline_macros(spliced, resolve, depth - 1)
        elif isinstance(n, (nodes.If, nodes.For, nodes.With, nodes.Scope, nodes.FilterBlock, nodes.AssignBlock)) and depth > 0:
            n2 = copy.copy(n)
            for fld in ("body", "else_"):
                if isinstance(getattr(n, fld, None), list):
                    setattr(n2, fld, _inline_macros(getattr(n, fld), resolve, depth))
            if isinstance(n, nodes.If):
                n2.elif_ = []
                for el in n.elif_:
                    el2 = copy.copy(el)
                    el2.body = _inline_macros(el.body, resolve, depth)
                    n2.elif_.append(el2)
            out.append(n2)
        else:
            out.append(n)
    return out


def _literal_elements(it: nodes.Node) -> "list[nodes.Node] | None":
    """the elements of a literal list / tuple whose elements are constants, names or displays of those (evaluating them has no effect and
    gives the same value every time: reading the element where the loop variable is read is the same program); a dict display with
    constant keys is such an element too (a row of a table: `row.k` / `row["k"]` then reads as the entry, _fold_expr)"""
    def plain(e: nodes.Node) -> bool:
        return isinstance(e, (nodes.Const, nodes.Name)) or (isinstance(e, (nodes.Tuple, nodes.List)) and all(plain(x) for x in e.items)) \
            or (isinstance(e, nodes.Dict) and all(isinstance(p.key, nodes.Const) and plain(p.value) for p in e.items))

    return list(it.items) if isinstance(it, (nodes.List, nodes.Tuple)) and it.items and all(plain(x) for x in it.items) else None


def _subst_loop(n: nodes.Node, attrs: "dict[str, Any]") -> bool:
    """replace, in place, `loop.<attr>` of the loop being unrolled (not of a loop nested in it) by its value in this round; False when
    `loop` is read in any other way (loop.cycle(...), passed on, ...)"""
    ok = True
    for fld, val in n.iter_fields():
        items = val if isinstance(val, list) else [val]
        for i, x in enumerate(items):
            if not isinstance(x, nodes.Node):
                continue
            if isinstance(x, nodes.Getattr) and isinstance(x.node, nodes.Name) and x.node.name == "loop" and x.attr in attrs:
                new = nodes.Const(attrs[x.attr], lineno=x.lineno)
                if isinstance(val, list):
                    val[i] = new
                else:
                    setattr(n, fld, new)
            elif isinstance(x, nodes.Name) and x.name == "loop":
                ok = False
            elif isinstance(x, nodes.For):
                ok = _subst_loop(x.iter, attrs) and ok        # the iterable is evaluated in this loop; body / else have their own `loop`
            else:
                ok = _subst_loop(x, attrs) and ok
    return ok


def _table_names(tree: nodes.Node) -> "set[str]":
    """names a template binds exactly once, by a `set` statement, and in no other way (no second `set`, no loop / `with` / import
    target, no macro or call-block parameter of that name): wherever such a name is read after the `set`, it reads that one value"""
    count: dict[str, int] = {}
    for a in tree.find_all(nodes.Assign):
        for t in ([a.target] if isinstance(a.target, nodes.Name) else list(a.target.find_all(nodes.Name))):
            count[t.name] = count.get(t.name, 0) + 1
    other: set[str] = set()
    for n in tree.find_all((nodes.For, nodes.With, nodes.Macro, nodes.CallBlock, nodes.AssignBlock, nodes.Import, nodes.FromImport)):
        if isinstance(n, nodes.For):
            other |= {x.name for x in n.target.find_all(nodes.Name)} | ({n.target.name} if isinstance(n.target, nodes.Name) else set())
        elif isinstance(n, nodes.With):
            other |= {x.name for t in n.targets for x in ([t] if isinstance(t, nodes.Name) else t.find_all(nodes.Name))}
        elif isinstance(n, (nodes.Macro, nodes.CallBlock)):
            other |= {a.name for a in n.args} | ({n.name} if isinstance(n, nodes.Macro) else set())
        elif isinstance(n, nodes.AssignBlock):
            other |= {x.name for x in ([n.target] if isinstance(n.target, nodes.Name) else n.target.find_all(nodes.Name))}
        elif isinstance(n, nodes.Import):
            other.add(n.target)
        else:
            other |= {(nm if isinstance(nm, str) else nm[1]) for nm in n.names}
    return {k for k, v in count.items() if v == 1 and k not in other}


def _unroll(body: "list[nodes.Node]", depth: int = 3, tables: "dict[str, nodes.Node] | None" = None, single: "set[str] | None" = None) -> "list[nodes.Node]":
    """The template body with every `for` over a literal list / tuple (of constants, names, displays of those; no `else`, not recursive)
    replaced by its rounds written out: in each round the loop variables read as the round's element, `loop.first / last / index /
    index0 / length` as their values, a `set` variable of the round whose definition has become a literal as that literal (_fold: a
    conditional over a literal is the arm it selects, a literal that is emitted is template text).  A loop filter stays as an `if`
    around the round (then `loop.*` is not known and, if read, the loop stays).  Writing n similar pieces of a template as one loop over
    a table of their differences renders the same text, so rules about what is emitted read the rounds.
    single (given for the template's own body only): the names the template binds once (_table_names) - a loop over such a name, after
    the top-level `set` that binds it to a literal table, is the loop over that table (macros inlined before: _inline_macros)."""
    out: list[nodes.Node] = []
    top = single is not None       # the template's own body: its `set` statements are passed in order
    tables = {} if tables is None else tables
    for n in body:
        if top and isinstance(n, nodes.Assign) and isinstance(n.target, nodes.Name) and n.target.name in (single or ()) \
                and _literal_elements(n.node) is not None:
            tables[n.target.name] = n.node
        it_ = tables.get(n.iter.name, n.iter) if isinstance(n, nodes.For) and isinstance(n.iter, nodes.Name) else getattr(n, "iter", None)
        if isinstance(n, nodes.For) and depth > 0 and not n.else_ and not n.recursive and _literal_elements(it_) is not None:
            elems = _literal_elements(it_) or []
            targets = [n.target] if isinstance(n.target, nodes.Name) else list(n.target.items) if isinstance(n.target, nodes.Tuple) else None
            rounds: "list[nodes.Node] | None" = [] if targets is not None and all(isinstance(t, nodes.Name) for t in targets) else None
            for i, el in enumerate(elems):
                if rounds is None:
                    break
                if isinstance(n.target, nodes.Name):
                    binding: dict[str, nodes.Node] = {n.target.name: el}
                elif isinstance(el, (nodes.Tuple, nodes.List)) and len(el.items) == len(targets):
                    binding = {t.name: x for t, x in zip(targets, el.items)}
                else:
                    rounds = None
                    break
                attrs = {"first": i == 0, "last": i == len(elems) - 1, "index": i + 1, "index0": i, "length": len(elems),
                         "revindex": len(elems) - i, "revindex0": len(elems) - i - 1} if n.test is None else {}
                rnd = copy.deepcopy(n.body)
                holder = nodes.Scope(rnd)
                if not _subst_loop(holder, attrs) or (not attrs and any(x.name == "loop" for x in holder.find_all(nodes.Name))):
                    rounds = None
                    break
                # statements in order: a `set` of this round (assigned once in it) whose value is a literal by now is read as that literal
                assigned: dict[str, int] = {}
                for a in holder.find_all(nodes.Assign):
                    if isinstance(a.target, nodes.Name):
                        assigned[a.target.name] = assigned.get(a.target.name, 0) + 1
                done: list[nodes.Node] = []
                for st in rnd:
                    _subst(st, binding)
                    if isinstance(st, nodes.Assign) and isinstance(st.target, nodes.Name) and assigned.get(st.target.name) == 1:
                        v = _fold_expr(st.node)
                        if isinstance(v, nodes.Const):
                            binding[st.target.name] = v
                            continue
                    done.append(st)
                if n.test is not None:
                    test = copy.deepcopy(n.test)
                    wrap = nodes.Scope([nodes.Output([test])])
                    _subst(wrap, binding)
                    done = [nodes.If(wrap.body[0].nodes[0], done, [], [], lineno=n.lineno)]
                rounds += _unroll(_fold(done), depth - 1, tables)
            if rounds is not None:
                out += rounds
                continue
        n2 = copy.copy(n)
        for fld in ("body", "else_"):
            if isinstance(getattr(n, fld, None), list):
                setattr(n2, fld, _unroll(getattr(n, fld), depth, tables))
        if isinstance(n, nodes.If):
            n2.elif_ = []
            for el in n.elif_:
                el2 = copy.copy(el)
                el2.body = _unroll(el.body, depth, tables)
                n2.elif_.append(el2)
        out.append(n2)
    return out


def _python_of(frs: list) -> ast.Module | None:
    """the Python module a template consists of, every output expression replaced by a name"""
    try:
        return ast.parse("".join(f.text if f.kind == "data" else "__expr__" for f in frs))
    except SyntaxError:
        return None


def _generated_module(jx: Any, template: str) -> "ast.Module | None":
    """the Python module a template writes (skeleton: macros inlined with the arguments of their call sites, holes as placeholders)"""
    from ..skeleton import SkelWalker, to_lines
    from ..skelscan import HOLE, OPQ

    text = "\n".join(to_lines(SkelWalker(jx, frozenset()).walk_template(template))[0])
    text = re.sub(HOLE + r"(\d+)" + HOLE, r"H_\1", text)
    text = re.sub(OPQ + r"(\d+)" + OPQ, r"O_\1", text)
    try:
        return ast.parse(text)
    except (SyntaxError, ValueError):
        return None


def _expanded_functions(jx: Any, template: str) -> "dict[str, list[ast.AST]]":
    """The functions a template writes, per class, read on the expanded template (macros of the template and macros imported by name
    inlined with their arguments, loops over literal tables written out round by round, literals folded into the text; an output
    expression that stays is a placeholder): the text is cut at every `def` / `async def` line, the function is the shortest run of
    lines from there, ending in front of a line indented no deeper than the `def`, that is one function definition in Python; its class
    is the last `class <Name>` line at column 0 before it ("" when none).  Text that is no Python between the functions (docstring
    macros, attribute declarations written through filters) is passed over; both arms of a condition stand one after the other."""
    ti = jx.templates[template]
    imported: dict[str, tuple[str, str]] = {}
    for imp in ti.tree.find_all(nodes.FromImport):
        if isinstance(imp.template, nodes.Const) and isinstance(imp.template.value, str):
            for nm in imp.names:
                src, alias = nm if isinstance(nm, tuple) else (nm, nm)
                imported[alias] = (imp.template.value, src)

    def resolve(name: str) -> "nodes.Macro | None":
        if name in ti.macros:
            return ti.macros[name]
        t2 = jx.templates.get(imported[name][0]) if name in imported else None
        return t2.macros.get(imported[name][1]) if t2 is not None else None

    single = _table_names(ti.tree)
    body = _unroll(_inline_macros(_unroll(ti.tree.body, single=single), resolve), single=single)
    text = "".join(f.text if f.kind == "data" else "__expr__" for f in tplq.frags(body))
    lines = text.split("\n")
    out: dict[str, list[ast.AST]] = {}
    klass = ""
    for i, ln in enumerate(lines):
        mc = re.match(r"class[ \t]+(\w+)", ln)
        if mc:
            klass = mc.group(1)
        mh = re.match(r"([ \t]*)(?:async[ \t]+def|def)[ \t]+\w+[ \t]*\(", ln)
        if not mh:
            continue
        ind = len(mh.group(1).expandtabs())
        ends = [j for j in range(i + 1, len(lines)) if lines[j].strip() and len(lines[j]) - len(lines[j].lstrip()) <= ind] + [len(lines)]
        for end in ends:
            try:
                mod = ast.parse(textwrap.dedent("\n".join(lines[i:end])))
            except (SyntaxError, ValueError):
                continue
            if len(mod.body) == 1 and isinstance(mod.body[0], (ast.FunctionDef, ast.AsyncFunctionDef)):
                out.setdefault(klass, []).append(mod.body[0])
                break
    return out


def _call_signature(c: ast.Call, lc: Locals) -> "dict[str, str]":
    """what a call passes, by parameter: keyword -> value text (a local reads as its single definition), positional arguments by index,
    `**d` expanded when d is a dict literal / dict(...) (directly or through a local), else kept as `**<text>`"""
    out = {f"#{i}": norm(_follow(a, lc)) for i, a in enumerate(c.args)}
    for k in c.keywords:
        v = _follow(k.value, lc)
        if k.arg is not None:
            out[k.arg] = norm(v)
        elif isinstance(v, ast.Dict) and all(isinstance(x, ast.Constant) and isinstance(x.value, str) for x in v.keys):
            out.update({x.value: norm(_follow(y, lc)) for x, y in zip(v.keys, v.values)})
        elif isinstance(v, ast.Call) and call_name(v) == "dict" and not v.args and all(x.arg is not None for x in v.keywords):
            out.update({x.arg: norm(_follow(x.value, lc)) for x in v.keywords})
        else:
            out[f"**{norm(v)}"] = ""
    return out


class _UnderRule:
    """a Report seen through another rule id: lets a rule that another property already states (and keeps hardening) be claimed here under
    this property's own id, with the same construct keys, instead of a second implementation that would drift"""

    def __init__(self, rep: Report, rule: str) -> None:
        self._rep, self._rule = rep, rule

    def __getattr__(self, name: str) -> Any:
        return getattr(self._rep, name)

    def check(self, cond: bool, rule: str, construct: str, *a: Any, **k: Any) -> bool:
        return self._rep.check(cond, self._rule, construct, *a, **k)

    def fail(self, rule: str, construct: str, *a: Any, **k: Any) -> None:
        self._rep.fail(self._rule, construct, *a, **k)

    def ok(self, rule: str, construct: str, *a: Any, **k: Any) -> None:
        self._rep.ok(self._rule, construct, *a, **k)


# error handlers of bytes.decode that never raise
LENIENT_DECODE = {"ignore", "replace", "backslashreplace", "surrogateescape"}


# ---- a path walker over guard atoms for small pure classifier functions ------------------------------------------------------
# R04.2 asks what `_source_by_content_type` DECIDES from the media type, not how it is written (lookup table, if-chain, conditional
# expression, helper predicate ...).  No string is ever run through the code: the media type is an ABSTRACT value (_AStr) of which only
# the truth values of a finite vocabulary of atoms are known - `x is None`, `x == c`, `x.startswith(c)`, `x.endswith(c)` for the string
# literals c of the classifier (a dict lookup / membership test is one `x == key` atom per key).  Every test of the code is a formula over
# these atoms; for one truth assignment the walker follows the path the assignment selects (statements, conditional expressions, any / all
# over literal tuples, dict lookups, private helpers inlined) to the source symbol it returns.  Module-level objects that are not literals
# (the _ResponseSource constants) are opaque symbols compared by identity.  A test outside the vocabulary (a computed string, a regular
# expression, ...) raises _Cannot, which the rule turns into an ANALYSIS-ERROR.

class _Cannot(Exception):
    pass


@dataclasses.dataclass(frozen=True)
class _Sym:
    name: str
    truthy: "bool | None" = None      # None: truth value unknown


@dataclasses.dataclass(frozen=True)
class _AStr:
    """an abstract Optional[str]: `tag` names the truth assignment of its atoms in _Eval.facts"""
    tag: str


@dataclasses.dataclass(frozen=True)
class _ASlice:
    """x[:n] / x[-n:] of an abstract string: comparable with a literal of length n only (that is the prefix / suffix atom)"""
    of: _AStr
    head: bool
    n: int


class _Ret(Exception):
    def __init__(self, v: Any) -> None:
        self.v = v


class _Brk(Exception):
    pass


class _Cnt(Exception):
    pass


class _Raised(Exception):
    """a Python exception of the walked program (only those the walker itself models: KeyError, IndexError, StopIteration and the
    AttributeError of a string method applied to None)"""

    def __init__(self, kind: str) -> None:
        self.kind = kind


_EXC_PARENTS = {"KeyError": ("KeyError", "LookupError", "Exception", "BaseException"),
                "IndexError": ("IndexError", "LookupError", "Exception", "BaseException"),
                "StopIteration": ("StopIteration", "Exception", "BaseException"),
                "AttributeError": ("AttributeError", "Exception", "BaseException")}
_BUILTINS = {"len": len, "tuple": tuple, "list": list, "set": set, "frozenset": frozenset, "sorted": sorted, "any": None, "all": None,
             "bool": None, "next": None, "isinstance": None, "dict": dict, "reversed": lambda x: list(reversed(x)), "enumerate": lambda x: list(enumerate(x)),
             "zip": lambda *x: list(zip(*x))}


class _Eval:
    def __init__(self, module: Any, calls: "dict[str, Any]", facts: "dict[str, dict[tuple, bool]]") -> None:
        """module: pyindex Module (its functions may be called, its variables read); calls: last name component of a call ->
        python callable(list of positional args) that stands for a function outside the module; facts: tag of an abstract string ->
        truth assignment of its atoms ("none",) / ("eq", c) / ("pre", c) / ("suf", c)"""
        self.module = module
        self.calls = calls
        self.facts = facts
        self.steps = 0
        self._globals: dict[str, Any] = {}

    # -- values ---------------------------------------------------------------------------------------------------------------
    def atom(self, x: _AStr, kind: str, c: Any = None) -> bool:
        f = self.facts[x.tag]
        if kind == "none":
            return f[("none",)]
        if c is None and kind == "eq":
            return f[("none",)]
        if not isinstance(c, str):
            raise _Cannot(f"media type tested against {c!r}")
        if f[("none",)]:
            if kind == "eq":
                return False
            raise _Raised("AttributeError")
        if c == "" and kind in ("pre", "suf"):
            return True
        if (kind, c) not in f:
            raise _Cannot(f"media type tested against {c!r}, which is not a literal of the classifier")
        return f[(kind, c)]

    def affix(self, x: _AStr, kind: str, arg: Any) -> bool:
        """x.startswith(arg) / x.endswith(arg): arg a literal or a tuple of literals"""
        if isinstance(arg, tuple):
            if self.facts[x.tag][("none",)]:
                raise _Raised("AttributeError")
            return any(self.atom(x, kind, a) for a in arg)
        return self.atom(x, kind, arg)

    def member(self, x: _AStr, keys: Any) -> Any:
        """the element of a literal collection the abstract string equals (one `x == key` atom per key), or _Cannot / KeyError marker"""
        for k in keys:
            if not (k is None or isinstance(k, str)):
                raise _Cannot(f"media type looked up among {k!r}")
            if self.atom(x, "eq", k):
                return (k,)
        return None

    def truth(self, v: Any) -> bool:
        if isinstance(v, _AStr):
            return not self.atom(v, "none") and not self.atom(v, "eq", "")
        if isinstance(v, _ASlice):
            raise _Cannot("truth value of a slice of the media type")
        if isinstance(v, _Sym):
            if v.truthy is None:
                raise _Cannot(f"truth value of {v.name}")
            return v.truthy
        return bool(v)

    def global_(self, name: str) -> Any:
        if name in self._globals:
            return self._globals[name]
        if name not in self.module.variables:
            raise _Cannot(f"name {name}")
        e = self.module.variables[name]
        try:
            v = self.expr(e, {})
        except (_Cannot, _Raised):
            # an object built by a call: opaque, identified by the module-level name; an instance constructed from fields (a TypedDict
            # with entries, an attrs / dataclass object) is true
            v = _Sym(name, True if isinstance(e, ast.Call) and (e.keywords or e.args) else None)
        self._globals[name] = v
        return v

    # -- functions ------------------------------------------------------------------------------------------------------------
    def call_function(self, fn: ast.FunctionDef, args: list[Any], kwargs: dict[str, Any], depth: int = 0) -> Any:
        if depth > 4:
            raise _Cannot("call depth")
        a = fn.args
        if a.vararg or a.kwarg:
            raise _Cannot("*args / **kwargs")
        pos = [*a.posonlyargs, *a.args]
        env: dict[str, Any] = {}
        for p, d in zip(pos[len(pos) - len(a.defaults):], a.defaults):
            env[p.arg] = self.expr(d, {})
        for p, d in zip(a.kwonlyargs, a.kw_defaults):
            if d is not None:
                env[p.arg] = self.expr(d, {})
        if len(args) > len(pos):
            raise _Cannot("too many arguments")
        for p, v in zip(pos, args):
            env[p.arg] = v
        env.update(kwargs)
        missing = [p.arg for p in [*pos, *a.kwonlyargs] if p.arg not in env]
        if missing:
            raise _Cannot(f"unbound parameters {missing}")
        env["__depth__"] = depth
        try:
            self.block(fn.body, env)
        except _Ret as r:
            return r.v
        return None

    # -- statements -----------------------------------------------------------------------------------------------------------
    def bind(self, t: ast.AST, v: Any, env: dict[str, Any]) -> None:
        if isinstance(t, ast.Name):
            env[t.id] = v
        elif isinstance(t, (ast.Tuple, ast.List)) and isinstance(v, (tuple, list)) and len(v) == len(t.elts) and \
                not any(isinstance(e, ast.Starred) for e in t.elts):
            for e, x in zip(t.elts, v):
                self.bind(e, x, env)
        else:
            raise _Cannot(f"assignment target {norm(t)}")

    def block(self, body: list[ast.stmt], env: dict[str, Any]) -> None:
        for st in body:
            self.steps += 1
            if self.steps > 20000:
                raise _Cannot("step budget")
            if isinstance(st, ast.Expr):
                if not isinstance(st.value, ast.Constant):
                    self.expr(st.value, env)
            elif isinstance(st, ast.Pass):
                pass
            elif isinstance(st, ast.Return):
                raise _Ret(self.expr(st.value, env) if st.value is not None else None)
            elif isinstance(st, ast.Assign):
                v = self.expr(st.value, env)
                for t in st.targets:
                    self.bind(t, v, env)
            elif isinstance(st, ast.AnnAssign):
                if st.value is not None:
                    self.bind(st.target, self.expr(st.value, env), env)
            elif isinstance(st, ast.If):
                self.block(st.body if self.truth(self.expr(st.test, env)) else st.orelse, env)
            elif isinstance(st, ast.For):
                it = self.expr(st.iter, env)
                if not isinstance(it, (tuple, list, dict, set, frozenset, str)):
                    raise _Cannot(f"iteration over {norm(st.iter)}")
                broke = False
                for x in list(it):
                    self.bind(st.target, x, env)
                    try:
                        self.block(st.body, env)
                    except _Brk:
                        broke = True
                        break
                    except _Cnt:
                        continue
                if not broke:
                    self.block(st.orelse, env)
            elif isinstance(st, ast.Break):
                raise _Brk()
            elif isinstance(st, ast.Continue):
                raise _Cnt()
            elif isinstance(st, ast.Try) and not st.finalbody:
                try:
                    self.block(st.body, env)
                except _Raised as r:
                    for h in st.handlers:
                        types = [h.type] if h.type is not None and not isinstance(h.type, ast.Tuple) else list(h.type.elts) if h.type is not None else []
                        if h.type is None or any(norm(t).rsplit(".", 1)[-1] in _EXC_PARENTS[r.kind] for t in types):
                            if h.name:
                                env[h.name] = _Sym(f"<{r.kind}>", True)
                            self.block(h.body, env)
                            break
                    else:
                        raise
                else:
                    self.block(st.orelse, env)
            else:
                raise _Cannot(f"statement {type(st).__name__}")

    # -- expressions ----------------------------------------------------------------------------------------------------------
    def comp(self, gens: list[ast.comprehension], env: dict[str, Any], emit: Any) -> None:
        if not gens:
            emit(env)
            return
        g = gens[0]
        if g.is_async:
            raise _Cannot("async comprehension")
        it = self.expr(g.iter, env)
        if not isinstance(it, (tuple, list, dict, set, frozenset, str)):
            raise _Cannot(f"iteration over {norm(g.iter)}")
        for x in list(it):
            e2 = dict(env)
            self.bind(g.target, x, e2)
            if all(self.truth(self.expr(c, e2)) for c in g.ifs):
                self.comp(gens[1:], e2, emit)

    def expr(self, e: ast.AST, env: dict[str, Any]) -> Any:
        self.steps += 1
        if self.steps > 20000:
            raise _Cannot("step budget")
        if isinstance(e, ast.Constant):
            if not isinstance(e.value, (str, int, bool, type(None))):
                raise _Cannot(f"constant {e.value!r}")
            return e.value
        if isinstance(e, ast.Name):
            return env[e.id] if e.id in env else self.global_(e.id)
        if isinstance(e, ast.NamedExpr):
            v = self.expr(e.value, env)
            self.bind(e.target, v, env)
            return v
        if isinstance(e, (ast.Tuple, ast.List, ast.Set)):
            if any(isinstance(x, ast.Starred) for x in e.elts):
                raise _Cannot("starred element")
            xs = [self.expr(x, env) for x in e.elts]
            return tuple(xs) if isinstance(e, ast.Tuple) else xs if isinstance(e, ast.List) else set(xs)
        if isinstance(e, ast.Dict):
            if any(k is None for k in e.keys):
                raise _Cannot("dict unpacking")
            return {self.expr(k, env): self.expr(v, env) for k, v in zip(e.keys, e.values)}
        if isinstance(e, (ast.ListComp, ast.SetComp, ast.GeneratorExp)):
            out: list[Any] = []
            self.comp(e.generators, env, lambda e2: out.append(self.expr(e.elt, e2)))
            return set(out) if isinstance(e, ast.SetComp) else out
        if isinstance(e, ast.DictComp):
            d: dict[Any, Any] = {}
            self.comp(e.generators, env, lambda e2: d.__setitem__(self.expr(e.key, e2), self.expr(e.value, e2)))
            return d
        if isinstance(e, ast.BoolOp):
            v = None
            for x in e.values:
                v = self.expr(x, env)
                if self.truth(v) != isinstance(e.op, ast.And):
                    return v
            return v
        if isinstance(e, ast.UnaryOp) and isinstance(e.op, ast.Not):
            return not self.truth(self.expr(e.operand, env))
        if isinstance(e, ast.UnaryOp) and isinstance(e.op, ast.USub):
            v = self.expr(e.operand, env)
            if type(v) is not int:
                raise _Cannot(f"operand of {norm(e)}")
            return -v
        if isinstance(e, ast.IfExp):
            return self.expr(e.body if self.truth(self.expr(e.test, env)) else e.orelse, env)
        if isinstance(e, ast.Compare):
            left = self.expr(e.left, env)
            for op, r in zip(e.ops, e.comparators):
                right = self.expr(r, env)
                if not self.compare(op, left, right):
                    return False
                left = right
            return True
        if isinstance(e, ast.BinOp) and isinstance(e.op, ast.Add):
            l, r = self.expr(e.left, env), self.expr(e.right, env)
            if type(l) is type(r) and isinstance(l, (str, tuple, list)):
                return l + r
            raise _Cannot(f"operands of {norm(e)}")
        if isinstance(e, ast.Subscript):
            base = self.expr(e.value, env)
            if isinstance(base, _Sym):
                raise _Cannot(f"subscript of {base.name}")
            if isinstance(base, _AStr):
                sl = e.slice
                if isinstance(sl, ast.Slice) and sl.step is None:
                    lo = self.expr(sl.lower, env) if sl.lower is not None else None
                    hi = self.expr(sl.upper, env) if sl.upper is not None else None
                    if lo in (None, 0) and type(hi) is int and hi > 0:
                        return _ASlice(base, True, hi)
                    if hi is None and type(lo) is int and lo < 0:
                        return _ASlice(base, False, -lo)
                raise _Cannot(f"subscript {norm(e)} of the media type")
            if isinstance(base, _ASlice):
                raise _Cannot(f"subscript {norm(e)}")
            if isinstance(e.slice, ast.Slice):
                lo, hi, stp = (self.expr(x, env) if x is not None else None for x in (e.slice.lower, e.slice.upper, e.slice.step))
                if not isinstance(base, (str, tuple, list)) or not all(x is None or type(x) is int for x in (lo, hi, stp)):
                    raise _Cannot(f"slice {norm(e)}")
                return base[lo:hi:stp]
            k = self.expr(e.slice, env)
            if isinstance(k, _AStr) and isinstance(base, dict):
                hit = self.member(k, base)
                if hit is None:
                    raise _Raised("KeyError")
                return base[hit[0]]
            if isinstance(k, (_AStr, _ASlice)):
                raise _Cannot(f"subscript {norm(e)}")
            try:
                return base[k]
            except KeyError:
                raise _Raised("KeyError") from None
            except IndexError:
                raise _Raised("IndexError") from None
            except TypeError:
                raise _Cannot(f"subscript {norm(e)}") from None
        if isinstance(e, ast.Call):
            return self.call(e, env)
        raise _Cannot(f"expression {type(e).__name__}")

    def compare(self, op: ast.cmpop, l: Any, r: Any) -> bool:
        if any(isinstance(x, (_AStr, _ASlice)) for x in (l, r)):
            return self.compare_abstract(op, l, r)
        if isinstance(op, (ast.Is, ast.IsNot)):
            # identity is modelled for None, the booleans and opaque module-level objects (one object per name)
            if l is None or r is None:
                same = l is None and r is None
            elif isinstance(l, bool) and isinstance(r, bool):
                same = l is r
            elif isinstance(l, _Sym) and isinstance(r, _Sym):
                same = l == r
            else:
                raise _Cannot("identity of values")
            return same if isinstance(op, ast.Is) else not same
        try:
            if isinstance(op, ast.Eq):
                return bool(l == r)
            if isinstance(op, ast.NotEq):
                return bool(l != r)
            if isinstance(op, (ast.In, ast.NotIn)):
                if isinstance(r, _Sym) or isinstance(r, str) and not isinstance(l, str):
                    raise _Cannot("membership")
                return (l in r) if isinstance(op, ast.In) else (l not in r)
            if isinstance(l, _Sym) or isinstance(r, _Sym):
                raise _Cannot("ordering of opaque values")
            if isinstance(op, ast.Lt):
                return l < r
            if isinstance(op, ast.LtE):
                return l <= r
            if isinstance(op, ast.Gt):
                return l > r
            if isinstance(op, ast.GtE):
                return l >= r
        except TypeError:
            raise _Cannot("comparison") from None
        raise _Cannot(f"operator {type(op).__name__}")

    def compare_abstract(self, op: ast.cmpop, l: Any, r: Any) -> bool:
        """a comparison that involves the abstract media type: the atom it stands for"""
        neg = isinstance(op, (ast.IsNot, ast.NotEq, ast.NotIn))
        if isinstance(op, (ast.Is, ast.IsNot, ast.Eq, ast.NotEq)):
            x, other = (l, r) if isinstance(l, (_AStr, _ASlice)) else (r, l)
            if isinstance(other, (_AStr, _ASlice)):
                raise _Cannot("comparison of two abstract strings")
            if isinstance(x, _AStr):
                if other is None:
                    v = self.atom(x, "none")
                elif isinstance(other, str) and isinstance(op, (ast.Eq, ast.NotEq)):
                    v = self.atom(x, "eq", other)
                elif isinstance(other, _Sym) or isinstance(other, (bool, int, tuple, list, dict, set, frozenset)):
                    v = False       # a media type is a string or None
                else:
                    raise _Cannot("identity of strings")
            else:
                if not (isinstance(other, str) and isinstance(op, (ast.Eq, ast.NotEq))):
                    raise _Cannot("comparison of a slice of the media type")
                if len(other) != x.n:
                    # x[:n] == c with len(c) != n: false for every x (a shorter x gives a shorter slice, never a longer one) unless x itself is short
                    raise _Cannot(f"slice of length {x.n} compared with {other!r}")
                v = self.atom(x.of, "pre" if x.head else "suf", other)
            return v != neg
        if isinstance(op, (ast.In, ast.NotIn)) and isinstance(l, _AStr) and isinstance(r, (tuple, list, set, frozenset, dict)):
            return (self.member(l, r) is not None) != neg
        raise _Cannot(f"operator {type(op).__name__} on the media type")

    def call(self, c: ast.Call, env: dict[str, Any]) -> Any:
        if any(isinstance(a, ast.Starred) for a in c.args) or any(k.arg is None for k in c.keywords):
            raise _Cannot("argument unpacking")
        last = call_name(c).rsplit(".", 1)[-1]
        args = [self.expr(a, env) for a in c.args]
        kwargs = {k.arg: self.expr(k.value, env) for k in c.keywords}
        # a function outside the module that the caller gave a meaning to
        if last in self.calls and not (isinstance(c.func, ast.Name) and (c.func.id in env or c.func.id in self.module.functions)):
            return self.calls[last](args + list(kwargs.values()))
        if isinstance(c.func, ast.Name):
            nm = c.func.id
            if nm in env:
                raise _Cannot(f"call of local {nm}")
            if nm in self.module.functions:
                return self.call_function(self.module.functions[nm].node, args, kwargs, env.get("__depth__", 0) + 1)
            if nm in _BUILTINS and not kwargs:
                if nm == "any":
                    return any(self.truth(x) for x in self._iter(args))
                if nm == "all":
                    return all(self.truth(x) for x in self._iter(args))
                if nm == "bool":
                    return self.truth(args[0]) if args else False
                if nm == "next":
                    xs = list(self._iter(args[:1]))
                    if xs:
                        return xs[0]
                    if len(args) > 1:
                        return args[1]
                    raise _Raised("StopIteration")
                if nm == "isinstance":
                    if len(c.args) == 2 and isinstance(c.args[1], ast.Name) and c.args[1].id == "str" and not isinstance(args[0], (_Sym, _ASlice)):
                        return not self.atom(args[0], "none") if isinstance(args[0], _AStr) else isinstance(args[0], str)
                    raise _Cannot("isinstance")
                try:
                    return _BUILTINS[nm](*args)
                except TypeError:
                    raise _Cannot(f"call {norm(c)}") from None
            raise _Cannot(f"call {norm(c)}")
        if isinstance(c.func, ast.Attribute):
            recv = self.expr(c.func.value, env)
            m = c.func.attr
            try:
                if isinstance(recv, _AStr) and m in ("startswith", "endswith") and not kwargs and len(args) == 1:
                    return self.affix(recv, "pre" if m == "startswith" else "suf", args[0])
                if isinstance(recv, dict) and not kwargs:
                    if m == "get" and 1 <= len(args) <= 2 and isinstance(args[0], _AStr):
                        hit = self.member(args[0], recv)
                        return recv[hit[0]] if hit is not None else (args[1] if len(args) > 1 else None)
                    if m == "get" and 1 <= len(args) <= 2 and not isinstance(args[0], _ASlice):
                        return recv.get(*args)
                    if m in ("items", "keys", "values") and not args:
                        return list(getattr(recv, m)())
            except TypeError:
                raise _Cannot(f"call {norm(c)}") from None
        raise _Cannot(f"call {norm(c)}")

    def _iter(self, args: list[Any]) -> list[Any]:
        if len(args) != 1 or not isinstance(args[0], (tuple, list, dict, set, frozenset)):
            raise _Cannot("iterable argument")
        return list(args[0])


# the property statement's media-type table as a formula over the atoms: which sources a (parsed, overrides applied) media type with the
# given truth assignment may be decoded from.  A type such as text/x+json belongs to two documented classes; the statement does not rank
# them, so either is admitted there.
def _documented_sources(f: "dict[tuple, bool]") -> set:
    if f[("none",)]:
        return {None}
    out: set = set()
    if f[("pre", "text/")]:
        out.add("TEXT_SOURCE")
    if f[("eq", "application/json")] or f[("suf", "+json")]:
        out.add("JSON_SOURCE")
    if f[("eq", "application/octet-stream")]:
        out.add("BYTES_SOURCE")
    return out or {None}


DOCUMENTED_AFFIXES = ("text/", "application/json", "application/octet-stream", "+json")


def _string_classes(consts: list[str], optional: bool) -> "list[tuple[str, dict[tuple, bool]]]":
    """(description, truth assignment) for every assignment of the atoms none / eq:c / pre:c / suf:c (c in consts, plus eq:"") that some
    Optional[str] satisfies.  The theory is decided on the constants themselves: None excludes every other atom; x == c0 fixes all atoms to
    what c0 itself satisfies (so two equalities exclude each other); otherwise no equality holds, the prefixes that hold are exactly the
    constants that are a prefix of the longest one that holds (two prefixes are compatible only if one is a prefix of the other), likewise
    the suffixes, and prefix and suffix atoms are independent of each other (a long enough string realises any such pair)."""
    cs = [c for c in consts if c != ""]
    atoms = [("none",), ("eq", "")] + [(k, c) for c in cs for k in ("eq", "pre", "suf")]
    out: list[tuple[str, dict[tuple, bool]]] = []
    if optional:
        out.append(("is None", {a: a == ("none",) for a in atoms}))
    for c0 in [""] + cs:
        f = {("none",): False, ("eq", ""): c0 == ""}
        for c in cs:
            f[("eq", c)] = c == c0
            f[("pre", c)] = c0.startswith(c)
            f[("suf", c)] = c0.endswith(c)
        out.append((f"== {c0!r}", f))
    for pre in [None] + cs:
        for suf in [None] + cs:
            f = {("none",): False, ("eq", ""): False}
            for c in cs:
                f[("eq", c)] = False
                f[("pre", c)] = pre is not None and pre.startswith(c)
                f[("suf", c)] = suf is not None and suf.endswith(c)
            desc = " and ".join(([f"starts with {pre!r}"] if pre is not None else []) + ([f"ends with {suf!r}"] if suf is not None else []))
            out.append(((desc + ", no literal equals it") if desc else "matches no literal", f))
    uniq: list[tuple[str, dict[tuple, bool]]] = []
    for d, f in out:
        if not any(f == g for _, g in uniq):
            uniq.append((d, f))
    return uniq


def _follow(e: ast.AST | None, lc: Locals, depth: int = 4) -> ast.AST | None:
    """the expression a local name stands for (single definition), transitively"""
    while isinstance(e, ast.Name) and depth and len(lc.values_of(e.id)) == 1 and lc.defs[e.id][0][0] == "assign":
        e = lc.values_of(e.id)[0]
        depth -= 1
    return e


def run(rep: Report, ctx: Any) -> str:
    ix = ctx.py
    jx = ctx.jinja
    it, ji = ctx.flow
    et = jx.templates.get("endpoint_module.py.jinja")
    rep.require(et, "endpoint_module.py.jinja")
    rep.rule("R04.1", "status dispatch is total over parsed responses: under every assignment of the conditions (inside or around the "
                      "loops over endpoint.responses) exactly one `if response.status_code == ...` per element of "
                      "endpoint.responses; under every assignment of the guards a status branch emits a return, and whenever the plain "
                      "variants (`def sync(`) are generated it is the decoded value, never None; the tail (raise UnexpectedStatus if "
                      "client.raise_on_unexpected_status else return None) is emitted unconditionally")
    rep.rule("R04.2", "media type -> source, decided on the result of get_content_type (overrides applied) whatever the document's key is "
                      "(truth table over the ==/startswith/endswith/is-None atoms of the classifier's literals, paths followed): text/* -> response.text:str, "
                      "application/json and +json -> response.json(), application/octet-stream -> response.content:bytes; no content / no "
                      "schema -> None: when `.content` is None or empty, or `.media_type_schema` is None, every feasible path of "
                      "response_from_data (helpers included) that has read it returns empty_response(...) and does not reach property_from_data")
    rep.rule("R04.3", "construct-or-cast: the kind's construct when it exists, else direct assignment when the types agree, else cast")
    rep.rule("R04.4", "_build_response forwards status_code, content, headers, parsed; sync = sync_detailed(...).parsed")
    rep.rule("R04.5", "status parsing is contained: when HTTPStatus(int(code)) raises ValueError no path lets it out of _add_responses, and "
                      "every path ends the iteration of the responses loop with a diagnostic appended to the endpoint's errors and nothing "
                      "appended to its responses")
    rep.rule("R04.6", "a union member's failing type check raises outside try/except only if it is the last member and no unmodified "
                      "member can still accept the value; in the decoder function the union construct macro writes (walked symbolically for "
                      "every list of up to three abstract members) every member with a construct macro gets its construct once, in order, "
                      "and the fall-through `return <value>` is written exactly when a member without one exists")
    rep.rule("R04.8", "raising the dedicated error cannot fail itself: every conversion UnexpectedStatus applies to the raw body of an "
                      "undocumented response is total (bytes.decode with a non-raising error handler) or enclosed by a try catching it")
    rep.rule("R04.15", "one parsed response per documented status: every statement of _add_responses (and of the private helpers it calls) "
                       "that adds to <endpoint>.responses adds exactly one element, stands in exactly one loop, and no path of the loop "
                       "body leads from one such statement to another (the statuses of the list stay pairwise distinct like the keys of "
                       "the document's mapping; the generated dispatch decodes a status by the first response that carries it)")
    rep.rule("R04.7", "resolving a $ref'd component response rebinds only `data`: the threaded state and the naming inputs are the same as "
                      "for an inline response (shared with C20)")

    # ---- R04.1 -----------------------------------------------------------------------------------------------------
    # macros of the template itself and macros it imports by name are read in place (expanded) wherever their result is emitted
    imported: dict[str, tuple[str, str]] = {}
    for imp in et.tree.find_all(nodes.FromImport):
        if isinstance(imp.template, nodes.Const) and isinstance(imp.template.value, str):
            for nm in imp.names:
                src, alias = nm if isinstance(nm, tuple) else (nm, nm)
                imported[alias] = (imp.template.value, src)

    def macro_named(name: str) -> "nodes.Macro | None":
        if name in et.macros:
            return et.macros[name]
        t2 = jx.templates.get(imported[name][0]) if name in imported else None
        return t2.macros.get(imported[name][1]) if t2 is not None else None

    et_body = _unroll(_inline_macros(_unroll(et.tree.body), macro_named))
    top = list(tplq.frags(et_body))
    # The plain variants (`def sync(`) exist exactly when the operation has a typed result; that condition - however it is spelled,
    # named or inlined - is what may decide between "return the decoded value" and "return None" in a status branch.
    plain = next((f for f in top if f.kind == "data" and not f.loops and re.search(r"^def sync\(", f.text, re.M)), None)
    # a top-level `set` variable with a single definition is a name for its definition: guards are compared with it unfolded, so naming
    # the condition in one place and writing it out in another is the same decision
    defs: dict[str, list[nodes.Node]] = {}
    for x in _tpl_stmts(et_body, (nodes.Assign,)):
        if isinstance(x.node.target, nodes.Name):
            defs.setdefault(x.node.target.name, []).append(x.node.node)

    def unfold(n: nodes.Node, depth: int = 4) -> nodes.Node:
        if isinstance(n, nodes.Name) and len(defs.get(n.name, ())) == 1 and depth:
            return unfold(defs[n.name][0], depth - 1)
        if isinstance(n, (nodes.And, nodes.Or)):
            return type(n)(unfold(n.left, depth), unfold(n.right, depth))
        if isinstance(n, nodes.Not):
            return nodes.Not(unfold(n.node, depth))
        return n

    def unfolded(f: tplq.Frag) -> tplq.Frag:
        return dataclasses.replace(f, guard_nodes=tuple(unfold(g) for g in f.guard_nodes))

    # The dispatch is read per loop over the parsed responses (the loop variable is canonical: endpoint.responses[*]), each fragment under
    # its full stack of conditions - those around the loop included.  A condition that does not depend on the response may stand inside the
    # loop or around it (one loop with a branch per kind of operation, or one loop per kind): what is decided is, for every assignment of
    # the conditions' atoms, how many status tests one response gets (exactly one) and what the loop that emits it returns.
    RESPONSES = "endpoint.responses"
    STATUS = f"{RESPONSES}[*].status_code.value"
    dispatch: list[tuple[list[tplq.Frag], list[tplq.Frag], list[tplq.Frag]]] = []   # per loop: status tests, returns, misplaced status tests
    for lp in _tpl_stmts(et_body, (nodes.For,)):
        if lp.loops or expr_text(lp.node.iter) != RESPONSES:
            continue
        g, gn = lp.guards, lp.guard_nodes
        if lp.node.test is not None:      # a loop filter guards the whole body
            g, gn = g + ((expr_text(lp.node.test), True),), gn + (lp.node.test,)
        body = [unfolded(f) for f in tplq.frags(lp.node.body, g, gn, (RESPONSES,))]
        tests = [f for f in body if f.kind == "expr" and f.text == STATUS]
        if tests:
            dispatch.append(([f for f in tests if f.loops == (RESPONSES,)],
                             [f for f in body if f.kind == "data" and f.loops == (RESPONSES,) and re.search(r"^\s*return\b", f.text, re.M)],
                             [f for f in tests if f.loops != (RESPONSES,)]))
    rets = [f for _, rs, _ in dispatch for f in rs]
    none_rets = [f for f in rets if re.search(r"^\s*return None\s*$", f.text, re.M)]
    none_ids = {id(f) for f in none_rets}
    val_rets = [f for f in rets if id(f) not in none_ids]
    plain = unfolded(plain) if plain is not None else None
    names: list[str] = []
    for f in [f for ts, _, _ in dispatch for f in ts] + rets + ([plain] if plain is not None else []):
        names += [a for a in tplq.guard_atoms(f) if a not in names]
    rep.require(len(names) <= 12, "guards of the status branches' returns are small enough for a truth table")
    miscounted_env = None  # an assignment of the guard atoms under which a response gets no status test, or more than one
    silent_env = None      # ... under which a status branch emits no return at all
    lost_env = None        # ... under which the operation has a typed result, yet a status branch returns None / no decoded value
    for env in tplq.assignments(names):
        live = [(ts, rs) for ts, rs, _ in dispatch if any(tplq.guard_holds(f, env) for f in ts)]
        if sum(1 for ts, _ in live for f in ts if tplq.guard_holds(f, env)) != 1:
            miscounted_env = env if miscounted_env is None else miscounted_env
            continue
        emitted = [f for f in live[0][1] if tplq.guard_holds(f, env)]
        if not emitted and silent_env is None:
            silent_env = env
        if plain is not None and tplq.guard_holds(plain, env) and lost_env is None and \
                (any(id(f) in none_ids for f in emitted) or all(id(f) in none_ids for f in emitted)):
            lost_env = env
    rep.check(bool(dispatch) and miscounted_env is None and not any(m for _, _, m in dispatch), "R04.1", "endpoint_module.py.jinja::one-test-per-response",
              "the status test is not emitted once per parsed response" + (f" (e.g. when {miscounted_env})" if miscounted_env else ""),
              where=f"{PKG}/templates/{et.name}", lhs=[[f.guards for f in ts] for ts, _, _ in dispatch],
              rhs="under every assignment of the conditions exactly one status test per element of endpoint.responses")
    rep.check(bool(val_rets) and silent_env is None, "R04.1", "endpoint_module.py.jinja::every-branch-returns",
              "a status branch can fall through without returning", where=f"{PKG}/templates/{et.name}", lhs=[len(val_rets), len(none_rets), silent_env],
              rhs="a return is emitted in every status branch under every assignment of its guards")
    rep.check(plain is not None and lost_env is None, "R04.1", "endpoint_module.py.jinja::typed-operation-returns-decoded-value",
              f"an operation with a typed result (the plain `sync` variant is generated) has a status branch that returns None instead of the "
              f"decoded value (e.g. when {lost_env}): a documented response is lost", where=f"{PKG}/templates/{et.name}",
              lhs=[g for f in none_rets for g, _ in f.guards], rhs="`return None` in a status branch only when the plain variants are not generated")
    tail = [f for f in top if f.kind == "data" and "raise errors.UnexpectedStatus(response.status_code, response.content)" in f.text]
    rep.check(len(tail) == 1 and not tail[0].guards and not tail[0].loops and "if client.raise_on_unexpected_status:" in tail[0].text
              and re.search(r"else:\s*\n\s*return None", tail[0].text) is not None, "R04.1", "endpoint_module.py.jinja::unexpected-status-tail",
              "the unexpected-status tail is conditional on the document (or no longer raises / returns None): an undocumented status would not "
              "raise for some endpoints", where=f"{PKG}/templates/{et.name}", lhs=[f.guards for f in tail], rhs="emitted unconditionally")
    es = jx.templates.get("errors.py.jinja")
    emod = _python_of(list(tplq.frags(es.tree.body))) if es is not None else None
    ecls = next((n for n in ast.walk(emod) if isinstance(n, ast.ClassDef) and n.name == "UnexpectedStatus"), None) if emod is not None else None
    rep.check(ecls is not None and any(norm(b).rsplit(".", 1)[-1].endswith(("Exception", "Error")) for b in ecls.bases), "R04.1",
              "errors.py.jinja::UnexpectedStatus", "the dedicated error class is gone", where=f"{PKG}/templates/errors.py.jinja")
    # ---- R04.8: raising the dedicated error must not fail itself ---------------------------------------------------------------
    # `raise errors.UnexpectedStatus(status, body)` runs the class's constructor on the raw body of an arbitrary (undocumented) response:
    # every conversion in the class that can raise on some bytes (may-raise table of C06; bytes.decode unless its error handler is one
    # that never raises) has to be contained, otherwise the caller gets that conversion's exception instead of the dedicated error.
    n_conv = 0
    if ecls is not None:
        for c in calls_in(ecls):
            last = call_name(c).rsplit(".", 1)[-1]
            if last not in MAY_RAISE:
                continue
            n_conv += 1
            total = False
            if last == "decode" and isinstance(c.func, ast.Attribute):
                h = next((k.value for k in c.keywords if k.arg == "errors"), c.args[1] if len(c.args) > 1 else None)
                total = isinstance(h, ast.Constant) and h.value in LENIENT_DECODE
            ok = total or all(caught(x, handlers_around(ecls, c)) for x in MAY_RAISE[last])
            rep.check(ok, "R04.8", f"errors.py.jinja::UnexpectedStatus::{last}-cannot-raise",
                      f"constructing UnexpectedStatus evaluates `{norm(c)}`, which raises {'/'.join(MAY_RAISE[last])} on some response bodies: "
                      "with raise_on_unexpected_status the caller gets that exception instead of the dedicated error",
                      where=f"{PKG}/templates/errors.py.jinja:{c.lineno}", lhs=norm(c), rhs="total conversion (non-raising error handler) or enclosing try")
    rep.indexed["unexpected_status_conversions"] = n_conv  # no floor: a constructor without conversions satisfies the rule

    # ---- R04.2 --------------------------------------------------------------------------------------------------------
    rmod = ix.modules.get(f"{PKG}.parser.responses")
    rep.require(rmod, "responses module")
    consts = {}
    for name, val in rmod.variables.items():
        # `_ResponseSource(attribute=..., return_type=...)`, `dict(...)` or a dict literal: the same TypedDict value
        if isinstance(val, ast.Call) and call_name(val) in ("_ResponseSource", "dict") and not val.args:
            consts[name] = {k.arg: k.value.value for k in val.keywords if isinstance(k.value, ast.Constant)}
        elif isinstance(val, ast.Call) and call_name(val) == "_ResponseSource" and len(val.args) == 1 and isinstance(val.args[0], ast.Dict):
            val = val.args[0]
        if isinstance(val, ast.Dict):
            consts[name] = {k.value: v.value for k, v in zip(val.keys, val.values) if isinstance(k, ast.Constant) and isinstance(v, ast.Constant)}
    want_src = {"JSON_SOURCE": ("response.json()", "Any"), "BYTES_SOURCE": ("response.content", "bytes"),
                "TEXT_SOURCE": ("response.text", "str"), "NONE_SOURCE": ("None", "None")}
    for nm, (attr, rt) in want_src.items():
        got = consts.get(nm, {})
        rep.check(got.get("attribute") == attr and got.get("return_type") == rt, "R04.2", f"responses::{nm}",
                  f"{nm} pairs {got.get('attribute')} with {got.get('return_type')}", where=f"{rmod.rel}", lhs=got, rhs={"attribute": attr, "return_type": rt})
    rfd = ix.func("responses.response_from_data")
    # The table is not read off the shape of the classifier (lookup table, if-chain, conditional expression, helper predicates are all
    # the same decision) but decided as a truth table over guard atoms: the document's key and the result of get_content_type are two
    # abstract strings known only through the atoms `is None`, `== c`, `.startswith(c)`, `.endswith(c)` over the string literals of the
    # classifier and of the statement's table.  For every consistent assignment of these atoms (_string_classes) the path the assignment
    # selects is followed to the source symbol it returns, which must be one the property statement documents for a *parsed* media type
    # (overrides applied) satisfying the assignment - whatever the key's atoms are: a test applied to the raw key shows up as an assignment
    # pair decoded from the wrong source.  Nothing is executed and no string is constructed.
    GCT = "get_content_type"

    def calls_gct(g: Any) -> bool:
        return any(call_name(c).rsplit(".", 1)[-1] == GCT for c in calls_in(g.node))

    if ix.has_func("responses._source_by_content_type"):
        sb = ix.func("responses._source_by_content_type")
    else:
        # renamed / merged: the helper of the response parser that turns the media type into the parsed one
        sb = next((g for g in region(ix, rfd) if g is not rfd and calls_gct(g)), None)
    rep.require(sb, "the function of the response parser that classifies a media type (calls get_content_type)")
    sb_region = region(ix, sb)
    pos_params = [p.arg for p in [*sb.node.args.posonlyargs, *sb.node.args.args]] or [p.arg for p in sb.params]
    rep.require(pos_params, "media type parameter of the classifier")
    key_param = "content_type" if "content_type" in [p.arg for p in sb.params] else pos_params[0]
    parsed_by_caller = not any(calls_gct(g) for g in sb_region)
    if parsed_by_caller:
        # get_content_type was moved in front of the classifier: every call of the classifier in the response parser must hand it that result
        handed = []
        for g in region(ix, rfd):
            lc_g = Locals(g.node)
            for c in calls_in(g.node):
                if call_name(c).rsplit(".", 1)[-1] == sb.name and g is not sb:
                    a0 = _follow(c.args[0] if c.args else next((k.value for k in c.keywords if k.arg == key_param), None), lc_g)
                    handed.append(isinstance(a0, ast.Call) and call_name(a0).rsplit(".", 1)[-1] == GCT)
        rep.require(handed and all(handed), "get_content_type(...) applied to the media type, inside the classifier or on the value handed to it")
    code_consts: list[str] = []
    used = {n.id for g in sb_region for n in ast.walk(g.node) if isinstance(n, ast.Name)}
    table_vars = [v for k, v in rmod.variables.items() if k in used and not isinstance(v, ast.Call)]  # module-level tables the classifier reads
    for holder in [g.node for g in sb_region] + table_vars:
        doc = ast.get_docstring(holder) if isinstance(holder, (ast.FunctionDef, ast.AsyncFunctionDef)) else None
        for n in ast.walk(holder):
            if isinstance(n, ast.Constant) and isinstance(n.value, str) and n.value and n.value != doc and n.value not in code_consts:
                code_consts.append(n.value)
    consts_all = list(DOCUMENTED_AFFIXES) + [c for c in code_consts if c not in DOCUMENTED_AFFIXES]
    rep.require(len(consts_all) <= 8, "few enough string literals in the media type classifier to enumerate the assignments of their atoms")
    parsed_classes = _string_classes(consts_all, optional=True)     # get_content_type returns Optional[str]
    raw_classes = _string_classes(consts_all, optional=False)       # the document's key is a string
    if parsed_by_caller:
        raw_classes = raw_classes[:1]                               # the classifier never sees the key

    def classify(raw_f: "dict[tuple, bool]", parsed_f: "dict[tuple, bool]") -> Any:
        raw_v, parsed_v = _AStr("raw"), _AStr("parsed")

        def gct(args: list[Any]) -> Any:
            if not args or args[0] is not raw_v:
                raise _Cannot("get_content_type applied to something other than the media type key")
            return parsed_v

        ev = _Eval(rmod, {GCT: gct}, {"raw": raw_f, "parsed": parsed_f})
        kw = {p.arg: _Sym(f"<{p.arg}>") for p in sb.params}
        kw[key_param] = parsed_v if parsed_by_caller else raw_v
        try:
            v = ev.call_function(sb.node, [], kw)
        except _Raised as r:
            return f"<raises {r.kind}>"
        if isinstance(v, _Sym):
            return v.name
        if isinstance(v, _AStr):
            return None if ev.atom(v, "none") else "<the media type itself>"
        # a module-level object that happens to be a literal: named, like the opaque ones, after the variable that holds it
        return next((k for k, g in ev._globals.items() if g is v and v is not None), v if v is None or isinstance(v, (str, int, bool)) else repr(v))

    wrong: list[dict[str, Any]] = []
    try:
        for p_desc, p_f in parsed_classes:
            want_p = _documented_sources(p_f)
            for r_desc, r_f in raw_classes:
                got = classify(r_f, p_f)
                if got not in want_p and len(wrong) < 4:
                    wrong.append({"document's key": "-" if parsed_by_caller else r_desc, "result of get_content_type": p_desc, "decoded from": got,
                                  "documented": sorted(map(str, want_p))})
    except _Cannot as e:
        rep.require(False, f"tests of {short(sb)} expressible over the atoms ==, startswith, endswith, is None of its literals ({e})")
    rep.check(not wrong, "R04.2", "_source_by_content_type::table",
              f"the media type table differs from the documented one, e.g. {wrong[0] if wrong else None}", where(sb, sb.node), lhs=wrong,
              rhs="text/* -> TEXT_SOURCE, application/json and +json -> JSON_SOURCE, application/octet-stream -> BYTES_SOURCE, anything else / "
                  "unparsable -> None, decided on the result of get_content_type")
    # counted by role: consistent truth assignments of the parsed media type's atoms (each against every assignment of the key's), not paths
    rep.floor("media_types_classified", len(parsed_classes), 15)
    er = ix.func("responses.empty_response")
    # every Response the empty-response constructor (or a private helper of it) builds carries NONE_SOURCE, however the argument gets there
    rcls = rmod.classes.get("Response")
    r_fields = list(rcls.fields) if rcls is not None else []
    built = []
    for g in region(ix, er):
        lc_g = Locals(g.node)
        for c in calls_in(g.node):
            if call_name(c).rsplit(".", 1)[-1] == "Response":
                src = next((k.value for k in c.keywords if k.arg == "source"), None)
                if src is None and "source" in r_fields and len(c.args) > r_fields.index("source"):
                    src = c.args[r_fields.index("source")]
                src = _follow(src, lc_g)
                built.append(norm(src).rsplit(".", 1)[-1] if src is not None else None)
    rep.require(built, "Response(...) construction in empty_response")
    rep.check(all(b == "NONE_SOURCE" for b in built), "R04.2", "empty_response::none-source", "an empty response is not decoded to None", where(er, er.node),
              lhs=built, rhs="source=NONE_SOURCE")
    # no content / no schema, stated on paths (scenario walker), not on the shape of a test: in the scenario "every read of the response's
    # `.content` yields nothing" (None, and an empty mapping) and in the scenario "the schema of the chosen media type
    # (`.media_type_schema`) is None", every path of response_from_data - private helpers walked with their arguments - that has read
    # that attribute ends by returning a non-error value built by empty_response(...), and property_from_data is not reached on it.  An
    # early return, the rest nested under the negated test, a schema local left at its None default that a later test picks up, the test
    # moved into a helper: all the same paths.
    r_helpers = private_callees(ix, rfd)
    rep.require(any(call_name(c).rsplit(".", 1)[-1] == "property_from_data" for g in [rfd, *r_helpers] for c in calls_in(g.node)),
                "property_from_data(...) call in response_from_data or its helpers")

    def reads(e: ast.AST, attr: str) -> bool:
        return isinstance(e, ast.Attribute) and e.attr == attr and isinstance(e.ctx, ast.Load)

    def r_event(e: ast.AST, st_: Any, w: Any) -> "str | None":
        if reads(e, "content"):
            return "content-read"
        if reads(e, "media_type_schema"):
            return "schema-read"
        if isinstance(e, ast.Call):
            last = w.callee(e, st_)        # a local holding functools.partial(f, ...) reads as f
            return "decoded" if last == "property_from_data" else "empty" if last == "empty_response" else None
        return None

    scenarios = [("the response has no content (None)", "content", "content-read", V(truthy=False, none=True, err=False)),
                 ("the response's content is empty", "content", "content-read", V(truthy=False, none=False, err=False)),
                 ("the media type has no schema", "media_type_schema", "schema-read", NONE)]
    not_empty: list[str] = []
    n_paths = 0
    for desc, attr, marker, val in scenarios:
        try:
            outs = Walker(rfd, axiom=lambda e, st_, w, attr=attr, val=val: val if reads(e, attr) else None, event=r_event, inline=r_helpers).run()
        except TooComplex as e:
            rep.require(False, f"paths of response_from_data few enough to follow ({e})")
        rel = [o for o in outs if marker in o.flags and o.final]
        rep.require(rel, f"path of response_from_data that reads `.{attr}`")
        n_paths += len(rel)
        for o in rel:
            if not (o.kind in ("return", "end") and not o.value.is_error() and "empty" in o.flags and "decoded" not in o.flags):
                what = ("reaches property_from_data" if "decoded" in o.flags else "returns an error" if o.value.is_error() else
                        f"raises {o.exc}" if o.kind in ("raise", "uncaught") else "returns something not built by empty_response")
                msg = f"when {desc}: a path {what} (ends at line {getattr(o.node, 'lineno', '?')})"
                if msg not in not_empty:
                    not_empty.append(msg)
    rep.check(not not_empty, "R04.2", "response_from_data::no-content-and-no-schema",
              "no content / no schema are not both mapped to the empty response: " + "; ".join(not_empty[:3]), where(rfd, rfd.node),
              lhs=not_empty[:6], rhs="every path that has read a missing / empty `.content`, or a None `.media_type_schema`, returns "
                                     "empty_response(...) without calling property_from_data")
    rep.floor("empty_response_paths", n_paths, 3)      # counted by role: path ends per scenario, at least one each

    # ---- R04.10: the source and the schema of a response belong to one media type ------------------------------------------------
    # A response offered in several representations is decoded from ONE of them: the source (classifier applied to the media type key)
    # and the schema (`.media_type_schema` of the media type object) must come from the same (key, object) entry of the content mapping.
    # Stated at the place where the two meet, not on the construct that selects them: the values are followed by provenance through the
    # response parser and its private helpers (scenario walker: locals, tuples, walrus targets, comprehension / generator elements,
    # next(), helper parameters and results, closures).  An entry of the response's `.content` gets a site when a loop / comprehension
    # binds it (`for k, m in content.items()`, `for k in content` with `content[k]` / `content.get(k)`); the classifier applied to a key
    # of site S yields source@S, `.media_type_schema` of the media type of site S yields schema@S, property_from_data(data=schema@S)
    # yields prop@S (prop@? for a schema of no known entry).  Tags of one iteration do not survive into the next one (the walker's loop
    # head forgets them).  Every Response(...) the parser builds from a classified source or a decoded property must have both from the
    # same single site - whether the selection is a for/else with break, a generator consumed by next(), a list of pairs searched
    # afterwards or a helper that returns the pair.
    rep.rule("R04.10", "the media type whose key is classified is the media type whose schema is decoded: every Response(...) the response "
                       "parser builds from a classified source or a decoded property has source and prop from one entry of the "
                       "response's content (provenance followed through locals, tuples, generators, helpers)")
    pfd_fn = ix.func("properties.property_from_data")
    pfd_params = [p.arg for p in [*pfd_fn.node.args.posonlyargs, *pfd_fn.node.args.args]]
    r_fns = [rfd, *[h for h in r_helpers if h.name != sb.name]]
    iter_nodes = {id(n.iter) for g in r_fns for n in ast.walk(g.node) if isinstance(n, (ast.For, ast.AsyncFor, ast.comprehension))}
    busy: set[int] = set()

    def sites(v: V, kind: str) -> set[str]:
        return {t.split("@", 1)[1] for t in v.tags() if t.startswith(kind + "@")}

    def resite(v: V, site: str) -> V:
        """the element of an iterable, bound by one more loop: its sites are that loop's"""
        return dataclasses.replace(v, tag=f"{v.tag}>{site}" if v.tag is not None and "@" in v.tag else v.tag,
                                   elts=tuple(resite(x, site) for x in v.elts) if v.elts is not None else None,
                                   item=resite(v.item, site) if v.item is not None else None)

    def arg_value(c: ast.Call, name: str, index: "int | None", st_: Any, w: Any) -> "V | None":
        node = next((k.value for k in c.keywords if k.arg == name), c.args[index] if index is not None and index < len(c.args) else None)
        return w.peek(node, st_) if node is not None else None

    def p_axiom(e: ast.AST, st_: Any, w: Any) -> "V | None":  # noqa: PLR0911, PLR0912
        if reads(e, "content"):
            return V(tag="content")
        if id(e) in iter_nodes and id(e) not in busy:
            busy.add(id(e))
            try:
                v = w.peek(e, st_)
            finally:
                busy.discard(id(e))
            if v.tag == "content":
                return V(none=False, item=V(tag=f"key@{id(e)}"))
            if v.item is not None and any("@" in t for t in v.item.tags()):
                return dataclasses.replace(v, item=resite(v.item, str(id(e))))
            return None
        if isinstance(e, ast.Subscript) and isinstance(e.ctx, ast.Load) and w.peek(e.value, st_).tag == "content":
            ks = sites(w.peek(e.slice, st_), "key")
            return V(none=False, tag=f"mt@{next(iter(ks))}") if len(ks) == 1 else None
        if isinstance(e, ast.Attribute) and e.attr == "media_type_schema" and isinstance(e.ctx, ast.Load):
            ms = sites(w.peek(e.value, st_), "mt")
            return V(tag=f"schema@{next(iter(ms))}") if len(ms) == 1 else None
        if not isinstance(e, ast.Call):
            return None
        last = w.callee(e, st_)
        if isinstance(e.func, ast.Attribute):
            recv = w.peek(e.func.value, st_)
            if recv.tag == "content" and not e.keywords:
                if e.func.attr == "items" and not e.args:
                    return V(none=False, item=V(True, False, False, elts=(V(none=False, tag=f"key@{id(e)}"), V(none=False, tag=f"mt@{id(e)}"))))
                if e.func.attr == "keys" and not e.args:
                    return V(none=False, item=V(none=False, tag=f"key@{id(e)}"))
                if e.func.attr == "get" and e.args:
                    ks = sites(w.peek(e.args[0], st_), "key")
                    return V(tag=f"mt@{next(iter(ks))}") if len(ks) == 1 else None
            if recv.tag is not None and recv.tag.startswith("key@") and last != sb.name:
                return V(none=False, tag=recv.tag)       # a string derived from the key (lower(), strip(), ...) is still this entry's key
        if last == sb.name:
            ks = set().union(*[sites(w.peek(a, st_), "key") for a in [*e.args, *[k.value for k in e.keywords]]])
            return V(tag=f"source@{next(iter(ks))}") if len(ks) == 1 else None
        if last == "property_from_data":
            d = arg_value(e, "data", pfd_params.index("data") if "data" in pfd_params else None, st_, w)
            ss = sites(d, "schema") if d is not None else set()
            return V(True, False, False, elts=(V(tag=f"prop@{next(iter(ss)) if len(ss) == 1 else '?'}"), UNKNOWN))
        return None

    built_from: dict[tuple, int] = {}       # (sites of the source, sites of the prop) of a Response(...) -> line

    def p_event(e: ast.AST, st_: Any, w: Any) -> None:
        if isinstance(e, ast.Call) and w.callee(e, st_) == "Response":
            src = arg_value(e, "source", r_fields.index("source") if "source" in r_fields else None, st_, w)
            prp = arg_value(e, "prop", r_fields.index("prop") if "prop" in r_fields else None, st_, w)
            key = (tuple(sorted(sites(src, "source"))) if src is not None else (), tuple(sorted(sites(prp, "prop"))) if prp is not None else ())
            built_from.setdefault(key, e.lineno)

    try:
        Walker(rfd, axiom=p_axiom, event=p_event, inline=r_fns[1:]).run()
    except TooComplex as e:
        rep.require(False, f"paths of response_from_data few enough to follow ({e})")
    selections = 0
    unpaired: list[str] = []
    for (s_sites, p_sites), line in sorted(built_from.items()):
        if not s_sites and not p_sites:
            continue            # neither classified nor decoded: an empty response
        selections += 1         # counted by role: Response constructions from a classified source / a decoded property
        if len(s_sites) == 1 and s_sites == p_sites:
            continue
        unpaired.append(f"the Response built at line {line} takes its source from "
                        f"{'the key of one content entry' if len(s_sites) == 1 else 'no single classified content entry'} and its prop from "
                        f"{'the schema of another entry' if p_sites and '?' not in p_sites else 'a schema that is not known to be that entry' + chr(39) + 's' if p_sites else 'no decoded schema'}")
    rep.check(not unpaired, "R04.10", "response_from_data::source-and-schema-from-one-media-type",
              "the source and the schema of a response can come from different media types of its content: the body is read one way and "
              "decoded as the other representation's type; " + "; ".join(unpaired[:2]), where(rfd, rfd.node), lhs=unpaired[:4],
              rhs="Response(source=<classifier(key of entry S)>, prop=<property_from_data(data=<entry S>.media_type_schema)>) with one S")
    rep.floor("media_type_selections", selections, 1)

    # ---- R04.3 ----------------------------------------------------------------------------------------------------------
    R = "endpoint.responses[*]"
    cons = [f for f in top if f.kind == "expr" and f.text.startswith(f"prop_template.construct({R}.prop, {R}.source.attribute)")]
    direct = [f for f in top if f.kind == "expr" and f.text == f"{R}.source.attribute" and any(f"{R}.source.return_type eq {R}.prop.get_type_string()" in g and p for g, p in f.guards)]
    casts = [f for f in top if f.kind == "data" and "= cast(" in f.text and any(f"{R}.source.return_type eq" in g and not p for g, p in f.guards)]
    rep.check(bool(cons) and any(g == "prop_template.construct" and p for g, p in cons[0].guards), "R04.3", "endpoint_module.py.jinja::uses-construct",
              "the kind's construct macro is not used when it exists", where=f"{PKG}/templates/{et.name}")
    rep.check(bool(direct) and bool(casts), "R04.3", "endpoint_module.py.jinja::direct-or-cast", "direct assignment / cast selection changed",
              where=f"{PKG}/templates/{et.name}", lhs=[len(direct), len(casts)], rhs="direct when types agree, else cast")

    # ---- R04.4 ------------------------------------------------------------------------------------------------------------
    # Read on the functions the (expanded) template writes: the text is cut at the top-level `def` / `async def` lines, whichever
    # macro or call block wrote them; _build_response has no template logic inside and is read as Python (what it returns, by keyword,
    # locals followed), the plain variants by what their return statement wraps.
    alltxt = "".join(f.text if f.kind == "data" else "__expr__" for f in top)
    heads = list(re.finditer(r"^(?:async[ \t]+def|def)[ \t]+(\w+)[ \t]*\(", alltxt, re.M))
    chunks: dict[str, list[str]] = {}
    for i, h in enumerate(heads):
        chunks.setdefault(h.group(1), []).append(alltxt[h.start():heads[i + 1].start() if i + 1 < len(heads) else len(alltxt)])
    rep.require(len(chunks.get("_build_response", ())) == 1, "_build_response (one definition)")
    br_line = next((f.line for f in top if f.kind == "data" and "_build_response(" in f.text), 0)
    # the function ends where its indented block ends: the shortest run of lines, cut in front of a line that starts at column 0, that
    # is one function definition (what follows may be template text that is captured or emitted elsewhere)
    br_lines = chunks["_build_response"][0].split("\n")
    br_fn = None
    for end in [i for i in range(1, len(br_lines)) if br_lines[i][:1].strip()] + [len(br_lines)]:
        try:
            mod = ast.parse("\n".join(br_lines[:end]))
        except SyntaxError:
            continue
        if len(mod.body) == 1 and isinstance(mod.body[0], ast.FunctionDef):
            br_fn = mod.body[0]
            break
    rep.require(isinstance(br_fn, ast.FunctionDef), "_build_response readable as Python")
    br_lc = Locals(br_fn)
    built_resp = [c for r in ast.walk(br_fn) if isinstance(r, ast.Return) and r.value is not None
                  for c in [_follow(r.value, br_lc)] if isinstance(c, ast.Call) and call_name(c).rsplit(".", 1)[-1] == "Response"]
    rep.require(built_resp, "return Response(...) in _build_response")

    def forwards(c: ast.Call, kw: str) -> bool:
        v = _follow(next((k.value for k in c.keywords if k.arg == kw), None), br_lc)
        if v is None:
            return False
        if kw == "status_code":
            return any(norm(x) == "response.status_code" for x in ast.walk(v))
        if kw == "parsed":
            return isinstance(v, ast.Call) and call_name(v) == "_parse_response" and \
                {k.arg: norm(_follow(k.value, br_lc)) for k in v.keywords} == {"client": "client", "response": "response"} and not v.args
        return norm(v) == f"response.{kw}"

    for kw in ("status_code", "content", "headers", "parsed"):
        rep.check(all(forwards(c, kw) for c in built_resp), "R04.4", f"_build_response::{kw}", f"_build_response does not forward {kw}",
                  where=f"{PKG}/templates/{et.name}:{br_line}", lhs=[norm(c)[:200] for c in built_resp],
                  rhs=f"{kw}=<response.{kw}>" if kw != "parsed" else "parsed=_parse_response(client=client, response=response)")
    flat = {nm: [re.sub(r"\s+", "", t) for t in ts] for nm, ts in chunks.items()}
    rep.check(bool(flat.get("sync")) and all(re.search(r"return\(?sync_detailed\(.*\)\)?\.parsed", t) for t in flat["sync"]), "R04.4", "sync::parsed-of-detailed",
              "sync is not sync_detailed(...).parsed", where=f"{PKG}/templates/{et.name}")
    rep.check(bool(flat.get("asyncio")) and all(re.search(r"return\(awaitasyncio_detailed\(.*\)\)\.parsed", t) for t in flat["asyncio"]), "R04.4",
              "asyncio::parsed-of-detailed", "asyncio is not (await asyncio_detailed(...)).parsed", where=f"{PKG}/templates/{et.name}")

    # ---- R04.5 --------------------------------------------------------------------------------------------------------------
    # Stated on paths: in the scenario "HTTPStatus(...) raises ValueError" (wherever the conversion sits: in _add_responses or in a
    # private helper it calls, walked with its arguments) no path lets the exception out of _add_responses, and every path ends the
    # iteration of the responses loop having appended to `<endpoint>.errors` and not to `<endpoint>.responses`.  Whether the handler
    # itself records and `continue`s, or returns a marker (None) that the loop tests afterwards, is the same path.
    ar = ix.func("Endpoint._add_responses")
    a_helpers = private_callees(ix, ar)

    def is_status_parse(e: ast.AST) -> bool:
        return isinstance(e, ast.Call) and call_name(e).rsplit(".", 1)[-1] == "HTTPStatus"

    hs = [(g, n) for g in [ar, *a_helpers] for n in ast.walk(g.node) if is_status_parse(n)]
    rep.require(hs, "HTTPStatus(...) in _add_responses or the private helpers it calls")

    def a_event(e: ast.AST, st_: Any, w: Any) -> "str | None":
        if isinstance(e, ast.Call) and isinstance(e.func, ast.Attribute) and e.func.attr in ("append", "extend", "insert"):
            recv = norm(e.func.value).rsplit(".", 1)[-1]
            return "recorded" if recv == "errors" else "used" if recv == "responses" else None
        return None

    try:
        outs = Walker(ar, raises=lambda e: "ValueError" if is_status_parse(e) else None, event=a_event, inline=a_helpers,
                      per_iteration=("raised", "recorded", "used")).run()
    except TooComplex as e:
        rep.require(False, f"paths of _add_responses few enough to follow ({e})")
    bad_status = [o for o in outs if "raised" in o.flags]
    rep.require(bad_status, "path of _add_responses on which the status code key is not a valid HTTP status")
    escaped = [o for o in bad_status if o.kind == "uncaught"]
    rep.check(not escaped, "R04.5", "_add_responses::status-parse-contained", "an invalid status code key raises out of the parser",
              where(*hs[0]), lhs=[f"{o.exc} at line {getattr(o.node, 'lineno', '?')}" for o in escaped], rhs="caught on every path")
    handled = [o for o in bad_status if o.kind != "uncaught"]
    unrecorded = [o for o in handled if not (o.kind == "iter-end" and "recorded" in o.flags and "used" not in o.flags)]
    rep.check(bool(handled) and not unrecorded, "R04.5", "_add_responses::bad-status-recorded",
              "a bad status code is not recorded as a diagnostic for the endpoint (or the response is used all the same, or the remaining "
              "responses are dropped)", where(ar, ar.node),
              lhs=[(o.kind, getattr(o.node, "lineno", "?"), sorted(o.flags - {"raised"})) for o in unrecorded],
              rhs="the iteration ends with an append to <endpoint>.errors and none to <endpoint>.responses")

    # ---- R04.15: one parsed response per documented status ------------------------------------------------------------------------
    # The endpoint template writes one status test per parsed response, in list order, each returning (R04.1): a status is decoded by
    # the FIRST response that carries it, so "decoded according to the documented media type and schema" needs the statuses of
    # <endpoint>.responses to be pairwise distinct.  The document's `responses` is a mapping (distinct keys) and a key converts to one
    # status; the list inherits distinctness as long as every iteration over the mapping adds at most one element to it.  Stated on the
    # statements that add to an attribute `responses` in _add_responses and the private helpers it calls: each adds exactly one element
    # (append / insert / a one-element display added or extended), stands in exactly one loop (a helper's: none, and its call in
    # _add_responses in one) and no path of the loop body leads from one of them to another without passing the loop head.
    from ..cfg import CFG, own_exprs, walk_own

    def added_elements(st: ast.stmt) -> "int | None":
        """how many elements the statement adds to an attribute `responses` (0: none; None: a number that is not written down)"""
        def is_resp(e: ast.AST) -> bool:
            return isinstance(e, ast.Attribute) and e.attr == "responses"

        def display_len(e: ast.AST) -> "int | None":
            return len(e.elts) if isinstance(e, (ast.List, ast.Tuple)) and not any(isinstance(x, ast.Starred) for x in e.elts) else None

        total: "int | None" = 0
        for n in walk_own(st):
            k: "int | None" = 0
            if isinstance(n, ast.Call) and isinstance(n.func, ast.Attribute) and is_resp(n.func.value):
                if n.func.attr in ("append", "insert"):
                    k = 1
                elif n.func.attr == "extend":
                    k = display_len(n.args[0]) if len(n.args) == 1 else None
            elif isinstance(n, ast.AugAssign) and is_resp(n.target):
                k = display_len(n.value) if isinstance(n.op, ast.Add) else None
            elif isinstance(n, (ast.Assign, ast.AnnAssign)) and any(is_resp(t) for t in (n.targets if isinstance(n, ast.Assign) else [n.target])):
                v = n.value
                if isinstance(v, ast.BinOp) and isinstance(v.op, ast.Add) and is_resp(v.left):
                    k = display_len(v.right)
                elif isinstance(v, (ast.List, ast.Tuple)) and sum(1 for x in v.elts if isinstance(x, ast.Starred)) == 1 \
                        and all(is_resp(x.value) for x in v.elts if isinstance(x, ast.Starred)):
                    k = len(v.elts) - 1
                elif isinstance(v, (ast.List, ast.Tuple)) and not v.elts:
                    k = 0
                else:
                    k = None
            total = None if total is None or k is None else total + k
        return total

    def loops_around(fn: ast.AST, st: ast.AST) -> list[ast.AST]:
        return [n for n in ast.walk(fn) if isinstance(n, (ast.For, ast.AsyncFor, ast.While, ast.ListComp, ast.SetComp, ast.DictComp, ast.GeneratorExp))
                and n is not st and any(sub is st for sub in ast.walk(n))]

    problems: list[str] = []
    ar_sites: list[ast.stmt] = []      # statements of _add_responses that add a response (themselves or through a helper)
    n_sites = 0
    helper_names = {h.name: h for h in a_helpers}
    adding_helpers: set[str] = set()
    for g in [*a_helpers, ar]:
        for st in [x for x in ast.walk(g.node) if isinstance(x, ast.stmt) and not isinstance(x, (ast.FunctionDef, ast.AsyncFunctionDef, ast.ClassDef))]:
            if isinstance(st, (ast.If, ast.For, ast.AsyncFor, ast.While, ast.With, ast.AsyncWith, ast.Try)):
                # a compound statement: its header only (the statements inside are looked at one by one)
                hdr = ast.Expr(value=ast.Tuple(elts=[e for e in own_exprs(st) if isinstance(e, ast.expr)], ctx=ast.Load()))
                k = added_elements(hdr)
            else:
                k = added_elements(st)
            via = [helper_names[call_name(c).rsplit(".", 1)[-1]].name for c in calls_in(st) if not isinstance(st, (ast.If, ast.For, ast.AsyncFor, ast.While, ast.With, ast.AsyncWith, ast.Try))
                   and call_name(c).rsplit(".", 1)[-1] in adding_helpers] if g is ar else []
            if k == 0 and not via:
                continue
            n_sites += 1
            if k is None or k + len(via) != 1:
                problems.append(f"{short(g)}:{st.lineno} adds {'an unwritten number of' if k is None else k + len(via)} responses at once")
            inner = loops_around(g.node, st)
            if g is ar:
                ar_sites.append(st)
                if len(inner) != 1:
                    problems.append(f"{short(g)}:{st.lineno} adds a response inside {len(inner)} nested loops")
            else:
                adding_helpers.add(g.name)
                if inner:
                    problems.append(f"{short(g)}:{st.lineno} adds a response inside a loop of the helper")
    rep.require(n_sites, "a statement that adds to <endpoint>.responses in _add_responses or its private helpers")
    ar_cfg = CFG(ar.node)
    for s1 in ar_sites:
        lp = loops_around(ar.node, s1)
        if len(lp) != 1 or not isinstance(lp[0], ast.stmt):
            continue
        after = ar_cfg.reachable_from(s1, avoid=lambda n, _lp=lp[0]: n is _lp)
        again = [s2 for s2 in ar_sites if s2 is not s1 and any(s2 is x for x in after)]
        if again:
            problems.append(f"{short(ar)}:{s1.lineno} and :{again[0].lineno} both add a response in one iteration")
    rep.check(not problems, "R04.15", "_add_responses::one-response-per-documented-status",
              "an iteration over the document's responses can add more than one parsed response: two responses with one status make the "
              "later one unreachable in the generated status dispatch, so that status is decoded with another response's media type / schema",
              where(ar, ar.node), lhs=problems, rhs="every iteration adds at most one element to <endpoint>.responses")

    # ---- R04.6 ----------------------------------------------------------------------------------------------------------------
    # Stated on what the union decoder WRITES, not on how the template keeps its books.  The construct macro of the union template is
    # walked symbolically (c04_tplwalk: nothing is run, no document value exists) for every list of up to three abstract members, each
    # known only by two facts about its property template - has a `construct` macro, has a `check_type_for_construct` macro - and for
    # every assignment of the other conditions the template tests on the way.  Whether the template tracks "an unmodified member was
    # seen" in a running namespace flag, partitions the members up front (call block, accumulating lists), filters the loop or skips
    # with `continue` is all the same: the text of the decoder function comes out, the members' own macros as markers.  On that
    # function (read as Python): a decoding step is a member's construct or the fall-through `return <the value>`; a step - or a type
    # check's `raise` - that stands outside try/except ends the decoding, so it may be written only when no step of another member
    # and no fall-through follows it.
    ut = jx.templates.get("property_templates/union_property.py.jinja")
    rep.require(ut is not None and "construct" in ut.macros, "union construct")
    KINDS = [(c, k) for c in (True, False) for k in (True, False)]
    MARK = re.compile(r"^__(construct|check)_(\d+)__$")

    def marks(n: ast.AST) -> list[tuple[str, int]]:
        return [(m.group(1), int(m.group(2))) for x in ast.walk(n) if isinstance(x, ast.Name) for m in [MARK.match(x.id)] if m]

    @dataclasses.dataclass
    class _Decoder:
        kinds: tuple
        env: dict
        constructs: list        # (member, line, inside try)
        raises: list            # (member of the nearest marker before it, line, inside try)
        fallbacks: list         # lines of `return <expression over the parameter>` at the function's top level

        def follows(self, member: int, line: int) -> "str | None":
            nxt = next((f"the construct of member {j + 1}" for j, ln, _ in self.constructs if ln > line and j != member), None)
            return nxt or next(("the fall-through return of the value" for ln in self.fallbacks if ln > line), None)

    decoders: list[_Decoder] = []
    try:
        for n_members in (1, 2, 3):
            for kinds in itertools.product(KINDS, repeat=n_members):
                for env_, text in tplwalk.renderings(jx, ut.name, "construct", list(kinds)):
                    try:
                        mod = ast.parse(text)
                    except SyntaxError:
                        rep.require(False, f"the text the union construct macro writes for members {kinds} readable as Python")
                    fns = [f for f in ast.walk(mod) if isinstance(f, ast.FunctionDef)]
                    d = _Decoder(kinds, env_, [], [], [])
                    for fn in fns:
                        par = fn.args.args[0].arg if fn.args.args else None
                        in_try: dict[int, bool] = {}

                        def visit(stmts: list[ast.stmt], guarded: bool) -> None:
                            for st in stmts:
                                in_try[id(st)] = guarded
                                if isinstance(st, ast.Try):
                                    visit(st.body, guarded or bool(st.handlers))
                                    for h in st.handlers:
                                        visit(h.body, guarded)
                                    visit(st.orelse, guarded)
                                    visit(st.finalbody, guarded)
                                else:
                                    for fld in ("body", "orelse"):
                                        sub = getattr(st, fld, None)
                                        if isinstance(sub, list) and sub and isinstance(sub[0], ast.stmt):
                                            visit(sub, guarded)

                        visit(fn.body, False)
                        seen: list[tuple[int, int]] = []     # (line, member) of every marker
                        for st in [s for s in ast.walk(fn) if isinstance(s, ast.stmt) and id(s) in in_try]:
                            own = [x for x in ast.iter_child_nodes(st) if not isinstance(x, ast.stmt)]
                            ms = [m for x in own for m in marks(x)] if not isinstance(st, (ast.FunctionDef, ast.Try)) else []
                            seen += [(st.lineno, j) for _, j in ms]
                            for what, j in ms:
                                if what == "construct":
                                    d.constructs.append((j, st.lineno, in_try[id(st)]))
                        for st in [s for s in ast.walk(fn) if isinstance(s, ast.Raise) and id(s) in in_try]:
                            before = [j for ln, j in sorted(seen) if ln <= st.lineno]
                            d.raises.append((before[-1] if before else -1, st.lineno, in_try[id(st)]))
                        d.fallbacks += [st.lineno for st in fn.body if isinstance(st, ast.Return) and st.value is not None and par is not None
                                        and any(isinstance(x, ast.Name) and x.id == par for x in ast.walk(st.value))]
                    d.constructs.sort(key=lambda c: c[1])
                    decoders.append(d)
    except tplwalk.Cannot as e:
        rep.require(False, f"the union construct macro can be followed symbolically ({e})")
    rep.floor("union_decoders_walked", len(decoders), 84)

    def show(d: _Decoder) -> str:
        names = {(True, True): "construct+check", (True, False): "construct, no check", (False, False): "unmodified", (False, True): "check only"}
        return "members [" + ", ".join(names[k] for k in d.kinds) + "]" + (f" when {d.env}" if d.env else "")

    undecoded = next((d for d in decoders if [j for j, _, _ in d.constructs] != [i for i, k in enumerate(d.kinds) if k[0]]), None)
    rep.check(undecoded is None, "R04.6", "union_property.py.jinja::construct::every-member-decoded",
              f"the union decoder does not write the construct of every member whose template has one, once and in the order of the members "
              f"({show(undecoded) if undecoded else ''})", where=f"{PKG}/templates/{ut.name}",
              lhs=[j for j, _, _ in undecoded.constructs] if undecoded else None, rhs="one construct per member with a construct macro, in order")
    bad_raise = None
    n_b = 0
    for d in decoders:
        for j, line, guarded in d.raises:
            if guarded:
                continue
            n_b += 1
            nxt = d.follows(j, line)
            if nxt is not None and bad_raise is None:
                bad_raise = (d, j, nxt)
    rep.check(bad_raise is None, "R04.6", "union_property.py.jinja::construct::bare-raise",
              "a member's type check raises outside try/except although decoding could continue" +
              (f" ({show(bad_raise[0])}: the raise after member {bad_raise[1] + 1}'s check is followed by {bad_raise[2]})" if bad_raise else "") +
              ": a value of a scalar alternative listed before a model makes from_dict / the response parser raise TypeError",
              where=f"{PKG}/templates/{ut.name}", lhs=show(bad_raise[0]) if bad_raise else None,
              rhs="a raise outside try/except only when no other member's construct and no fall-through return follows")
    rep.floor("bare_type_raises", n_b, 1)
    # ---- R04.12: the same condition for the member's construct itself, decided per member template -----------------------------------
    # A member's construct written outside try/except ends the decoding: whatever it raises leaves the response parser, and the
    # `return` after it makes every later member unreachable.  So, for every property template T that defines `construct`: in every
    # walked decoder, a member with T's facts (has construct / has check_type_for_construct) gets its construct outside a try only when
    # nothing can follow (no other member's construct, no fall-through return).  Adding a construct macro without a type check, dropping
    # a type check, or loosening the union's guard are the same finding.
    rep.rule("R04.12", "for every property template that defines `construct`: with the template's own facts (has construct / has "
                       "check_type_for_construct) the union decoder emits the member's construct outside try/except only for the last "
                       "member when no unmodified member can still accept the value")
    n_tpl = 0
    for tname, t in sorted(jx.templates.items()):
        if not tname.startswith("property_templates/") or "construct" not in t.macros or t is ut:
            continue
        n_tpl += 1
        checked = "check_type_for_construct" in t.macros
        bad = None
        for d in decoders:
            for j, line, guarded in d.constructs:
                if not guarded and d.kinds[j] == (True, checked):
                    nxt = d.follows(j, line)
                    if nxt is not None:
                        bad = (d, j, nxt)
                        break
            if bad:
                break
        short_name = tname.rsplit("/", 1)[-1]
        rep.check(bad is None, "R04.12", f"union_property.py.jinja::construct::member[{short_name}]::unguarded-only-when-nothing-follows",
                  f"a union member rendered by {short_name} ({'with' if checked else 'without'} check_type_for_construct) gets its construct "
                  f"outside try/except although decoding could continue" +
                  (f" (e.g. {show(bad[0])}: member {bad[1] + 1}'s construct is followed by {bad[2]})" if bad else "") +
                  ": a value of a later alternative raises out of the response parser instead of being decoded", where=f"{PKG}/templates/{tname}",
                  lhs={"check_type_for_construct": checked}, rhs="construct inside try/except unless last member and no unmodified member")
    rep.floor("member_templates_with_construct", n_tpl, 5)
    # the fall-through is written exactly when a member without a construct macro exists (it is the only way such a member is accepted)
    miscast = next((d for d in decoders if bool(d.fallbacks) != any(not k[0] for k in d.kinds)), None)
    rep.check(miscast is None, "R04.6", "union_property.py.jinja::construct::fallback-cast",
              "the fallback `return cast(...)` for unmodified members is missing or mis-guarded" + (f" ({show(miscast)})" if miscast else ""),
              where=f"{PKG}/templates/{ut.name}")

    # ---- reference convergence (shared with C20) ------------------------------------------------------------------------------
    params = {p.arg for p in rfd.params}
    branch = next((n for n in ast.walk(rfd.node) if isinstance(n, ast.If) and "isinstance(data, oai.Reference)" in norm(n.test)), None)
    rep.require(branch, "reference branch in response_from_data")
    # the arm taken for a reference, whichever polarity the test is written in (undetermined: both arms)
    taken = _k3(branch.test, {"isinstance(data, oai.Reference)": True})
    ref_arm = branch.body if taken is True else branch.orelse if taken is False else branch.body + branch.orelse
    assigned = {x.id for s in ref_arm for n in ast.walk(s) if isinstance(n, (ast.Assign, ast.AugAssign))
                for t_ in (n.targets if isinstance(n, ast.Assign) else [n.target]) for x in ast.walk(t_) if isinstance(x, ast.Name)}
    leak = sorted((assigned & params) - {"data"})
    rep.check(not leak, "R04.7", "response_from_data::reference-branch-rebinds-only-data",
              f"resolving a $ref'd component response also changes {leak}: later operations referencing the same component lose the response",
              where(rfd, branch), lhs=sorted(assigned), rhs="{data}")
    # ---- R04.11: the asyncio variants talk through a transport configured like the blocking one ------------------------------------
    # "blocking and asyncio variants agree" needs more than the parity of the endpoint functions: both get the status they decode from
    # an httpx client the generated Client class builds, and every option that shapes the exchange (base URL, cookies, headers, timeout,
    # TLS verification, redirects, the user's httpx_args) reaches httpx.AsyncClient(...) exactly as it reaches httpx.Client(...).  Read on
    # the classes as client.py.jinja writes them (macros inlined): per class, the constructions of the two are compared parameter by
    # parameter - keyword order, a shared dict of arguments or a local in between make no difference.
    rep.rule("R04.11", "in every class client.py.jinja writes, httpx.AsyncClient(...) is constructed with exactly the arguments (names and "
                       "values, ** expansions included) httpx.Client(...) is constructed with")
    rep.require("client.py.jinja" in jx.templates, "client.py.jinja")
    # Two readers of the template, the first that finds a transport being built is used: the skeleton (the module laid out with holes),
    # and the expanded template cut into its functions (which also reads a class whose methods are written by a loop over a table of
    # literal rows: the rows' texts are folded into the function text).
    cmod = _generated_module(jx, "client.py.jinja")
    by_class: dict[str, list[ast.AST]] = {}
    if cmod is not None:
        by_class = {k.name: [x for x in ast.walk(k) if isinstance(x, (ast.FunctionDef, ast.AsyncFunctionDef))] for k in cmod.body if isinstance(k, ast.ClassDef)}

    def transports(fns: "list[ast.AST]") -> "dict[str, list[dict[str, str]]]":
        got: dict[str, list[dict[str, str]]] = {}
        for m in fns:
            lc_m = Locals(m)
            for c in calls_in(m):
                if call_name(c) in ("httpx.Client", "httpx.AsyncClient"):
                    sig = _call_signature(c, lc_m)
                    if sig not in got.setdefault(call_name(c), []):
                        got[call_name(c)].append(sig)
        return got

    if not any(transports(fns) for fns in by_class.values()):
        by_class = _expanded_functions(jx, "client.py.jinja")
    rep.require(any(transports(fns) for fns in by_class.values()), "a class of client.py.jinja that builds an httpx client, readable as Python")
    n_transports = 0
    for kls_name, fns in by_class.items():
        kls = types.SimpleNamespace(name=kls_name)
        built = transports(fns)
        if not built:
            continue
        n_transports += 1
        blocking, asyncio_ = built.get("httpx.Client", []), built.get("httpx.AsyncClient", [])
        same = bool(blocking) and bool(asyncio_) and all(x in asyncio_ for x in blocking) and all(x in blocking for x in asyncio_)
        diff = sorted({k for x in blocking for y in asyncio_ for k in set(x) | set(y) if x.get(k) != y.get(k)})
        rep.check(same, "R04.11", f"client.py.jinja::{kls.name}::async-transport-built-like-blocking",
                  f"{kls.name} configures its httpx.AsyncClient differently from its httpx.Client ({', '.join(diff) or 'one of them is never built'}): "
                  "the asyncio variants can see another status / response than the blocking ones for the same call",
                  where=f"{PKG}/templates/client.py.jinja", lhs=asyncio_, rhs=blocking)
    rep.floor("client_classes_with_transports", n_transports, 1)

    # ---- R04.13: what the response parser reads of the document is what the document says (shared with C02) ------------------------
    # "Decoded according to the documented media type" is decided on the document's own words: the key of a `content` entry is looked
    # up, as written, in the user's content_type_overrides and classified; the keys of `responses` are the statuses.  A validator of the
    # document model (or any other code) that rewrites one of the fields the response parser reads - re-spelling media type names,
    # dropping entries, replacing a schema - changes which status / media type / schema is decoded behind the parser's back, whatever
    # the parser itself does right.  The fields are found by role: every attribute of a document object (a class of the package that
    # defines Schema, receiver by abstract type) read in the region of response_from_data / _add_responses or in the arguments they are
    # called with.  For exactly those fields C02's document-frame rule (every in-place write to the parsed document, validators' results
    # included, is one of the frozen writers) is claimed here under C04's id, with the same construct keys.
    from .c02 import _document_frame

    rep.rule("R04.13", "the fields of the parsed document that the response parser reads (found by role: attributes of document objects "
                       "read in the region of response_from_data / _add_responses and in the arguments of their calls) are not rewritten "
                       "in place - by a pydantic validator or anywhere else - other than by C02's frozen writers: statuses, media type "
                       "names and schemas reach the parser as the document wrote them (shared with C02's R02.11)")
    schema_cls = ix.cls("Schema")
    rep.require(schema_cls, "class Schema")
    doc_pkg = schema_cls.module.name.rsplit(".", 1)[0]
    doc_cls = {c.qual: c for c in ix.classes.values() if c.module.name == doc_pkg or c.module.name.startswith(doc_pkg + ".")}
    parser_fns = {g.qual: g for f0 in (rfd, ar) for g in region(ix, f0)}
    entry_names = {rfd.name, ar.name}
    read_nodes: list[ast.AST] = [g.node for g in parser_fns.values()]
    for f0 in ix.all_functions:
        if f0.qual not in parser_fns:
            read_nodes += [a for c in calls_in(f0.node) if call_name(c).rsplit(".", 1)[-1] in entry_names for a in [*c.args, *[k.value for k in c.keywords]]]
    doc_reads: set[str] = set()
    for holder in read_nodes:
        for n in ast.walk(holder):
            if isinstance(n, ast.Attribute) and isinstance(n.ctx, ast.Load):
                av = it.node_av.get(id(n.value))
                doc_reads |= {f"{doc_cls[t].name}.{n.attr}" for t in (getattr(av, "types", ()) or ()) if t in doc_cls}
    rep.floor("document_fields_read_by_response_parser", len(doc_reads), 3)

    class _OnlyReadFields(_UnderRule):
        def check(self, cond: bool, rule: str, construct: str, *a: Any, **k: Any) -> bool:
            return self._rep.check(cond, self._rule, construct, *a, **k) if construct.rsplit("::", 1)[-1] in doc_reads else True

        def floor(self, *a: Any, **k: Any) -> None:       # the floors of the shared rule are C02's
            return None

    _document_frame(_OnlyReadFields(rep, "R04.13"), ix, it)

    # ---- R04.14: what is decoded for a document does not depend on what this process generated before ------------------------------
    # The statement quantifies over documents and configurations, one at a time: which source and schema a documented status gets is
    # a function of the document and of the configuration of this run (content_type_overrides among it).  Necessary for that: no
    # function the response parser can reach (call graph from response_from_data / _add_responses; receivers that cannot be resolved
    # reach every method of that name) writes to an object that outlives the call - a module-level variable (rebinding through
    # `global`, an item / attribute store, a mutating method), class state through `cls`, an attribute of a function / class / module,
    # a mutable parameter default.  One kind of such a write can be right: an entry `T[key] = v` / `T.setdefault(key, v)` of a table
    # whose key names every parameter the function reads - then a later call finds the entry only for the same inputs.  (A functools
    # cache is keyed on all arguments by construction: a helper that leaves an input out of its parameters can get at it only through
    # state written elsewhere, which is a write of the first kind.)
    from .c04_state import key_covers_inputs, process_writes, reached

    rep.rule("R04.14", "no function reachable from response_from_data / _add_responses (call graph, unresolved receivers by method name) "
                       "writes to an object that outlives the call (module-level variable, class state, function / module attribute, "
                       "mutable parameter default), except an entry T[key] = v whose key names every parameter the function reads: the "
                       "source and schema chosen for a status depend on the document and this run's configuration only")
    reach = reached(ix, [rfd, ar])
    rep.floor("functions_reached_by_response_parser", len(reach), 10)
    for g in sorted(reach, key=lambda x: x.qual):
        for n_w, obj, key in process_writes(g):
            missing = [p for p in key_covers_inputs(g, key) if p != re.split(r"[.\[(]", obj, 1)[0]] if key is not None else None   # (the table itself is no input)
            rep.check(missing == [], "R04.14", f"{short(g)}::process-state[{obj}]",
                      f"{short(g)} keeps state in `{obj}`, which outlives the call" + (f", under a key that leaves out the input(s) {missing}" if missing else "")
                      + ": a later generation in the same process (another configuration, another document) is answered from the earlier one",
                      where(g, n_w), lhs=norm(n_w)[:200], rhs="no process-wide state, or an entry keyed on every input")
    rep.ok("R04.14", "response-parser::no-process-state", f"{len(reach)} functions", "functions reached by the response parser")

    # ---- R04.9: the module of an operation is rendered from that operation (shared with C16) ---------------------------------------
    # Everything above is about what the endpoint template writes for the endpoint it is given; the statuses an operation documents are
    # decoded by its module only if the text written to the operation's path is, on every path of the builder, the template rendered
    # with that very endpoint (not a text cached under a coarser key, not another collection's rendering).  C16 states exactly this
    # for generate_all_tags (symbolic execution of the Project methods that write text files); it is claimed here under C04's id.
    from .c16 import _r164_builder

    rep.rule("R04.9", "the builder writes, to the path computed from an element of <collection>.endpoints, on every path the endpoint "
                      "template rendered with that very element (shared with C16's R16.4 builder clause)")
    _r164_builder(_UnderRule(rep, "R04.9"), ix)
    rep.not_decided += ["what httpx returns; decoding of values (C02)"]
    return LEVEL
