"""C04 - responses are decoded per documented status and media type (structural clauses)."""
from __future__ import annotations

import ast
import re
from typing import Any

from jinja2 import nodes

from .. import tplq
from ..astutil import Locals, call_name, norm, short, where
from ..core import PKG, Report
from ..jinja_interp import expr_text
from .c06 import caught, handlers_around

LEVEL = ("structural clauses: one status test per parsed response, each branch returns, the unexpected-status tail (raise or "
         "None) is unconditional; the media-type -> source table extracted from _source_by_content_type equals the table in the "
         "property statement and each source pairs an httpx accessor with its type; construct-or-cast; a failing type check of a "
         "union member aborts decoding only when nothing can follow it (truth table); _build_response forwards status, content, "
         "headers, parsed; blocking/asyncio parity; status parsing contained; reference resolution converges (shared with C20).")


def run(rep: Report, ctx: Any) -> str:
    ix = ctx.py
    jx = ctx.jinja
    it, ji = ctx.flow
    et = jx.templates.get("endpoint_module.py.jinja")
    rep.require(et, "endpoint_module.py.jinja")
    rep.rule("R04.1", "status dispatch is total over parsed responses: one `if response.status_code == ...` per element of "
                      "endpoint.responses, each branch returns; the tail (raise UnexpectedStatus if client.raise_on_unexpected_status "
                      "else return None) is emitted unconditionally")
    rep.rule("R04.2", "media type -> source: text/* -> response.text:str, application/json and +json -> response.json(), "
                      "application/octet-stream -> response.content:bytes, no content / no schema -> None")
    rep.rule("R04.3", "construct-or-cast: the kind's construct when it exists, else direct assignment when the types agree, else cast")
    rep.rule("R04.4", "_build_response forwards status_code, content, headers, parsed; sync = sync_detailed(...).parsed")
    rep.rule("R04.5", "status parsing is contained: HTTPStatus(int(code)) sits in a try catching ValueError whose handler records a diagnostic")
    rep.rule("R04.6", "a union member's failing type check raises outside try/except only if it is the last member and no unmodified "
                      "member can still accept the value")
    rep.rule("R04.7", "resolving a $ref'd component response rebinds only `data`: the threaded state and the naming inputs are the same as "
                      "for an inline response (shared with C20)")

    # ---- R04.1 -----------------------------------------------------------------------------------------------------
    top = list(tplq.frags(et.tree.body))
    # (the variable of `for x in endpoint.responses` is canonical: endpoint.responses[*]; a `set` variable reads as its definition)
    st = [f for f in top if f.kind == "expr" and f.text == "endpoint.responses[*].status_code.value"]
    rep.check(len(st) == 1 and st[0].loops == ("endpoint.responses",) and not st[0].guards, "R04.1", "endpoint_module.py.jinja::one-test-per-response",
              "the status test is not emitted once per parsed response", where=f"{PKG}/templates/{et.name}", lhs=[(f.loops, f.guards) for f in st],
              rhs="inside `for response in endpoint.responses`, unguarded")
    rets = [f for f in top if f.kind == "data" and f.loops == ("endpoint.responses",) and re.search(r"^\s*return\b", f.text, re.M)]
    arms = {tuple(p for _, p in f.guards if True) for f in rets}
    # the "this operation has a typed result" flag, however it is named or inlined: the guard built from endpoint.responses|length
    # and the response type
    def typed(g: str) -> bool:
        return "endpoint.responses|length" in g and "response_type()" in g

    pr = [f for f in rets if any(typed(g) and p for g, p in f.guards)]
    npr = [f for f in rets if any(typed(g) and not p for g, p in f.guards)]
    rep.check(bool(pr) and bool(npr), "R04.1", "endpoint_module.py.jinja::every-branch-returns", "a status branch can fall through without returning",
              where=f"{PKG}/templates/{et.name}", lhs=[len(pr), len(npr)], rhs="return on both arms of parsed_responses")
    tail = [f for f in top if f.kind == "data" and "raise errors.UnexpectedStatus(response.status_code, response.content)" in f.text]
    rep.check(len(tail) == 1 and not tail[0].guards and not tail[0].loops and "if client.raise_on_unexpected_status:" in tail[0].text
              and re.search(r"else:\s*\n\s*return None", tail[0].text) is not None, "R04.1", "endpoint_module.py.jinja::unexpected-status-tail",
              "the unexpected-status tail is conditional on the document (or no longer raises / returns None): an undocumented status would not "
              "raise for some endpoints", where=f"{PKG}/templates/{et.name}", lhs=[f.guards for f in tail], rhs="emitted unconditionally")
    es = jx.templates.get("errors.py.jinja")
    rep.check(es is not None and "class UnexpectedStatus(Exception)" in es.src, "R04.1", "errors.py.jinja::UnexpectedStatus", "the dedicated error class is gone",
              where=f"{PKG}/templates/errors.py.jinja")

    # ---- R04.2 --------------------------------------------------------------------------------------------------------
    rmod = ix.modules.get(f"{PKG}.parser.responses")
    rep.require(rmod, "responses module")
    consts = {}
    for name, val in rmod.variables.items():
        if isinstance(val, ast.Call) and call_name(val) == "_ResponseSource":
            consts[name] = {k.arg: k.value.value for k in val.keywords if isinstance(k.value, ast.Constant)}
    want_src = {"JSON_SOURCE": ("response.json()", "Any"), "BYTES_SOURCE": ("response.content", "bytes"),
                "TEXT_SOURCE": ("response.text", "str"), "NONE_SOURCE": ("None", "None")}
    for nm, (attr, rt) in want_src.items():
        got = consts.get(nm, {})
        rep.check(got.get("attribute") == attr and got.get("return_type") == rt, "R04.2", f"responses::{nm}",
                  f"{nm} pairs {got.get('attribute')} with {got.get('return_type')}", where=f"{rmod.rel}", lhs=got, rhs={"attribute": attr, "return_type": rt})
    sb = ix.func("responses._source_by_content_type")
    assoc: dict[str, str] = {}
    for n in ast.walk(sb.node):
        if isinstance(n, ast.If) and isinstance(n.test, ast.Call) and isinstance(n.test.func, ast.Attribute) and n.test.func.attr == "startswith":
            r = next((s for s in n.body if isinstance(s, ast.Return)), None)
            if r is not None and n.test.args and isinstance(n.test.args[0], ast.Constant):
                assoc[f"prefix:{n.test.args[0].value}"] = norm(r.value)
        if isinstance(n, ast.Dict):
            for k, v in zip(n.keys, n.values):
                if isinstance(k, ast.Constant):
                    assoc[f"exact:{k.value}"] = norm(v)
        if isinstance(n, ast.If) and "endswith('+json')" in norm(n.test):
            a = next((s for s in n.body if isinstance(s, ast.Assign)), None)
            if a is not None:
                assoc["suffix:+json"] = norm(a.value)
    want = {"prefix:text/": "TEXT_SOURCE", "exact:application/json": "JSON_SOURCE", "exact:application/octet-stream": "BYTES_SOURCE",
            "suffix:+json": "JSON_SOURCE"}
    rep.check(assoc == want, "R04.2", "_source_by_content_type::table", f"media type table is {assoc}", where(sb, sb.node), lhs=assoc, rhs=want)
    er = ix.func("responses.empty_response")
    rep.check("source=NONE_SOURCE" in norm(er.node), "R04.2", "empty_response::none-source", "an empty response is not decoded to None", where(er, er.node))
    rfd = ix.func("responses.response_from_data")
    rl = Locals(rfd.node)
    content_l = set(rl.bound_from(lambda v: v == "data.content", "assign")) | {"data.content"}
    schema_l = set(rl.bound_from(lambda v: v.endswith(".media_type_schema"), "assign"))

    def _returns_empty(i: ast.If) -> bool:
        return any(isinstance(r, ast.Return) and any(isinstance(c, ast.Call) and call_name(c) == "empty_response" for c in ast.walk(r)) for r in i.body)

    ifs = [n for n in ast.walk(rfd.node) if isinstance(n, ast.If) and _returns_empty(n)]
    no_content = [i for i in ifs if isinstance(i.test, ast.UnaryOp) and isinstance(i.test.op, ast.Not) and norm(i.test.operand) in content_l]
    no_schema = [i for i in ifs if isinstance(i.test, ast.Compare) and isinstance(i.test.ops[0], ast.Is) and norm(i.test.comparators[0]) == "None"
                 and norm(i.test.left) in schema_l]
    rep.check(bool(no_content) and bool(no_schema), "R04.2", "response_from_data::no-content-and-no-schema",
              "no content / no schema are not both mapped to the empty response", where(rfd, rfd.node),
              lhs=[norm(i.test) for i in ifs], rhs="`not <data.content>` and `<media_type_schema> is None` both return empty_response(...)")

    # ---- R04.3 ----------------------------------------------------------------------------------------------------------
    R = "endpoint.responses[*]"
    cons = [f for f in top if f.kind == "expr" and f.text.startswith(f"prop_template.construct({R}.prop, {R}.source.attribute)")]
    direct = [f for f in top if f.kind == "expr" and f.text == f"{R}.source.attribute" and any(f"{R}.source.return_type eq {R}.prop.get_type_string()" in g and p for g, p in f.guards)]
    casts = [f for f in top if f.kind == "data" and "= cast(" in f.text and any(f"{R}.source.return_type eq" in g and not p for g, p in f.guards)]
    rep.check(bool(cons) and any(g == "prop_template.construct" and p for g, p in cons[0].guards), "R04.3", "endpoint_module.py.jinja::uses-construct",
              "the kind's construct macro is not used when it exists", where=f"{PKG}/templates/{et.name}")
    rep.check(bool(direct) and bool(casts), "R04.3", "endpoint_module.py.jinja::direct-or-cast", "direct assignment / cast selection changed",
              where=f"{PKG}/templates/{et.name}", lhs=[len(direct), len(casts)], rhs="direct when types agree, else cast")

    # ---- R04.4 ------------------------------------------------------------------------------------------------------------
    br = next((f for f in top if f.kind == "data" and "def _build_response(" in f.text), None)
    rep.require(br, "_build_response")
    alltxt = "".join(f.text if f.kind == "data" else "X" for f in top)
    region = alltxt[alltxt.index("def _build_response("):alltxt.index("def sync_detailed(")]
    br.text = region
    for kw in ("status_code=HTTPStatus(response.status_code)", "content=response.content", "headers=response.headers",
               "parsed=_parse_response(client=client, response=response)"):
        rep.check(kw in br.text, "R04.4", f"_build_response::{kw.split('=')[0]}", f"_build_response does not forward {kw.split('=')[0]}",
                  where=f"{PKG}/templates/{et.name}:{br.line}", lhs=kw, rhs="present")
    data = "".join(f.text for f in top if f.kind == "data")
    rep.check(re.search(r"return sync_detailed\(\s*\n?\s*\n?\s*\)\.parsed", re.sub(r"\s+", " ", data).replace(" ", "")) is not None or
              ").parsed" in data and "return sync_detailed(" in data, "R04.4", "sync::parsed-of-detailed", "sync is not sync_detailed(...).parsed",
              where=f"{PKG}/templates/{et.name}")
    rep.check("return (await asyncio_detailed(" in data and ")).parsed" in data, "R04.4", "asyncio::parsed-of-detailed", "asyncio is not (await asyncio_detailed(...)).parsed",
              where=f"{PKG}/templates/{et.name}")

    # ---- R04.5 --------------------------------------------------------------------------------------------------------------
    ar = ix.func("Endpoint._add_responses")
    hs = [n for n in ast.walk(ar.node) if isinstance(n, ast.Call) and call_name(n) == "HTTPStatus"]
    rep.require(hs, "HTTPStatus(...) in _add_responses")
    for n in hs:
        rep.check(caught("ValueError", handlers_around(ar.node, n)), "R04.5", "_add_responses::status-parse-contained",
                  "an invalid status code key raises out of the parser", where(ar, n))
    tr = next((n for n in ast.walk(ar.node) if isinstance(n, ast.Try)), None)
    rep.check(tr is not None and any("endpoint.errors.append" in norm(s) for h in tr.handlers for s in h.body) and
              any(isinstance(s, ast.Continue) for h in tr.handlers for s in h.body), "R04.5", "_add_responses::bad-status-recorded",
              "a bad status code is not recorded as a diagnostic for the endpoint", where(ar, ar.node))

    # ---- R04.6 ----------------------------------------------------------------------------------------------------------------
    ut = jx.templates.get("property_templates/union_property.py.jinja")
    cm = ut.macros.get("construct")
    rep.require(cm, "union construct")
    frs = list(tplq.frags(cm.body))
    arms_txt: dict[tuple, str] = {}
    for f in frs:
        if f.kind == "data":
            arms_txt[f.guards] = arms_txt.get(f.guards, "") + f.text
    bare = [f for f in frs if f.kind == "data" and "raise TypeError()" in f.text and "try:" not in arms_txt.get(f.guards, "")]
    rep.require(bare, "bare raise TypeError() in union construct")
    # the namespace flag (the namespace variable is canonical: it reads as its own definition)
    all_atoms = {a for f in frs for a in tplq.guard_atoms(f)}
    unmod = next((a for a in sorted(all_atoms) if a.endswith(".contains_unmodified_properties")), "<ns>.contains_unmodified_properties")
    n_b = 0
    for f in bare:
        n_b += 1
        names = tplq.guard_atoms(f)
        if unmod not in names:
            rep.fail("R04.6", "union_property.py.jinja::construct::bare-raise", "the unguarded `raise TypeError()` does not depend on whether an "
                     "unmodified member can still accept the value", where=f"{PKG}/templates/{ut.name}:{f.line}", lhs=names, rhs=unmod)
            continue
        bad = None
        for env in tplq.assignments(names):
            if tplq.guard_holds(f, env) and (env.get(unmod) or not env.get("loop.last", True)):
                bad = env
                break
        rep.check(bad is None, "R04.6", "union_property.py.jinja::construct::bare-raise",
                  f"a member's type check raises outside try/except although decoding could continue (e.g. {bad}): a value of a scalar "
                  "alternative listed before a model makes from_dict / the response parser raise TypeError", where=f"{PKG}/templates/{ut.name}:{f.line}",
                  lhs=[g for g, _ in f.guards], rhs="implies loop.last and not ns.contains_unmodified_properties")
    rep.floor("bare_type_raises", n_b, 1)
    casts2 = [f for f in frs if f.kind == "data" and "return cast(" in f.text]
    rep.check(bool(casts2) and tplq.implies(casts2[0], unmod, True), "R04.6", "union_property.py.jinja::construct::fallback-cast",
              "the fallback `return cast(...)` for unmodified members is missing or mis-guarded", where=f"{PKG}/templates/{ut.name}")

    # ---- reference convergence (shared with C20) ------------------------------------------------------------------------------
    params = {p.arg for p in rfd.params}
    branch = next((n for n in ast.walk(rfd.node) if isinstance(n, ast.If) and "isinstance(data, oai.Reference)" in norm(n.test)), None)
    rep.require(branch, "reference branch in response_from_data")
    assigned = {x.id for s in branch.body for n in ast.walk(s) if isinstance(n, (ast.Assign, ast.AugAssign))
                for t_ in (n.targets if isinstance(n, ast.Assign) else [n.target]) for x in ast.walk(t_) if isinstance(x, ast.Name)}
    leak = sorted((assigned & params) - {"data"})
    rep.check(not leak, "R04.7", "response_from_data::reference-branch-rebinds-only-data",
              f"resolving a $ref'd component response also changes {leak}: later operations referencing the same component lose the response",
              where(rfd, branch), lhs=sorted(assigned), rhs="{data}")
    rep.not_decided += ["what httpx returns; decoding of values (C02)"]
    return LEVEL
