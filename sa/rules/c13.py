"""C13 - declared defaults become equal Python defaults, bad defaults are rejected."""
from __future__ import annotations

import ast
import copy
from typing import Any, Callable

from ..astutil import ERROR_CLASSES, ERROR_ONLY_HELPERS, Locals, call_name, calls_in, names_in, norm, region, role_anon, where
from ..core import PKG, Report
from ..domain import RAW, RAW_NONSTR, UNKNOWN, is_esc

LEVEL = ("path rules over the 14 builders and their convert_value implementations (every path of the function is walked with the "
         "decisions taken on it; the functions its calls go to - private helpers of the module, of the class or of a base class in another "
         "module, nested functions, any function that is handed the value being followed - are walked in place, a loop over a generator "
         "expression / comprehension / generator of the region runs with the element the source writes, a receiver looked up in a table of "
         "classes is each class it may be): the default flows into convert_value, on every path a PropertyError result is returned and the "
         "class is registered / the property returned only after the result was tested (no path returns a property past the conversion "
         "unless it returns what another builder built or no default is declared on it), the property stores the converted Value; "
         "wherever property_from_data or a builder hands the property on to a builder, the declared default goes with it (the default "
         "argument is the declared default, the schema argument the schema or a copy that keeps its default; three frozen exceptions); "
         "convert_value rejects by default (every path without a positive type / membership / equality decision about the value "
         "ends in an error, every accepting return lies only on paths with such a decision, bool excluded wherever int is "
         "accepted); python_code is built not pasted (label analysis); the $ref route and the allOf merge route re-convert with "
         "the receiving class on every path that reaches the place where the property gets its default (evolve keyword or store); "
         "to_string returns default.python_code on every path with a default; a property's default is never written in place on an "
         "object the writing function did not make itself (shared property objects).")

PERMISSIVE = {"StringProperty", "AnyProperty"}            # documented permissive kinds
NO_DEFAULT = {"ListProperty", "ModelProperty", "FileProperty"}  # kinds without defaults: convert_value returns None / error

# builtin types whose instance sets are known: int contains bool, everything else is pairwise disjoint
_BUILTIN_EXT = {"str": {"str"}, "float": {"float"}, "int": {"int", "bool"}, "bool": {"bool"}, "bytes": {"bytes"}, "list": {"list"},
                "dict": {"dict"}, "tuple": {"tuple"}, "set": {"set"}}
_NONNULL_CALLS = {"str", "repr", "format", "join", "float", "int", "bool"}
ACCEPTING = {"built", "conv", "valid", "other", "nonnull", "param", "deleg", "schema"}
_BUILDER_ENTRIES = {"build", "property_from_data"}   # what hands a schema / a default on to (another) builder
_COPIES = {"model_copy", "copy", "deepcopy", "evolve", "replace"}   # X.model_copy(...), evolve(X, ...), copy(X): X again, with overrides
_SAME_ELEMENTS = {"iter", "list", "tuple", "set", "frozenset", "sorted", "reversed", "chain", "enumerate"}   # iterating the result yields the argument's elements
_ORDER_KEPT = {"list", "tuple", "iter", "chain", "deque"}      # iterating the result yields the argument's elements, all of them, in its order
_ORDER_LOST = {"sorted", "reversed", "set", "frozenset", "shuffle", "sample", "islice", "takewhile", "dropwhile", "filterfalse", "Counter",
               "nlargest", "nsmallest"}
_REORDER_IN_PLACE = {"sort", "reverse", "remove", "pop", "clear"}
_PREDICATES = {"isinstance", "issubclass", "callable", "hasattr", "all", "any", "bool"}   # builtins whose result is a truth value


# ---- path walker -------------------------------------------------------------------------------------------------------------
# Every path of one (small) function is walked over its statement structure.  A state carries, for the path walked so far,
#   kind   what each local / parameter holds:  none | error | conv (result of a *.convert_value call, untested) | valid (such a
#          result after `isinstance(x, <Error>)` was answered no) | built (Value(...)) | nonnull | passed (already a Value) |
#          param (untouched parameter) | other;  conv / valid / error remember the call they come from;
#          deleg (what another builder returned: X.build(...) / property_from_data(...), remembers the call; the first element of its
#          unpacked pair is still that) | schema (the schema that carries the declared default, or a copy of it that keeps the default)
#   facts  the truth value of every decision taken (atoms in positive form: `a is not b` is `a is b` answered no, so inverted tests,
#          swapped branches, early return vs nested if all yield the same facts); dropped when a name they mention is re-bound
#   hist   the same decisions, kept for good (what has been established about the value on this path)
#   ev     the positive decisions about the source value (type / membership / equality answered yes, or a delegate conversion
#          answered "not an error")
#   cond   the decision a local stands for: after `ok = <test>` (a comparison, a builtin predicate, not / and / or of them, True /
#          False; `ok` may also be a parameter of a helper walked in place that receives such an argument) a later `if ok` IS `if <test>`,
#          so a decision that was given a name, folded into one condition or computed ahead of its use yields the same facts as the
#          test written in the `if`; forgotten as soon as a name the test mentions is re-bound
# Infeasible combinations are pruned (None is no error; two disjoint builtin types; bool without int).  Loops run to a fixpoint
# over the finite state set, any statement of a try body may jump to its handlers.
# A call to a helper (class Helpers: what the call resolves to - a private function of this or another module, a private method of the
# class or of one of its base classes, a nested function; any other function of the repository only when it is handed the value that
# is being followed) is walked in place: the helper's body runs on the caller's path with its parameters bound to the arguments (a parameter
# that receives a plain name and is not re-bound in the helper simply IS that name, every other local of the helper gets a name of
# its own), each of its returns continues the caller's path with what it returned.  So a rule sees the same paths, decisions and
# statements whether a piece of the function was extracted into a helper or not.
# Further things a local may stand for travel with the state: elems (what iterating it yields: `for x in <local bound to a generator
# expression / comprehension / display / generator call>` runs the body with x = the element expression, `next(<those>, d)` is an
# element or d), classes (the classes of the repository a computed receiver may be: looked up in a module-level table, chosen by a
# conditional expression; narrowed by `is` / `==` / `in` / issubclass tests), means (the choice `a or b` / field / name it was bound to).

class PState:
    __slots__ = ("kind", "taint", "facts", "tfacts", "hist", "ev", "errs", "oks", "alias", "nul", "cond", "elems", "classes", "means", "inst", "seq", "elemof")

    def __init__(self) -> None:
        self.kind: dict[str, tuple[str, int | None]] = {}
        self.taint: frozenset[str] = frozenset()
        self.facts: dict[str, bool] = {}
        self.tfacts: tuple[tuple[str, frozenset[str], bool], ...] = ()   # (subject text, builtin type names, truth)
        self.hist: frozenset[tuple[str, bool]] = frozenset()
        self.ev: frozenset[str] = frozenset()
        self.errs: frozenset[int] = frozenset()     # conversions found to be an error on this path (kept when the name is re-bound)
        self.oks: frozenset[int] = frozenset()      # conversions found not to be an error on this path
        self.alias: frozenset[str] = frozenset()    # names that hold the subject (the value under conversion) itself
        self.nul = False                            # on this path the subject was found to be None / to be a Value already
        self.cond: dict[str, tuple[str, ast.expr]] = {}   # local -> (text, expression) of the decision it was bound to
        self.elems: dict[str, ast.expr] = {}        # local -> the expression that says what iterating it yields (a generator
        #                                             expression, a comprehension, a display, a call of a generator of the region)
        self.classes: dict[str, frozenset[str]] = {}   # local -> the classes / bound builders (`K`, `K.build`) it may be
        self.means: dict[str, ast.expr] = {}        # local -> the choice it was bound to (`a or b`, a field, another name): it stands for it
        self.inst: dict[str, str] = {}              # local -> what it was made as: the class of the repository whose constructor call it
        #                                             was bound to, `tuple` for a tuple display
        # where a sequence comes from: (the field / parameter it was derived from, None when it holds all of that one's elements in
        # that one's order | how it was re-ordered or thinned out)
        self.seq: dict[str, tuple[str, str | None]] = {}      # local -> where the sequence it holds comes from
        self.elemof: dict[str, tuple[str, str | None]] = {}   # local -> where the sequence comes from that it is an element of

    def copy(self) -> "PState":
        s = PState()
        s.kind = dict(self.kind)
        s.taint = self.taint
        s.facts = dict(self.facts)
        s.tfacts = self.tfacts
        s.hist = self.hist
        s.ev = self.ev
        s.errs = self.errs
        s.oks = self.oks
        s.alias = self.alias
        s.nul = self.nul
        s.cond = dict(self.cond)
        s.elems = dict(self.elems)
        s.classes = dict(self.classes)
        s.means = dict(self.means)
        s.inst = dict(self.inst)
        s.seq = dict(self.seq)
        s.elemof = dict(self.elemof)
        return s

    def key(self) -> tuple:
        return (tuple(sorted(self.kind.items(), key=lambda kv: kv[0])), self.taint, tuple(sorted(self.facts.items())), self.tfacts,
                self.hist, self.ev, self.errs, self.oks, self.alias, self.nul,
                tuple(sorted((n, t) for n, (t, _) in self.cond.items())), tuple(sorted((n, id(e)) for n, e in self.elems.items())),
                tuple(sorted(self.classes.items())), tuple(sorted((n, id(e)) for n, e in self.means.items())),
                tuple(sorted(self.inst.items())), tuple(sorted(self.seq.items(), key=str)), tuple(sorted(self.elemof.items(), key=str)))

    def said(self, text: str, truth: bool) -> bool:
        return (text, truth) in self.hist


def _dedupe(states: list[PState]) -> list[PState]:
    seen: dict[tuple, PState] = {}
    for s in states:
        seen.setdefault(s.key(), s)
    return list(seen.values())


def _positive(e: ast.expr) -> tuple[ast.expr, bool]:
    """(positive form of a test leaf, flipped?)"""
    if isinstance(e, ast.Compare) and len(e.ops) == 1:
        swap = {ast.IsNot: ast.Is, ast.NotEq: ast.Eq, ast.NotIn: ast.In}
        for neg, pos in swap.items():
            if isinstance(e.ops[0], neg):
                return ast.Compare(left=e.left, ops=[pos()], comparators=e.comparators), True
    return e, False


def _type_names(t: ast.expr) -> list[str]:
    return [norm(x).rsplit(".", 1)[-1] for x in (t.elts if isinstance(t, ast.Tuple) else [t])]


def _is_none(e: ast.AST) -> bool:
    return isinstance(e, ast.Constant) and e.value is None


def _arms(e: ast.expr) -> list[ast.expr]:
    """what `x = e` may assign as a whole: e, or the arms of a conditional expression"""
    return _arms(e.body) + _arms(e.orelse) if isinstance(e, ast.IfExp) else [e]


def _fold_parts(c: ast.AST | None) -> tuple[ast.expr, ast.expr, ast.expr] | None:
    """(step function, sequence, initial value) of a left fold `reduce(step, sequence, initial)`: what
    `acc = initial; for item in sequence: acc = step(acc, item)` leaves in acc"""
    if isinstance(c, ast.Call) and call_name(c).rsplit(".", 1)[-1] == "reduce" and not c.keywords and len(c.args) == 3 \
            and not any(isinstance(a, ast.Starred) for a in c.args) and isinstance(c.args[0], (ast.Name, ast.Attribute)):
        return c.args[0], c.args[1], c.args[2]
    return None


class _Unwalrus(ast.NodeTransformer):
    def visit_NamedExpr(self, n: ast.NamedExpr) -> ast.AST:
        return ast.copy_location(ast.Name(id=n.target.id, ctx=ast.Load()), n.target)


class _Rename(ast.NodeTransformer):
    def __init__(self, m: dict[str, str]) -> None:
        self.m = m

    def visit_Name(self, n: ast.Name) -> ast.AST:
        n.id = self.m.get(n.id, n.id)
        return n

    def visit_arg(self, n: ast.arg) -> ast.AST:
        n.arg = self.m.get(n.arg, n.arg)
        return n

    def visit_ExceptHandler(self, n: ast.ExceptHandler) -> ast.AST:
        if n.name:
            n.name = self.m.get(n.name, n.name)
        self.generic_visit(n)
        return n


class _Subst(ast.NodeTransformer):
    """names replaced by the expressions they stand for"""

    def __init__(self, m: dict[str, ast.expr]) -> None:
        self.m = m

    def visit_Name(self, n: ast.Name) -> ast.AST:
        return self.m[n.id] if isinstance(n.ctx, ast.Load) and n.id in self.m else n


class Helpers:
    """the functions of the repository that f's work may have been moved to, found from the calls themselves: for every call made in f
    (and, transitively, in what was found) the function it goes to - a plain name through the module's own definitions, its imports and
    the functions nested in the caller, `self.` / `cls.` through the classes the owner inherits from (a helper shared by sibling kinds
    sits in their base class, in another module), `Name.attr` through whatever Name resolves to.  Functions with a role of their own
    (builders, convert_value, error constructors) are never helpers.  A helper whose name starts with `_` is walked in place wherever it
    is called; any other function only where it is handed the value that is being followed (the declared default, the schema carrying
    it, something derived from the value under conversion).  Generators are kept apart: they are walked where they are iterated.
    The step function of a left fold (`reduce(step, xs, init)`) is what the fold calls, once per element."""

    def __init__(self, ix: Any, f: Any, owner: Any = None, depth: int = 3, roles: frozenset[str] = frozenset()) -> None:
        self.targets: dict[int, tuple[Any, bool]] = {}       # id(call node) -> (function, private?)
        self.funcs: list[Any] = []                           # every function found (f itself excluded)
        self.generators: set[str] = set()                    # quals of those that are generators
        owner = owner if owner is not None else f.cls
        nested: dict[str, dict[str, Any]] = {}
        for g in ix.all_functions:
            if g.parent is not None:
                nested.setdefault(g.parent.qual, {})[g.name] = g
        seen = {f.qual}
        frontier = [f]
        for _ in range(depth + 1):
            nxt: list[Any] = []
            for g in frontier:
                for c in calls_in(g.node):
                    fold = _fold_parts(c)
                    if fold is not None:     # reduce(step, xs, init) calls step(acc, x): the call goes to the step function
                        c_step = ast.copy_location(ast.Call(func=fold[0], args=[], keywords=[]), c)
                        h = self._resolve(ix, c_step, g, owner, nested, roles)
                    else:
                        h = self._resolve(ix, c, g, owner, nested, roles)
                    if h is None or h.qual == f.qual or isinstance(h.node, ast.AsyncFunctionDef):
                        continue
                    self.targets[id(c)] = (h, h.name.startswith("_") and not h.name.startswith("__"))
                    if h.qual not in seen:
                        seen.add(h.qual)
                        self.funcs.append(h)
                        nxt.append(h)
                        if any(isinstance(n, (ast.Yield, ast.YieldFrom)) for n in _own_nodes(h.node)):
                            self.generators.add(h.qual)
            frontier = nxt

    @staticmethod
    def _resolve(ix: Any, c: ast.Call, g: Any, owner: Any, nested: dict[str, dict[str, Any]], roles: frozenset[str]) -> Any:
        cn = call_name(c)
        head, _, last = cn.rpartition(".")
        if not last.isidentifier() or last in roles or last in _BUILDER_ENTRIES or last in ERROR_CLASSES or last in ERROR_ONLY_HELPERS \
                or last == "convert_value" or last == "Value":
            return None
        if head == "":
            k = g
            while k is not None:       # a function nested in the caller or in one of the functions that enclose the caller
                if last in nested.get(k.qual, {}):
                    return nested[k.qual][last]
                k = k.parent
            r = ix.resolve(g.module, last)
            return r[1] if r is not None and r[0] == "func" else None
        if head in ("self", "cls"):
            for k in (owner, g.cls):
                h = ix.find_method(k, last) if k is not None else None
                if h is not None:
                    return h
            return None
        if all(x.isidentifier() for x in head.split(".")):
            r = ix.resolve(g.module, cn)
            if r is not None:
                return r[1] if r[0] == "func" else None
        # a method of an object: of the class that is constructed right there (K(...).m()), else - private names only - the one method of
        # that name the owner's classes / the package's classes define
        recv = c.func.value if isinstance(c.func, ast.Attribute) else None
        if isinstance(recv, ast.Call):
            rn = call_name(recv)
            k = owner if rn == "cls" else None
            if k is None and all(x.isidentifier() for x in rn.split(".")):
                r = ix.resolve(g.module, rn)
                k = r[1] if r is not None and r[0] == "class" else None
            if k is not None:
                return ix.find_method(k, last)
        if last.startswith("_") and not last.startswith("__"):
            for pool in ([m for k in (owner, g.cls) if k is not None for m in [ix.find_method(k, last)] if m is not None],
                         [k.methods[last] for k in ix.classes.values() if last in k.methods]):
                quals = {m.qual for m in pool}
                if len(quals) == 1:
                    return pool[0]
                if quals:
                    return None
        return None

    def values(self) -> list[Any]:
        return list(self.funcs)


def _own_nodes(fn: ast.AST) -> list[ast.AST]:
    """the nodes of a function that are not inside a function / lambda / class nested in it"""
    out: list[ast.AST] = []
    stack = list(ast.iter_child_nodes(fn))
    while stack:
        n = stack.pop()
        out.append(n)
        if not isinstance(n, (ast.FunctionDef, ast.AsyncFunctionDef, ast.Lambda, ast.ClassDef)):
            stack += list(ast.iter_child_nodes(n))
    return out


def _helpers_of(ix: Any, f: Any, owner: Any = None, depth: int = 3) -> Helpers:
    return Helpers(ix, f, owner, depth)


class World:
    """what the names that are no locals stand for, in the modules of a function and of its helpers: classes of the repository and
    module-level constants (a table of classes is read where it is defined)"""

    def __init__(self, ix: Any, f: Any, helpers: "Helpers | None" = None) -> None:
        self.ix = ix
        self.mods: list[Any] = []
        for g in [f, *(helpers.funcs if helpers is not None else [])]:
            if all(g.module is not m for m in self.mods):
                self.mods.append(g.module)

    def _resolve(self, dotted_name: str) -> tuple[str, Any] | None:
        for m in self.mods:
            r = self.ix.resolve(m, dotted_name)
            if r is not None:
                return r
        return None

    def cls(self, dotted_name: str) -> Any:
        r = self._resolve(dotted_name)
        return r[1] if r is not None and r[0] == "class" else None

    def value(self, dotted_name: str) -> ast.expr | None:
        r = self._resolve(dotted_name)
        if r is not None and r[0] == "var":
            mod, n = r[1]
            return mod.variables.get(n)
        if r is not None and r[0] == "classvar":
            found = self.ix.find_classvar(r[1][0], r[1][1])
            return found[1] if found is not None else None
        return None

    def builder(self, cand: str) -> Any:
        """the function a candidate `K` (called as K.build) / `K.build` (called as it is) goes to"""
        k = self.cls(cand[:-len(".build")] if cand.endswith(".build") else cand)
        return self.ix.find_method(k, "build") if k is not None else None

    def subclass(self, a: str, b: str) -> bool | None:
        ka, kb = self.cls(a), self.cls(b)
        if ka is None or kb is None:
            return None
        return any(k.qual == kb.qual for k in self.ix.mro(ka))


def _arg_map(c: ast.Call, h: Any) -> dict[str, ast.expr]:
    """helper parameter -> argument expression of this call"""
    a = h.node.args
    pos = [x.arg for x in [*a.posonlyargs, *a.args]]
    if h.kind in ("method", "classmethod") and isinstance(c.func, ast.Attribute):
        pos = pos[1:]
    out: dict[str, ast.expr] = {}
    for i, arg in enumerate(c.args):
        if isinstance(arg, ast.Starred) or i >= len(pos):
            break
        out[pos[i]] = arg
    names = {x.arg for x in [*a.posonlyargs, *a.args, *a.kwonlyargs]}
    for kw in c.keywords:
        if kw.arg and kw.arg in names:
            out[kw.arg] = kw.value
    return out


class Paths:
    def __init__(self, fn: ast.FunctionDef, tainted: set[str] = frozenset(), source: Callable[[ast.AST], bool] | None = None,
                 source_nonnull: bool = False, subject: str | None = None, helpers: "Helpers | None" = None,
                 schema: str | None = None, callee_of: Callable[[ast.Call], Any] | None = None, world: "World | None" = None,
                 mark: Callable[[ast.AST], str | None] | None = None) -> None:
        """subject  the parameter whose value is being converted (R13.2) / that is the declared default (R13.1): what is decided about
                    it under any of its names counts as decided about the value; an expression `source` accepts is the subject too
           helpers  the functions fn's calls go to (Helpers): calls to them are walked in place
           schema   the parameter that is the schema carrying the declared default
           callee_of  the builder a call X.build(...) / property_from_data(...) goes to (its parameter names tell which argument is
                    the default / the schema)
           mark     a role of the caller's own: an expression it names holds that role (as its kind), and so does every local,
                    parameter and helper result the value travels through
           world    what global names stand for (World): a receiver that is computed (looked up in a table of classes, chosen by a
                    conditional expression) is each of the classes it may be"""
        self.fn = fn
        a = fn.args
        self.params = {x.arg for x in [*a.posonlyargs, *a.args, *a.kwonlyargs]}
        self.varargs = {a.vararg.arg} if a.vararg is not None else set()
        self.iterated: list[tuple[ast.expr, tuple[str, str | None]]] = []   # (what a loop / comprehension / fold ran over, where that
        #                                                                     sequence comes from) for every one whose origin is known
        self._folds: dict[int, list[ast.stmt]] = {}   # statement whose value is a left fold -> the loop it stands for
        self.source = source or (lambda n: False)
        self.source_nonnull = source_nonnull
        self.helpers = helpers
        self.callee_of = callee_of or (lambda c: None)
        self.world = world
        self.mark = mark
        self.receivers: dict[int, set[str]] = {}   # conversion call -> the kinds its receiver held when it was walked
        self._keep: list[ast.AST] = []            # synthesised nodes stay alive (their id() keys _orig)
        self._yield: list[list[tuple[PState, ast.expr | None]]] = []   # what the generator being walked yields, per path
        # builder call -> (node, {(default handed on?, parameter, argument, builder when the receiver is computed | None)})
        self.delegs: dict[int, tuple[ast.Call, set[tuple[bool, str, str, str | None]]]] = {}
        self.sites: dict[int, tuple[ast.Call, bool]] = {}    # conversion call -> (node, argument derived from the source?)
        # conversion call whose receiver is an element of a sequence -> where that sequence comes from, per way the call was walked
        self.offered: dict[int, set[tuple[str, str | None]]] = {}
        self.walked: dict[int, list[ast.Call]] = {}          # conversion call -> the call as it was walked (in a helper: in the
        #                                                      caller's names where parameters were bound to plain names)
        self.records: list[tuple[ast.stmt | None, PState]] = []  # (simple statement | None = end of function, state before it)
        self._names: dict[str, set[str]] = {}
        self._try: list[list[PState]] = []
        self._orig: dict[int, ast.AST] = {}       # node of an in-place copy of a helper -> the helper's own node
        self._expansions: dict[int, tuple[ast.FunctionDef, list[tuple[str, ast.expr | None]]]] = {}
        self._active: list[str] = []              # helpers being walked in place
        self._ret: list[list[tuple[PState, ast.expr | None]]] = []   # what the helper being walked returns, per path
        self._inner: set[int] = set()             # return statements of helpers (not returns of fn)
        self._synth: set[int] = set()             # `return <what the helper returned>`: stands for a return of fn, is no source statement
        self._resolved: dict[tuple, ast.expr] = {}   # (decision, what its names stood for) -> the decision with those names replaced
        s0 = PState()
        s0.taint = frozenset(tainted)
        for p in self.params:
            s0.kind[p] = ("param", None)
        if subject is not None:
            s0.alias = frozenset({subject})
        if schema is not None and schema in self.params:
            s0.kind[schema] = ("schema", None)
        outs = self._block(fn.body, [s0], None)
        for s in outs:
            self.records.append((None, s))

    def origin(self, n: ast.AST) -> ast.AST:
        """the node of the analysed source that n stands for (n itself unless it belongs to a helper walked in place)"""
        return self._orig.get(id(n), n)

    def oid(self, n: ast.AST) -> int:
        return id(self.origin(n))

    # -- queries ------------------------------------------------------------------------------------------------------------
    def derived(self, e: ast.AST | None, st: PState) -> bool:
        if e is None:
            return False
        return any((isinstance(n, ast.Name) and n.id in st.taint) or self.source(n) for n in ast.walk(e))

    def kind_of(self, e: ast.AST | None, st: PState) -> tuple[str, int | None]:
        if e is None or _is_none(e):
            return ("none", None)
        if self.mark is not None and not isinstance(e, ast.Name):
            m = self.mark(e)
            if m is not None:
                return (m, None)
        if isinstance(e, ast.Tuple) and e.elts and not isinstance(e.elts[0], ast.Starred):
            # a result pair (<what was built | an error>, schemas) is, like what a builder call returns, what its first element is
            k = self.kind_of(e.elts[0], st)
            if k[0] in ("deleg", "error"):
                return k
        if isinstance(e, ast.Constant) or isinstance(e, (ast.JoinedStr, ast.Tuple, ast.List, ast.Dict, ast.Set)):
            return ("nonnull", None)
        if isinstance(e, ast.Name):
            return st.kind.get(e.id, ("other", None))
        if isinstance(e, ast.Call):
            if f"@{id(e)}" in st.kind:     # a helper call inside a statement, walked in place: what it returned on this path
                return st.kind[f"@{id(e)}"]
            last = call_name(e).rsplit(".", 1)[-1]
            if last in ERROR_CLASSES or last in ERROR_ONLY_HELPERS:
                return ("error", None)
            if last.endswith("convert_value"):
                return ("conv", self._site(e, st))
            if last == "Value":
                return ("built", None)
            if last in _NONNULL_CALLS:
                return ("nonnull", None)
            if last == "cast" and len(e.args) == 2:
                return self.kind_of(e.args[1], st)
            if last in _BUILDER_ENTRIES and (last != "build" or isinstance(e.func, ast.Attribute)):
                return ("deleg", self._deleg(e, st))
            cands = self.classes_of(e.func, st) if isinstance(e.func, ast.Name) else None
            if cands and all(k.endswith(".build") for k in cands):      # a builder that was picked first and is called now
                return ("deleg", self._deleg(e, st))
            if self._keeps_default(e, last, st):
                return ("schema", None)
            return ("other", None)
        if self.source(e) and self.source_nonnull:
            return ("nonnull", None)
        return ("other", None)

    def _keeps_default(self, c: ast.Call, last: str, st: PState) -> bool:
        """is c the schema that carries the declared default again: a copy of it that does not override `default` with anything but the
        declared default, or something constructed with `default=<the declared default>`"""
        over: dict[str, ast.expr] = {kw.arg: kw.value for kw in c.keywords if kw.arg}
        if last in _COPIES:
            base = c.func.value if isinstance(c.func, ast.Attribute) and last in ("model_copy", "copy") and not c.args else (c.args[0] if c.args else None)
            if base is None or self.kind_of(base, st)[0] != "schema":
                return False
            upd = over.pop("update", None)
            if upd is not None:
                if not (isinstance(upd, ast.Dict) and all(isinstance(k, ast.Constant) for k in upd.keys)):
                    return False
                over.update({str(k.value): v for k, v in zip(upd.keys, upd.values)})
            return "default" not in over or self._is_decl(over["default"], st)
        return "default" in over and self._is_decl(over["default"], st)

    def _is_decl(self, e: ast.expr | None, st: PState) -> bool:
        """is e the declared default itself"""
        if isinstance(e, ast.IfExp):     # each arm, wherever its test can come out that way in this state
            t, f = self._branch(e.test, st)
            return all(self._is_decl(e.body, x) for x in t) and all(self._is_decl(e.orelse, x) for x in f)
        return e is not None and self._is_alias(e, st)

    def _deleg(self, c: ast.Call, st: PState) -> int:
        """a call that hands the property over to (another) builder: is the declared default handed over with it.  A receiver that is
        computed is each of the classes it may be in this state; what is handed over is then asked once per class, in the state in
        which the receiver is that class (an argument may depend on which one it is)"""
        k = self.oid(c)
        h = self.callee_of(self.origin(c))
        cases: list[tuple[Any, PState, str | None]] = [(h, st, None)]
        recv = c.func.value if isinstance(c.func, ast.Attribute) else c.func
        cands = self.classes_of(recv, st) if h is None and self.world is not None else None
        if cands:
            cases = []
            for cand in sorted(cands):
                s_k = st
                if isinstance(recv, ast.Name):
                    s_k = st.copy()
                    s_k.classes[recv.id] = frozenset({cand})
                hb = self.world.builder(cand)
                cases.append((hb, s_k, (f"{hb.cls.name}.{hb.name}" if hb is not None and hb.cls is not None else
                                        cand if cand.endswith(".build") else cand + ".build")))
        for h, s_k, target in cases:
            names = {x.arg for x in [*h.node.args.posonlyargs, *h.node.args.args, *h.node.args.kwonlyargs]} if h is not None else {kw.arg for kw in c.keywords}
            amap = _arg_map(c, h) if h is not None else {kw.arg: kw.value for kw in c.keywords if kw.arg}
            if "default" in names:
                arg = amap.get("default")
                verdict = (arg is not None and self._is_decl(arg, s_k), "default", norm(arg) if arg is not None else "<not given>")
            elif "data" in names:
                arg = amap.get("data")
                verdict = (arg is not None and self.kind_of(arg, s_k)[0] == "schema", "data", norm(arg) if arg is not None else "<not given>")
            else:
                verdict = (False, "?", "<no default / data parameter>")
            self.delegs.setdefault(k, (self.origin(c), set()))[1].add((*verdict, target))
        return k

    def classes_of(self, e: ast.AST | None, st: PState, depth: int = 0) -> frozenset[str] | None:
        """the classes of the repository (`K`) / their bound attributes (`K.build`) e may be; None: not known to be one"""
        w = self.world
        if w is None or e is None or depth > 6:
            return None
        if isinstance(e, ast.Call) and call_name(e).rsplit(".", 1)[-1] == "cast" and len(e.args) == 2:
            return self.classes_of(e.args[1], st, depth + 1)
        if isinstance(e, ast.Name):
            if e.id in st.classes:
                return st.classes[e.id]
            if e.id in st.kind and st.kind[e.id][0] != "param":
                return None      # a local that holds something else
            k = w.cls(e.id)
            return frozenset({k.name}) if k is not None else None
        if isinstance(e, ast.Attribute):
            base = self.classes_of(e.value, st, depth + 1)
            if base and not any("." in b for b in base):
                return frozenset(f"{b}.{e.attr}" for b in base)
            k = w.cls(norm(e)) if all(x.isidentifier() for x in norm(e).split(".")) else None
            return frozenset({k.name}) if k is not None else None
        if isinstance(e, (ast.IfExp, ast.BoolOp)):
            arms = [self.classes_of(a, st, depth + 1) for a in ([e.body, e.orelse] if isinstance(e, ast.IfExp) else e.values)]
            return frozenset().union(*arms) if all(arms) else None
        table = fallback = None     # an element of a table: TABLE[key] / TABLE.get(key[, fallback])
        if isinstance(e, ast.Subscript):
            table = e.value
        elif isinstance(e, ast.Call) and isinstance(e.func, ast.Attribute) and e.func.attr == "get" and 1 <= len(e.args) <= 2 and not e.keywords:
            table, fallback = e.func.value, (e.args[1] if len(e.args) == 2 else None)
        if table is None:
            return None
        vals = self._table_values(table, st)
        if not vals:
            return None
        arms = [self.classes_of(v, st, depth + 1) for v in [*vals, *([fallback] if fallback is not None and not _is_none(fallback) else [])]]
        return frozenset().union(*arms) if all(arms) else None

    def _table_values(self, t: ast.AST, st: PState, depth: int = 0) -> list[ast.expr] | None:
        """the values a table holds: a dict display (or dict(...) with keywords), written where it is used or under a global name"""
        if isinstance(t, ast.Dict):
            return list(t.values) if all(k is not None for k in t.keys) else None
        if isinstance(t, ast.Call) and call_name(t) in ("dict", "MappingProxyType", "types.MappingProxyType", "frozendict"):
            if len(t.args) == 1 and not t.keywords:
                return self._table_values(t.args[0], st, depth + 1)
            return [kw.value for kw in t.keywords] if not t.args and t.keywords and all(kw.arg for kw in t.keywords) else None
        if isinstance(t, (ast.Name, ast.Attribute)) and depth < 3 and self.world is not None:
            txt = norm(t)
            if isinstance(t, ast.Name) and t.id in st.kind:     # a local: the table display it was bound to
                return self._table_values(st.means[t.id], st, depth + 1) if t.id in st.means else None
            if all(x.isidentifier() for x in txt.split(".")):
                v = self.world.value(txt)
                return self._table_values(v, st, depth + 1) if v is not None else None
        return None

    def _site(self, c: ast.Call, st: PState) -> int:
        k = self.oid(c)
        if all(x is not c for x in self.walked.setdefault(k, [])):
            self.walked[k].append(c)
        self.sites[k] = (self.origin(c), self.sites.get(k, (c, False))[1] or (bool(c.args) and self.derived(c.args[0], st)))
        if isinstance(c.func, ast.Attribute):
            self.receivers.setdefault(k, set()).add(self.kind_of(c.func.value, st)[0])
            if isinstance(c.func.value, ast.Name) and c.func.value.id in st.elemof:
                self.offered.setdefault(k, set()).add(st.elemof[c.func.value.id])
        return k

    def returned(self, st_node: ast.stmt | None, st: PState) -> tuple[str, int | None]:
        """kind of what a return statement (None: falling off the end) hands back; for a tuple, of its first element"""
        v = st_node.value if isinstance(st_node, ast.Return) else None
        if isinstance(v, ast.Tuple) and v.elts:
            v = v.elts[0]
        return self.kind_of(v, st)

    def stmts(self) -> list[tuple[ast.stmt, PState]]:
        """every simple statement of the source that was walked (of fn and of the helpers walked in place), with the state before it"""
        return [(n, s) for n, s in self.records if n is not None and id(n) not in self._synth]

    def returns(self) -> list[tuple[ast.stmt | None, PState]]:
        return [(n, s) for n, s in self.records if n is None or (isinstance(n, ast.Return) and id(n) not in self._inner)]

    # -- walking --------------------------------------------------------------------------------------------------------------
    def _block(self, body: list[ast.stmt], states: list[PState], loop: dict | None) -> list[PState]:
        cur = states
        for st in body:
            if not cur:
                break
            nxt: list[PState] = []
            for s in cur:
                nxt += self._stmt(st, s, loop)
            cur = _dedupe(nxt)
        return cur

    def _stmt(self, n: ast.stmt, s: PState, loop: dict | None) -> list[PState]:
        for col in self._try:
            col.append(s)
        if isinstance(n, ast.If):
            t, f = self._branch(n.test, s)
            return self._block(n.body, t, loop) + (self._block(n.orelse, f, loop) if n.orelse else f)
        if isinstance(n, (ast.For, ast.AsyncFor, ast.While)):
            return self._loop(n, s, loop)
        if isinstance(n, ast.Try):
            col: list[PState] = []
            self._try.append(col)
            outs = self._block(n.body, [s], loop)
            self._try.pop()
            if n.orelse:
                outs = self._block(n.orelse, outs, loop)
            for h in n.handlers:
                hin = []
                for c in _dedupe(col):
                    c = c.copy()
                    if h.name:
                        self._bind(c, h.name, ("other", None), False)
                    hin.append(c)
                outs = outs + self._block(h.body, hin, loop)
            if n.finalbody:
                outs = self._block(n.finalbody, _dedupe(outs), loop)
            return outs
        if isinstance(n, (ast.With, ast.AsyncWith)):
            s = s.copy()
            for item in n.items:
                if item.optional_vars is not None:
                    self._assign_target(s, item.optional_vars, ("other", None), self.derived(item.context_expr, s))
            return self._block(n.body, [s], loop)
        if isinstance(n, (ast.FunctionDef, ast.AsyncFunctionDef, ast.ClassDef, ast.Import, ast.ImportFrom, ast.Pass, ast.Global,
                          ast.Nonlocal)):
            return [s]
        if isinstance(n, ast.Match):
            outs = [s]
            for c in n.cases:
                outs += self._block(c.body, [s.copy()], loop)
            return outs
        return self._simple(n, s, loop, 0)

    def _simple(self, n: ast.stmt, s: PState, loop: dict | None, depth: int) -> list[PState]:
        """a simple statement: first the helpers it calls are walked in place; a helper call that is what the statement returns /
        assigns continues each of the helper's returning paths with `return <what was returned>` / `<targets> = <what was returned>`
        (assignments: _assign)"""
        value = getattr(n, "value", None) if isinstance(n, (ast.Assign, ast.AnnAssign, ast.Return, ast.Expr)) else None
        unfolded = self._unfold(n, value) if depth < 4 else None
        if unfolded is not None:     # x = reduce(step, xs, init)  is  acc = init; for item in xs: acc = step(acc, item); x = acc
            return self._block(unfolded, [s], loop)
        if isinstance(n, ast.Return) and isinstance(value, ast.IfExp) and depth < 4:   # return A if T else B  is  if T: return A  else: return B
            t, f = self._branch(value.test, s)
            out = []
            for states, arm in ((t, value.body), (f, value.orelse)):
                n2 = self._made(ast.Return(value=arm), n)     # the arm is source text: it is looked at like any statement
                self._orig[id(n2)] = self.origin(n)
                for x in states:
                    out += self._simple(n2, x, loop, depth + 1)
            return out
        if isinstance(n, ast.Return) and depth < 4:
            alts = self._next_alts(value, s)
            if alts is not None:     # return next(<elements>, fallback)
                out = []
                for x, v in alts:
                    n2 = self._made(ast.Return(value=v), n)
                    self._orig[id(n2)] = self.origin(n)
                    out += self._simple(n2, x, loop, depth + 1)
                return out
        assigned = {id(v) for v in _arms(value)} if isinstance(n, (ast.Assign, ast.AnnAssign)) and value is not None else set()
        whole = value if isinstance(n, (ast.Return, ast.Expr)) and isinstance(value, ast.Call) and self._target(value, s) is not None \
            and depth < 4 else None
        rest: list[ast.expr] | None = None
        if whole is None and isinstance(n, ast.Return) and isinstance(value, ast.Tuple) and value.elts and isinstance(value.elts[0], ast.Call) \
                and self._target(value.elts[0], s) is not None and depth < 4:
            whole, rest = value.elts[0], value.elts[1:]     # return helper(...), x: what the helper returned is the first element
        states = [s]
        for c, h in [(c, self._target(c, s)) for c in calls_in(n) if c is not whole and id(c) not in assigned]:
            if h is None:
                continue
            nxt: list[PState] = []
            for x in states:
                for s2, rv in self._inline(c, x, h):     # what the call evaluates to on this path is kept under the call's own name
                    k, d, al = self.kind_of(rv, s2), self.derived(rv, s2), self._is_alias(rv, s2)
                    s2 = s2.copy()
                    self._bind(s2, f"@{id(c)}", k, d, al)
                    nxt.append(s2)
            states = _dedupe(nxt)
        if whole is None:
            return [y for x in states for y in self._leaf(n, x, loop)]
        out = []
        for x in states:
            for s2, rv in self._inline(whole, x, self._target(whole, s)):
                rv = rv if rv is not None else ast.Constant(value=None)
                if rest is not None:
                    rv = ast.Tuple(elts=[rv, *rest], ctx=ast.Load())
                n2: ast.stmt = ast.Return(value=rv) if isinstance(n, ast.Return) else ast.Expr(value=rv)
                ast.copy_location(n2, n)
                self._orig[id(n2)] = self.origin(n)
                self._synth.add(id(n2))
                out += self._simple(n2, s2, loop, depth + 1)
        return out

    def _unfold(self, n: ast.stmt, value: ast.expr | None) -> list[ast.stmt] | None:
        """the statements a statement whose value is a left fold over a function of the region stands for:
        `acc = init`, `for item in xs: acc = step(acc, item)`, the statement itself with acc for its value.  The call step(acc, item)
        stands for the fold (it goes where Helpers found the fold's step function to be), so the step is walked in place like any
        helper, once per element, in the order of xs"""
        fold = _fold_parts(value)
        if fold is None or self.helpers is None or self.oid(value) not in self.helpers.targets:
            return None
        if id(n) not in self._folds:
            step, xs, init = fold
            k = len(self._folds) + 1
            acc, item = f"acc__fold{k}", f"item__fold{k}"
            call = ast.Call(func=step, args=[ast.Name(id=acc, ctx=ast.Load()), ast.Name(id=item, ctx=ast.Load())], keywords=[])
            first = ast.Assign(targets=[ast.Name(id=acc, ctx=ast.Store())], value=init)
            loop_ = ast.For(target=ast.Name(id=item, ctx=ast.Store()), iter=xs, orelse=[],
                            body=[ast.Assign(targets=[ast.Name(id=acc, ctx=ast.Store())], value=call)])
            last = copy.copy(n)
            last.value = ast.Name(id=acc, ctx=ast.Load())
            body = [self._made(x, n) for x in (first, loop_, last)]
            self._orig[id(call)] = self.origin(value)
            self._orig[id(last)] = self.origin(n)
            for x in (first, loop_.body[0]):
                self._synth.add(id(x))
            self._folds[id(n)] = body
        return self._folds[id(n)]

    def _leaf(self, n: ast.stmt, s: PState, loop: dict | None) -> list[PState]:
        self.records.append((n, s))
        for c in calls_in(n):
            if call_name(c).endswith("convert_value"):
                self._site(c, s)
        if isinstance(n, ast.Return) and self._ret:
            self._inner.add(id(n))
            self._ret[-1].append((s, n.value))
            return []
        if self._yield and isinstance(n, (ast.Expr, ast.Assign, ast.AnnAssign)) and isinstance(n.value, (ast.Yield, ast.YieldFrom)):
            if isinstance(n.value, ast.Yield):
                self._yield[-1].append((s, n.value.value))
            else:
                sub = self._iter_elems(n.value.value, s)
                self._yield[-1] += sub if sub is not None else [(s, None)]
            if isinstance(n, ast.Expr):
                return [s]
        if isinstance(n, (ast.Return, ast.Raise)):
            return []
        if isinstance(n, ast.Break):
            if loop is not None:
                loop["break"].append(s)
            return []
        if isinstance(n, ast.Continue):
            if loop is not None:
                loop["continue"].append(s)
            return []
        if isinstance(n, ast.Assign):
            return self._assign(s, n.targets, n.value)
        if isinstance(n, ast.AnnAssign):
            return self._assign(s, [n.target], n.value) if n.value is not None else [s]
        if isinstance(n, ast.AugAssign):
            s = s.copy()
            self._assign_target(s, n.target, ("other", None), self.derived(n.value, s) or self.derived(n.target, s))
            return [s]
        if isinstance(n, ast.Expr) and isinstance(n.value, ast.Call) and isinstance(n.value.func, ast.Attribute) and isinstance(
                n.value.func.value, ast.Name) and n.value.func.value.id in s.seq and n.value.func.attr in _REORDER_IN_PLACE:
            s = s.copy()     # xs.sort(...) / xs.reverse() / xs.remove(...): the same elements no longer, or in another order
            base, why = s.seq[n.value.func.value.id]
            s.seq[n.value.func.value.id] = (base, why or f".{n.value.func.attr}(...)")
            return [s]
        return [s]

    # -- helpers walked in place ----------------------------------------------------------------------------------------------------
    def _target(self, c: ast.Call, s: PState | None = None) -> Any:
        """the helper this call is walked into (None: the call is not followed)"""
        if self.helpers is None:
            return None
        h, private = self.helpers.targets.get(self.oid(c), (None, False))
        if h is not None and _fold_parts(c) is not None:
            return None     # the fold itself: its step function is called by the loop the fold stands for (_unfold)
        if h is None or h.node is self.fn or h.qual in self._active or len(self._active) >= 3 or h.qual in self.helpers.generators:
            return None
        if not private and not (s is not None and any(self._followed(a, s) for a in [*c.args, *[kw.value for kw in c.keywords]])):
            return None
        return h

    def _followed(self, e: ast.expr, s: PState) -> bool:
        """is e (a part of) what this walk follows: the subject, something derived from it, the schema that declares the default, a
        conversion result"""
        if isinstance(e, ast.Starred):
            e = e.value
        return self.derived(e, s) or self._is_alias(e, s) or (
            isinstance(e, ast.Name) and s.kind.get(e.id, ("other", None))[0] in ("schema", "conv", "valid"))

    def _expand(self, c: ast.Call, h: Any) -> tuple[ast.FunctionDef, list[tuple[str, ast.expr | None]]]:
        """a copy of the helper for this call site: a parameter that receives a plain name and is never re-bound is that name, every
        other parameter / local gets a name of its own, (name, argument) pairs say what to bind before the body runs"""
        key = id(c)     # per call as walked: the same call of a helper that is itself walked at two places sees different names
        if key in self._expansions:
            return self._expansions[key]
        fn = copy.deepcopy(h.node)
        for o, n in zip(ast.walk(h.node), ast.walk(fn)):
            self._orig[id(n)] = o
        a = fn.args
        params = [x.arg for x in [*a.posonlyargs, *a.args, *a.kwonlyargs]]
        extra = [x.arg for x in (a.vararg, a.kwarg) if x is not None]
        stored = {x.id for x in ast.walk(fn) if isinstance(x, ast.Name) and isinstance(x.ctx, (ast.Store, ast.Del))}
        stored |= {x.name for x in ast.walk(fn) if isinstance(x, ast.ExceptHandler) and x.name}
        inner_args = {x.arg for f in ast.walk(fn) if f is not fn and isinstance(f, (ast.FunctionDef, ast.AsyncFunctionDef, ast.Lambda))
                      for x in ast.walk(f.args) if isinstance(x, ast.arg)}
        tag = f"__{h.name.strip('_')}{len(self._expansions) + 1}"
        amap = _arg_map(c, h)
        defaults = dict(zip([x.arg for x in [*a.posonlyargs, *a.args]][len(a.posonlyargs) + len(a.args) - len(a.defaults):], a.defaults))
        defaults.update({x.arg: d for x, d in zip(a.kwonlyargs, a.kw_defaults) if d is not None})
        bound_first = h.kind in ("method", "classmethod") and isinstance(c.func, ast.Attribute) and params
        ren: dict[str, str] = {}
        binds: list[tuple[str, ast.expr | None]] = []
        for i, p in enumerate(params):
            arg = amap.get(p)
            if bound_first and i == 0 and isinstance(c.func.value, ast.Name) and c.func.value.id == p and p not in stored:
                continue     # self.helper(...) / cls.helper(...): the same self / cls
            if isinstance(arg, ast.Name) and p not in stored and p not in inner_args:
                ren[p] = arg.id
                continue
            ren[p] = p + tag
            binds.append((ren[p], arg if arg is not None else defaults.get(p)))
        for x in extra:
            ren[x] = x + tag
            binds.append((ren[x], None))
        for x in (stored | inner_args) - set(ren):
            ren[x] = x + tag
        _Rename(ren).visit(fn)
        self._expansions[key] = (fn, binds)
        return fn, binds

    def _inline(self, c: ast.Call, s: PState, h: Any) -> list[tuple[PState, ast.expr | None]]:
        """walk the helper h this call goes to; (state, returned expression | None) for every path that comes back"""
        fn, binds = self._expand(c, h)
        s = self._bind_params(s, binds)
        self._active.append(h.qual)
        self._ret.append([])
        outs = self._block(fn.body, [s], None)
        rets = self._ret.pop()
        self._active.pop()
        return rets + [(x, None) for x in outs]

    def _bind_params(self, s: PState, binds: list[tuple[str, ast.expr | None]]) -> PState:
        """the state in which a helper walked in place starts: its parameters hold what the arguments are in the caller's state"""
        s = s.copy()
        vals = [(nm, (self.kind_of(arg, s), self.derived(arg, s), self._is_alias(arg, s)) if arg is not None else (("other", None), False, False),
                 self._decision(arg, s), arg, self.classes_of(arg, s), self._elems_expr(arg, s),
                 self._domain(arg, s) if arg is not None else None, self._element_of(arg, s)) for nm, arg in binds]
        for nm, (k, d, al), dec, arg, cl, el, dom, eo in vals:
            self._bind(s, nm, k, d, al)
            self._note(s, nm, dec, {nm})
            self._remember(s, nm, arg, cl, el, dom, eo)
        return s

    # -- decisions that were given a name ------------------------------------------------------------------------------------------
    def _is_decision(self, e: ast.expr | None, s: PState) -> bool:
        """is e a truth value by construction"""
        if isinstance(e, ast.Compare) or (isinstance(e, ast.UnaryOp) and isinstance(e.op, ast.Not)):
            return True
        if isinstance(e, ast.Constant):
            return isinstance(e.value, bool)
        if isinstance(e, ast.BoolOp):
            return any(self._is_decision(v, s) for v in e.values)
        if isinstance(e, ast.Name):
            return e.id in s.cond
        if isinstance(e, ast.Call):
            return call_name(e) in _PREDICATES
        return False

    def _decision(self, e: ast.expr | None, s: PState) -> ast.expr | None:
        """the decision e is in this state, in terms of what is not itself a named decision (None: e is no decision)"""
        if e is None or not self._is_decision(e, s):
            return None
        used = {n.id for n in ast.walk(e) if isinstance(n, ast.Name) and isinstance(n.ctx, ast.Load) and n.id in s.cond}
        if not used:
            return e
        key = (id(e), tuple(sorted((nm, s.cond[nm][0]) for nm in used)))
        if key not in self._resolved:
            holder = ast.Expr(value=copy.deepcopy(e))
            for o, n in zip(ast.walk(e), ast.walk(holder.value)):
                self._orig[id(n)] = self.origin(o)
            self._resolved[key] = ast.fix_missing_locations(_Subst({nm: s.cond[nm][1] for nm in used}).visit(holder)).value
        return self._resolved[key]

    def _note(self, s: PState, name: str, dec: ast.expr | None, bound: set[str]) -> None:
        """`name` was just bound (together with the names `bound`) to the decision dec"""
        if dec is None or names_in(dec) & bound:     # ok = ok and <test> over an ok that stands for nothing known
            return
        text = norm(dec)
        self._names.setdefault(text, names_in(dec))
        s.cond[name] = (text, dec)

    def _loop(self, n: ast.For | ast.While, s: PState, outer: dict | None) -> list[PState]:
        seen: dict[tuple, PState] = {}
        work = [s]
        exits: list[PState] = []
        brk: list[PState] = []
        while work:
            h = work.pop()
            if h.key() in seen:
                continue
            seen[h.key()] = h
            if isinstance(n, ast.While):
                t, f = self._branch(n.test, h)
                exits += f
                body_in = t
            else:
                elems = self._iter_elems(n.iter, h)
                exits.append(h)
                if elems is None:
                    b = h.copy()
                    self._assign_target(b, n.target, ("other", None), self.derived(n.iter, b))
                    self._element(b, n.target, n.iter, h)
                    body_in = [b]
                else:     # what the loop variable holds is written in the source: the body runs with `target = <element>`
                    body_in = []
                    for s2, el in elems:
                        if el is None:
                            s2 = s2.copy()
                            self._assign_target(s2, n.target, ("other", None), self.derived(n.iter, s2))
                            body_in.append(s2)
                        else:
                            body_in += self._assign(s2, [n.target], el)
                    body_in = _dedupe(body_in)
            lc: dict = {"break": [], "continue": []}
            outs = self._block(n.body, body_in, lc)
            work += outs + lc["continue"]
            brk += lc["break"]
        exits = _dedupe(exits)
        if n.orelse:
            exits = self._block(n.orelse, exits, outer)
        return _dedupe(exits + brk)

    def _iter_elems(self, it: ast.expr, s: PState, depth: int = 0) -> list[tuple[PState, ast.expr | None]] | None:
        """what iterating `it` yields in state s: (state in which the element is produced, element expression | None = not known) per
        way an element comes about; None when the elements of `it` are not written in the source (a field, a parameter).  A local that
        was bound to a generator expression / comprehension / display / generator call is that expression; a comprehension's element
        is produced with its own loop variables bound and its conditions answered yes; a generator of the region is walked in place
        and yields what its `yield`s say"""
        if depth > 4:
            return None
        if isinstance(it, ast.Name):
            e = s.elems.get(it.id)
            return self._iter_elems(e, s, depth + 1) if e is not None else None
        if isinstance(it, (ast.Tuple, ast.List, ast.Set)):
            out: list[tuple[PState, ast.expr | None]] = []
            for e in it.elts:
                if isinstance(e, ast.Starred):
                    sub = self._iter_elems(e.value, s, depth + 1)
                    out += sub if sub is not None else [(s, None)]
                else:
                    out.append((s, e))
            return out
        if isinstance(it, (ast.GeneratorExp, ast.ListComp, ast.SetComp)):
            cur = [s]
            for g in it.generators:
                nxt: list[PState] = []
                for x in cur:
                    inner = self._iter_elems(g.iter, x, depth + 1)
                    if inner is None:
                        b = x.copy()
                        self._assign_target(b, g.target, ("other", None), self.derived(g.iter, b))
                        self._element(b, g.target, g.iter, x)
                        got = [b]
                    else:
                        got = []
                        for s2, el in inner:
                            if el is None:
                                s2 = s2.copy()
                                self._assign_target(s2, g.target, ("other", None), self.derived(g.iter, s2))
                                got.append(s2)
                            else:
                                got += self._assign(s2, [g.target], el)
                    for cond in g.ifs:
                        got = [y for z in got for y in self._branch(cond, z)[0]]
                    if g.ifs or isinstance(it, ast.SetComp):     # the elements that come through are not all of them / in no order
                        why = f"only those with `{norm(g.ifs[0])[:50]}`" if g.ifs else "a set has no order"
                        for y in got:
                            for nm in [t.id for t in ast.walk(g.target) if isinstance(t, ast.Name)]:
                                if nm in y.elemof and y.elemof[nm][1] is None:
                                    y.elemof[nm] = (y.elemof[nm][0], why)
                    nxt += got
                cur = _dedupe(nxt)
            return [(x, it.elt) for x in cur]
        if isinstance(it, ast.Call):
            last = call_name(it).rsplit(".", 1)[-1]
            if last in _SAME_ELEMENTS and it.args:
                subs = [self._iter_elems(a, s, depth + 1) for a in (it.args if last == "chain" else it.args[:1])]
                if any(x is None for x in subs):
                    return None
                flat = [p for x in subs for p in x]
                if last == "enumerate":     # (index, element)
                    flat = [(x, self._made(ast.Tuple(elts=[ast.Constant(value=0), el], ctx=ast.Load()), it) if el is not None else None)
                            for x, el in flat]
                return flat
            h = self._generator(it)
            if h is not None:
                fn, binds = self._expand(it, h)
                s2 = self._bind_params(s, binds)
                self._active.append(h.qual)
                self._ret.append([])
                self._yield.append([])
                outs = self._block(fn.body, [s2], None)
                ys = self._yield.pop()
                self._ret.pop()
                self._active.pop()
                return ys
        return None

    def _made(self, n: ast.AST, like: ast.AST) -> Any:
        """a synthesised node: located like the node it stands for, kept alive"""
        ast.copy_location(n, like)
        ast.fix_missing_locations(n)
        self._keep.append(n)
        return n

    def states_at(self, n: ast.AST, s: PState, target: ast.AST) -> list[PState]:
        """the states in which the part `target` of statement n is evaluated when the statement starts in state s: inside a conditional
        expression the arm is evaluated with its test answered accordingly, a later operand of and / or with the earlier ones answered"""
        chain = _chain_to(n, target)
        if chain is None:
            return []
        states = [s]
        for parent, child in zip(chain, chain[1:]):
            if isinstance(parent, ast.IfExp) and child is not parent.test:
                split = [self._branch(parent.test, x) for x in states]
                states = [y for t, f_ in split for y in (t if child is parent.body else f_)]
            elif isinstance(parent, ast.BoolOp):
                side = 0 if isinstance(parent.op, ast.And) else 1
                for v in parent.values:
                    if v is child:
                        break
                    states = [y for x in states for y in self._branch(v, x)[side]]
        return states

    def _assign(self, s: PState, targets: list[ast.expr], value: ast.expr, depth: int = 0) -> list[PState]:
        if isinstance(value, ast.IfExp):   # x = A if T else B  is  if T: x = A  else: x = B
            t, f = self._branch(value.test, s)
            out: list[PState] = []
            for x in t:
                out += self._assign(x, targets, value.body, depth)
            for x in f:
                out += self._assign(x, targets, value.orelse, depth)
            return out
        alts = self._next_alts(value, s) if depth < 4 else None
        if alts is not None:     # x = next(<elements>, fallback)  is  x = <an element> | x = fallback
            out = []
            for s2, v in alts:
                out += self._assign(s2, targets, v, depth + 1)
            return out
        if isinstance(value, ast.Call) and depth < 4 and self._target(value, s) is not None:   # x = helper(...): walked in place
            out = []
            for s2, rv in self._inline(value, s, self._target(value, s)):
                out += self._assign(s2, targets, rv if rv is not None else ast.Constant(value=None), depth + 1)
            return out
        if isinstance(value, ast.Tuple) and len(targets) == 1 and isinstance(targets[0], (ast.Tuple, ast.List)) and len(
                targets[0].elts) == len(value.elts) and not any(isinstance(e, ast.Starred) for e in [*value.elts, *targets[0].elts]):
            # a, b = x, y: element by element (all right-hand sides are evaluated first)
            vals = [(self.kind_of(v, s), self.derived(v, s), self._is_alias(v, s)) for v in value.elts]
            decs = [self._decision(v, s) for v in value.elts]
            s = s.copy()
            for t_, (k, d, al) in zip(targets[0].elts, vals):
                self._assign_target(s, t_, k, d, al)
            bound = {n.id for t_ in targets[0].elts for n in ast.walk(t_) if isinstance(n, ast.Name)}
            for t_, dec in zip(targets[0].elts, decs):
                if isinstance(t_, ast.Name):
                    self._note(s, t_.id, dec, bound)
            return [s]
        k = self.kind_of(value, s)
        d = self.derived(value, s)
        al = self._is_alias(value, s)
        dec = self._decision(value, s)
        cl, el = self.classes_of(value, s), self._elems_expr(value, s)
        dom, eo = self._domain(value, s, plain=False), self._element_of(value, s)
        s = s.copy()
        for t_ in targets:
            self._assign_target(s, t_, k, d, al)
        bound = {n.id for t_ in targets for n in ast.walk(t_) if isinstance(n, ast.Name)}
        for t_ in targets:
            if isinstance(t_, ast.Name):
                self._note(s, t_.id, dec, bound)
                self._remember(s, t_.id, value, cl, el, dom, eo)
        return [s]

    def _next_alts(self, value: ast.expr | None, s: PState) -> list[tuple[PState, ast.expr]] | None:
        """next(<elements written in the source>[, fallback]): the element of each way one comes about, or the fallback"""
        if not (isinstance(value, ast.Call) and call_name(value) == "next" and 1 <= len(value.args) <= 2 and not value.keywords):
            return None
        elems = self._iter_elems(value.args[0], s)
        if elems is None or any(el is None for _, el in elems):
            return None
        out = [(x, el) for x, el in elems]
        if len(value.args) == 2:
            out.append((s, value.args[1]))
        return out

    def _is_alias(self, e: ast.expr | None, s: PState) -> bool:
        """is e the subject itself"""
        if isinstance(e, ast.Call) and call_name(e).rsplit(".", 1)[-1] == "cast" and len(e.args) == 2:
            e = e.args[1]
        return (isinstance(e, ast.Name) and e.id in s.alias) or (e is not None and self.source(e))

    def _assign_target(self, s: PState, t: ast.expr, k: tuple[str, int | None], d: bool, al: bool = False) -> None:
        if isinstance(t, ast.Name):
            self._bind(s, t.id, k, d, al)
        elif isinstance(t, (ast.Tuple, ast.List)):
            for i, e in enumerate(t.elts):     # prop, schemas = X.build(...): the first element is what that builder built
                self._assign_target(s, e, k if i == 0 and k[0] == "deleg" and not isinstance(e, ast.Starred) else ("other", None), d)
        elif isinstance(t, ast.Starred):
            self._assign_target(s, t.value, ("other", None), d)
        else:   # attribute / subscript store: what was decided about that place no longer holds
            if isinstance(t, ast.Attribute) and t.attr == "default" and isinstance(t.value, ast.Name) and not al \
                    and s.kind.get(t.value.id, ("other", None))[0] == "schema":
                s.kind[t.value.id] = ("other", None)     # the schema no longer carries the declared default
            txt = norm(t)
            for f in [f for f in s.facts if txt in f]:
                del s.facts[f]
            s.tfacts = tuple(x for x in s.tfacts if txt not in x[0])
            for nm in [nm for nm, (t2, _) in s.cond.items() if txt in t2]:
                del s.cond[nm]
            for nm in [nm for nm, e in s.means.items() if txt in norm(e)]:
                del s.means[nm]

    def _bind(self, s: PState, name: str, k: tuple[str, int | None], d: bool, al: bool = False) -> None:
        s.kind[name] = k
        s.taint = (s.taint | {name}) if d else (s.taint - {name})
        s.alias = (s.alias | {name}) if al else (s.alias - {name})
        for f in [f for f in s.facts if name in self._names.get(f, ())]:
            del s.facts[f]
        s.tfacts = tuple(x for x in s.tfacts if name not in self._names.get(x[0], ()))
        for nm in [nm for nm, (t2, _) in s.cond.items() if nm == name or name in self._names.get(t2, ())]:
            del s.cond[nm]
        for nm in [nm for nm, e in s.elems.items() if nm == name or name in self._elem_names(e)]:
            del s.elems[nm]
        s.classes.pop(name, None)
        s.inst.pop(name, None)
        s.seq.pop(name, None)
        s.elemof.pop(name, None)
        for nm in [nm for nm, e in s.means.items() if nm == name or name in self._elem_names(e)]:
            del s.means[nm]

    def _elem_names(self, e: ast.expr) -> set[str]:
        k = f"elems@{id(e)}"
        if k not in self._names:     # the names it reads from outside (a comprehension's own loop variables are its own)
            own = {x.id for c in ast.walk(e) if isinstance(c, ast.comprehension) for x in ast.walk(c.target) if isinstance(x, ast.Name)}
            self._names[k] = names_in(e) - own
        return self._names[k]

    def _remember(self, s: PState, name: str, value: ast.expr | None, classes: frozenset[str] | None, elems: ast.expr | None,
                  dom: tuple[str, str | None] | None = None, eo: tuple[str, str | None] | None = None) -> None:
        """after `name` was bound to value: what iterating it yields, which classes it may be, where the sequence comes from that it
        holds / that it is an element of"""
        if dom is not None:
            s.seq[name] = dom
        if eo is not None:
            s.elemof[name] = eo
        if elems is not None and name not in self._elem_names(elems):
            s.elems[name] = elems
        if classes:
            s.classes[name] = classes
        made = self._made_as(value, s)
        if made is not None:
            s.inst[name] = made
        if isinstance(value, (ast.BoolOp, ast.Attribute, ast.Name, ast.Dict)) and name not in self._elem_names(value) and not any(
                isinstance(x, (ast.Call, ast.NamedExpr, ast.Await)) for x in ast.walk(value)):
            s.means[name] = value

    def _domain(self, e: ast.expr | None, s: PState, depth: int = 0, plain: bool = True) -> tuple[str, str | None] | None:
        """where the sequence e comes from: (the field / parameter it is derived from, None when iterating e yields all of that one's
        elements in that one's order | how it was re-ordered or thinned out); None: e is not known to be derived from one.
        plain=False: a bare field / parameter is not reported (a name bound to it merely stands for it: `means`)"""
        if e is None or depth > 6:
            return None
        if isinstance(e, ast.Name):
            if e.id in s.seq:
                return s.seq[e.id]
            if e.id in s.means:
                return self._domain(s.means[e.id], s, depth + 1)
            if plain and e.id in self.varargs and e.id not in s.kind:     # *args, never re-bound
                return (e.id, None)
            return (e.id, None) if plain and s.kind.get(e.id, ("other", None))[0] == "param" and e.id in self.params else None
        if isinstance(e, ast.Attribute):
            return (norm(e), None) if plain and not any(isinstance(x, (ast.Call, ast.Subscript)) for x in ast.walk(e)) else None
        if isinstance(e, ast.BoolOp) and isinstance(e.op, ast.Or):     # X or []
            return self._domain(e.values[0], s, depth + 1)
        if isinstance(e, ast.Subscript) and isinstance(e.slice, ast.Slice):
            d = self._domain(e.value, s, depth + 1)
            if d is None or d[1] is not None:
                return d
            sl = e.slice
            whole = (sl.lower is None or (isinstance(sl.lower, ast.Constant) and sl.lower.value in (0, None))) and sl.upper is None
            fwd = sl.step is None or (isinstance(sl.step, ast.Constant) and sl.step.value in (1, None))
            return d if whole and fwd else (d[0], f"the slice `{norm(e)[:50]}`")
        if isinstance(e, ast.BinOp) and isinstance(e.op, ast.Add):     # a + b: what either was made of says how it was thinned out
            ds = [self._domain(x, s, depth + 1) for x in (e.left, e.right)]
            return next((d for d in ds if d is not None and d[1] is not None), None)
        if isinstance(e, (ast.ListComp, ast.GeneratorExp, ast.SetComp)) and len(e.generators) == 1:
            g = e.generators[0]
            d = self._domain(g.iter, s, depth + 1)
            if d is None or not (isinstance(g.target, ast.Name) and isinstance(e.elt, ast.Name) and e.elt.id == g.target.id):
                return None
            if d[1] is None and g.ifs:
                return (d[0], f"only those with `{norm(g.ifs[0])[:50]}`")
            return (d[0], "a set has no order") if d[1] is None and isinstance(e, ast.SetComp) else d
        if isinstance(e, ast.Call):
            last = call_name(e).rsplit(".", 1)[-1]
            if last == "cast" and len(e.args) == 2:
                return self._domain(e.args[1], s, depth + 1)
            if last == "copy" and isinstance(e.func, ast.Attribute) and not e.args:
                return self._domain(e.func.value, s, depth + 1)
            if last == "filter" and len(e.args) == 2:
                d = self._domain(e.args[1], s, depth + 1)
                return (d[0], d[1] or f"only those with `{norm(e.args[0])[:50]}`") if d is not None else None
            if e.args and (last in _ORDER_KEPT or last in _ORDER_LOST) and (last != "chain" or len(e.args) == 1):
                d = self._domain(e.args[0], s, depth + 1)
                if d is None or d[1] is not None or last in _ORDER_KEPT:
                    return d
                return (d[0], f"`{norm(e)[:60]}`")
        return None

    def _element_of(self, e: ast.expr | None, s: PState) -> tuple[str, str | None] | None:
        """where the sequence comes from that e is an element of: a name that is one, next(<sequence>[, d])"""
        if isinstance(e, ast.Name):
            return s.elemof.get(e.id)
        if isinstance(e, ast.Call) and call_name(e) == "next" and 1 <= len(e.args) <= 2:
            return self._domain(e.args[0], s)
        return None

    def _element(self, s: PState, target: ast.expr, it: ast.expr, at: PState) -> None:
        """`for target in it`, the elements of `it` not being written in the source: target is an element of where `it` (in the state
        `at` the loop is entered in) comes from; of enumerate(X): the second of the pair is an element of X"""
        if isinstance(it, ast.Call) and call_name(it) == "enumerate" and it.args and isinstance(target, (ast.Tuple, ast.List)) and len(target.elts) == 2:
            target, it = target.elts[1], it.args[0]
        d = self._domain(it, at)
        if d is not None:
            self.iterated.append((self.origin(it), d))
            if isinstance(target, ast.Name):
                s.elemof[target.id] = d

    def _made_as(self, e: ast.expr | None, s: PState) -> str | None:
        """what e is an instance of by construction: `K(...)` with K a class of the repository is a K, a tuple display is a tuple (and
        nothing more special), a local bound to one of these is that"""
        if isinstance(e, ast.Call) and call_name(e).rsplit(".", 1)[-1] == "cast" and len(e.args) == 2:
            e = e.args[1]
        if isinstance(e, ast.Name):
            return s.inst.get(e.id)
        if isinstance(e, ast.Tuple):
            return "tuple"
        if isinstance(e, ast.Call) and self.world is not None and isinstance(e.func, (ast.Name, ast.Attribute)):
            cn = call_name(e)
            if all(x.isidentifier() for x in cn.split(".")) and not (isinstance(e.func, ast.Name) and e.func.id in s.kind):
                k = self.world.cls(cn)
                return k.name if k is not None else None
        return None

    def _instance_verdict(self, made: str, tn: list[str]) -> bool | None:
        """is something made as `made` an instance of one of the types named tn (None: not known)"""
        verdicts: list[bool | None] = []
        for t in tn:
            if t == "object" or t == made:
                verdicts.append(True)
            elif made == "tuple":     # exactly a tuple: of no other builtin type, of no class
                verdicts.append(False if t in _BUILTIN_EXT or self.world is not None and self.world.cls(t) is not None else None)
            else:
                verdicts.append(self.world.subclass(made, t) if self.world is not None and self.world.cls(t) is not None else None)
        if any(v is True for v in verdicts):
            return True
        return False if verdicts and all(v is False for v in verdicts) else None

    def meaning(self, e: ast.expr, s: PState, depth: int = 0) -> ast.expr:
        """e with the locals that merely stand for a choice between values (x = a or b; x = obj.field; x = y) replaced by that choice:
        a value that was given a name, or handed to a helper as an argument, before it is used is still that value"""
        if depth > 6:
            return e
        if isinstance(e, ast.Name) and e.id in s.means:
            return self.meaning(s.means[e.id], s, depth + 1)
        if isinstance(e, ast.BoolOp):
            vals = [self.meaning(v, s, depth + 1) for v in e.values]
            if any(a is not b for a, b in zip(vals, e.values)):
                return self._made(ast.BoolOp(op=e.op, values=vals), e)
        return e

    def _elems_expr(self, e: ast.expr | None, s: PState) -> ast.expr | None:
        """the expression that says what iterating e yields, if e is something whose elements are written in the source"""
        if isinstance(e, ast.Name):
            return s.elems.get(e.id)
        if isinstance(e, (ast.GeneratorExp, ast.ListComp, ast.SetComp, ast.Tuple, ast.List, ast.Set)):
            return e
        if isinstance(e, ast.Call):
            last = call_name(e).rsplit(".", 1)[-1]
            if last in _SAME_ELEMENTS and e.args and all(self._elems_expr(a, s) is not None for a in e.args[:1 if last != "chain" else None]):
                return e
            if self._generator(e) is not None:
                return e
        return None

    def _generator(self, c: ast.Call) -> Any:
        """the generator of the region this call creates"""
        if self.helpers is None:
            return None
        h, _ = self.helpers.targets.get(self.oid(c), (None, False))
        return h if h is not None and h.qual in self.helpers.generators and h.qual not in self._active and len(self._active) < 3 else None

    # -- decisions ------------------------------------------------------------------------------------------------------------
    def _branch(self, e: ast.expr, s: PState) -> tuple[list[PState], list[PState]]:
        if isinstance(e, ast.BoolOp):
            is_and = isinstance(e.op, ast.And)
            cur, done = [s], []
            for v in e.values:
                nxt: list[PState] = []
                for x in cur:
                    t, f = self._branch(v, x)
                    nxt += t if is_and else f
                    done += f if is_and else t
                cur = nxt
            return (cur, done) if is_and else (done, cur)
        if isinstance(e, ast.UnaryOp) and isinstance(e.op, ast.Not):
            t, f = self._branch(e.operand, s)
            return f, t
        if isinstance(e, ast.Constant):
            return ([s], []) if e.value else ([], [s])
        if isinstance(e, ast.Name) and e.id in s.cond:     # a decision that was given a name
            return self._branch(s.cond[e.id][1], s)
        if isinstance(e, ast.Call) and call_name(e) in ("all", "any", "bool") and len(e.args) == 1 and not e.keywords:
            a0 = e.args[0]
            if call_name(e) == "bool":
                return self._branch(a0, s)
            if isinstance(a0, (ast.Tuple, ast.List)) and not any(isinstance(x, ast.Starred) for x in a0.elts):
                # all((a, b)) decides what `a and b` decides (every operand is evaluated, which changes no decision)
                if not a0.elts:
                    return ([s], []) if call_name(e) == "all" else ([], [s])
                op = ast.And() if call_name(e) == "all" else ast.Or()
                return self._branch(ast.BoolOp(op=op, values=list(a0.elts)) if len(a0.elts) > 1 else a0.elts[0], s)
        walrus = [n for n in ast.walk(e) if isinstance(n, ast.NamedExpr)]
        if walrus:   # `(x := E) is None`  is  `x = E` followed by `x is None`
            cur = [s]
            for w in reversed(walrus):   # innermost first
                cur = [y for x in cur for y in self._assign(x, [w.target], w.value)]
            holder = ast.Expr(value=copy.deepcopy(e))
            for o, n_ in zip(ast.walk(e), ast.walk(holder.value)):
                self._orig[id(n_)] = self.origin(o)
            self._keep.append(holder)
            e = ast.fix_missing_locations(_Unwalrus().visit(holder)).value
            t_all: list[PState] = []
            f_all: list[PState] = []
            for x in cur:
                t, f = self._branch(e, x)
                t_all += t
                f_all += f
            return t_all, f_all
        if isinstance(e, ast.Call) and self._target(e, s) is not None:   # if helper(...): a helper that is one returned expression is that test
            h = self._target(e, s)
            fn, binds = self._expand(e, h)
            body = [x for x in fn.body if not (isinstance(x, ast.Expr) and isinstance(x.value, ast.Constant))]
            if len(body) == 1 and isinstance(body[0], ast.Return) and body[0].value is not None:
                s = self._bind_params(s, binds)
                self._active.append(h.qual)
                try:
                    return self._branch(body[0].value, s)
                finally:
                    self._active.pop()
            # any other helper: walked in place, each of its returns decides with what it returns
            t_all, f_all = [], []
            for s2, rv in self._inline(e, s, h):
                t, f = self._branch(rv if rv is not None else ast.Constant(value=None), s2)
                t_all += t
                f_all += f
            return t_all, f_all
        pos, flip = _positive(e)
        text = norm(pos)
        self._names.setdefault(text, names_in(pos))
        outs: dict[bool, list[PState]] = {True: [], False: []}
        known = s.facts.get(text)
        for truth in (True, False):
            if known is not None and known != truth:
                continue
            s2 = self._assume(s, pos, text, truth)
            if s2 is not None:
                outs[truth != flip].append(s2)
        return outs[True], outs[False]

    def _assume(self, s: PState, pos: ast.expr, text: str, truth: bool) -> PState | None:
        s = s.copy()
        s.facts[text] = truth
        about_source = False
        evidence = False
        if isinstance(pos, ast.Call) and call_name(pos) == "isinstance" and len(pos.args) == 2:
            subj, tn = pos.args[0], _type_names(pos.args[1])
            is_err = all(x in ERROR_CLASSES for x in tn)
            tag, site = s.kind.get(subj.id, ("other", None)) if isinstance(subj, ast.Name) else ("other", None)
            if is_err:
                if truth and tag in ("none", "built", "valid", "nonnull", "passed"):
                    return None
                if not truth and tag == "error":
                    return None
                if isinstance(subj, ast.Name):
                    if truth:
                        s.kind[subj.id] = ("error", site if tag == "conv" else None)
                        if tag == "conv":
                            s.errs = s.errs | {site}
                    elif tag == "conv":
                        s.kind[subj.id] = ("valid", site)
                        s.oks = s.oks | {site}
                        about_source = evidence = self.sites[site][1]   # the delegate accepted the source value
                    if tag == "conv":   # every name that holds this same result
                        for nm, k in list(s.kind.items()):
                            if k == ("conv", site):
                                s.kind[nm] = s.kind[subj.id]
            else:
                if truth and tag == "none" and "object" not in tn and "NoneType" not in tn:
                    return None
                made = self._made_as(subj, s) if isinstance(subj, ast.Name) else None
                if made is not None and self._instance_verdict(made, tn) not in (None, truth):
                    return None     # what the local was made as answers the test: the other answer is no path
                if truth and tag == "param" and tn == ["Value"]:
                    s.kind[subj.id] = ("passed", None)
                if truth and tn == ["Value"] and isinstance(subj, ast.Name) and subj.id in s.alias:
                    s.nul = True
                about_source = self.derived(subj, s)
                evidence = about_source and truth
                if all(x in _BUILTIN_EXT for x in tn):
                    ext = set().union(*[_BUILTIN_EXT[x] for x in tn])
                    stext = norm(subj)
                    self._names.setdefault(stext, names_in(subj))
                    for (o_s, o_t, o_truth) in s.tfacts:
                        if o_s != stext:
                            continue
                        o_ext = set().union(*[_BUILTIN_EXT[x] for x in o_t])
                        if truth and o_truth and not (ext & o_ext):
                            return None     # two disjoint types
                        if truth and not o_truth and ext <= o_ext:
                            return None     # is an X although it is no (X | ...)
                        if not truth and o_truth and o_ext <= ext:
                            return None
                    s.tfacts = s.tfacts + ((stext, frozenset(tn), truth),)
        elif isinstance(pos, ast.Call) and call_name(pos) == "issubclass" and len(pos.args) == 2 and isinstance(pos.args[0], ast.Name) \
                and pos.args[0].id in s.classes and self.world is not None:
            nm = pos.args[0].id
            bases = [norm(x) for x in (pos.args[1].elts if isinstance(pos.args[1], ast.Tuple) else [pos.args[1]])]
            verdicts = {k: [self.world.subclass(k, b) for b in bases] for k in s.classes[nm] if "." not in k}
            if len(verdicts) == len(s.classes[nm]) and all(v is not None for vs in verdicts.values() for v in vs):
                keep = frozenset(k for k, vs in verdicts.items() if any(vs) == truth)
                if not keep:
                    return None
                s.classes[nm] = keep
        elif isinstance(pos, ast.Compare) and len(pos.ops) == 1 and isinstance(pos.ops[0], (ast.Is, ast.Eq, ast.In)) and any(
                isinstance(x, ast.Name) and x.id in s.classes for x in (pos.left, pos.comparators[0])):
            # which class a computed receiver is: the candidates are narrowed, a test no candidate can pass / fail is not taken that way
            l, r = pos.left, pos.comparators[0]
            if not (isinstance(l, ast.Name) and l.id in s.classes) and not isinstance(pos.ops[0], ast.In):
                l, r = r, l
            others = [self.classes_of(x, s) for x in (r.elts if isinstance(pos.ops[0], ast.In) and isinstance(r, (ast.Tuple, ast.List, ast.Set)) else [r])]
            if isinstance(l, ast.Name) and l.id in s.classes and others and all(o is not None and len(o) == 1 for o in others):
                named = frozenset().union(*others)
                keep = (s.classes[l.id] & named) if truth else (s.classes[l.id] - named)
                if not keep:
                    return None
                s.classes[l.id] = keep
        elif isinstance(pos, ast.Compare) and len(pos.ops) == 1:
            op, l, r = pos.ops[0], pos.left, pos.comparators[0]
            if isinstance(op, ast.Is) and (_is_none(r) or _is_none(l)):
                subj = l if _is_none(r) else r
                if isinstance(subj, ast.Name):
                    tag = s.kind.get(subj.id, ("other", None))[0]
                    if truth and tag in ("built", "error", "nonnull", "passed"):
                        return None
                    if not truth and tag == "none":
                        return None
                    if truth:
                        s.kind[subj.id] = ("none", None)
                        if subj.id in s.alias:
                            s.nul = True
                about_source = self.derived(subj, s)
            elif isinstance(op, (ast.Eq, ast.In)):
                about_source = self.derived(l, s) or self.derived(r, s)
                evidence = about_source and truth
        else:
            about_source = self.derived(pos, s)
        if about_source:
            s.hist = s.hist | {(text, truth)}
        if evidence:
            s.ev = s.ev | {text if truth else f"not {text}"}
        return s


# R13.7: builder calls that deliberately do not hand the declared default on.  (root function, builder, parameter, argument) -> reason
HANDOVER_EXCEPTIONS: dict[tuple[str, str, str, str], str] = {
    # none today: the three sites of /repo that drop a declared default (binary strings, null-only enums) are genuine defects and are
    # reported (known findings), not excused
}


def _no_default_declared(s: PState, params: list[str]) -> bool:
    """on this path the declared default was found to be absent (None)"""
    if "default" in params and s.kind.get("default", ("other", None))[0] == "none":
        return True
    return s.facts.get("data.default is None") is True or s.facts.get("data.default") is False


def _value_param(f: Any) -> str | None:
    ps = [p.arg for p in f.params if p.arg not in ("self", "cls")]
    return ps[0] if ps else None


def _calls_of(n: ast.AST | None) -> list[ast.Call]:
    return [c for c in ast.walk(n) if isinstance(c, ast.Call)] if n is not None else []


def _operands(e: ast.expr) -> list[ast.expr]:
    """the alternatives an expression may evaluate to (`a or b`, `a if t else b`)"""
    if isinstance(e, ast.BoolOp):
        return [o for v in e.values for o in _operands(v)]
    if isinstance(e, ast.IfExp):
        return _operands(e.body) + _operands(e.orelse)
    return [e]


def _conversion_outcome(pp: Paths, sites: set[int]) -> tuple[list[str], list[str]]:
    """over all returning paths: (paths on which a conversion result known to be an error is not what is returned,
    paths that return something else while the conversion result was never tested)"""
    lost, untested = [], []
    for n, s in pp.returns():
        rk = pp.returned(n, s)
        if (s.errs & sites) and rk[0] != "error":
            lost.append(f"the conversion failed, returns `{norm(n)[7:60] if n is not None else 'None'}`")
        for nm, (tag, site) in s.kind.items():
            if site not in sites:
                continue
            if tag == "conv" and rk[0] != "error":
                untested.append(f"{nm} untested, returns `{norm(n)[7:60] if n is not None else 'None'}`")
    return sorted(set(lost)), sorted(set(untested))


def _dict_of(e: ast.AST) -> ast.expr | None:
    """X for `X.__dict__` / `vars(X)`"""
    if isinstance(e, ast.Attribute) and e.attr == "__dict__":
        return e.value
    if isinstance(e, ast.Call) and call_name(e) == "vars" and len(e.args) == 1:
        return e.args[0]
    return None


def _inplace_default_writes(n: ast.AST) -> list[tuple[ast.AST, ast.expr, ast.expr | None]]:
    """(the write, the object, the value | None) for every way the nodes under n change the `default` of an existing object in place:
    <obj>.default = V (also augmented / annotated / deleted), setattr(<obj>, "default", V) / object.__setattr__(<obj>, "default", V) /
    delattr, <obj>.__dict__["default"] = V / vars(<obj>)[...] = V, <obj>.__dict__.update(default=V / {"default": V})"""
    out: list[tuple[ast.AST, ast.expr, ast.expr | None]] = []
    for x in ast.walk(n):
        if isinstance(x, (ast.Assign, ast.AnnAssign, ast.AugAssign, ast.Delete)):
            value = getattr(x, "value", None)
            for t in (x.targets if isinstance(x, (ast.Assign, ast.Delete)) else [x.target]):
                for t_ in (ast.walk(t) if isinstance(t, (ast.Tuple, ast.List)) else [t]):
                    if isinstance(t_, ast.Attribute) and t_.attr == "default" and (value is not None or isinstance(x, ast.Delete)):
                        out.append((x, t_.value, value if not isinstance(t, (ast.Tuple, ast.List)) else None))
                    elif isinstance(t_, ast.Subscript) and isinstance(t_.slice, ast.Constant) and t_.slice.value == "default" \
                            and _dict_of(t_.value) is not None:
                        out.append((x, _dict_of(t_.value), value))
        elif isinstance(x, ast.Call):
            last = call_name(x).rsplit(".", 1)[-1]
            if last in ("setattr", "__setattr__", "delattr", "__delattr__") and len(x.args) >= 2 and isinstance(x.args[1], ast.Constant) \
                    and x.args[1].value == "default":
                out.append((x, x.args[0], x.args[2] if len(x.args) == 3 else None))
            elif last == "update" and isinstance(x.func, ast.Attribute) and _dict_of(x.func.value) is not None:
                vals = [kw.value for kw in x.keywords if kw.arg == "default"] + [
                    v for a in x.args if isinstance(a, ast.Dict) for k, v in zip(a.keys, a.values) if isinstance(k, ast.Constant) and k.value == "default"]
                out += [(x, _dict_of(x.func.value), v) for v in vals]
    return out


def _default_stores(pp: Paths) -> list[tuple[ast.stmt, ast.AST, ast.expr, ast.expr, PState]]:
    """where an existing property gets a (new) default: (statement, the call / store, the property, the value, state in which the
    value is evaluated) for every copy with an override evolve(<prop>, default=V) and every in-place write (_inplace_default_writes)
    that was walked"""
    out = []
    for n, s in pp.stmts():
        for c_ in _calls_of(n):
            last = call_name(c_).rsplit(".", 1)[-1]
            if last in _COPIES and c_.args and not isinstance(c_.args[0], ast.Starred):
                out += [(n, c_, c_.args[0], kw.value, x) for kw in c_.keywords if kw.arg == "default" for x in pp.states_at(n, s, kw.value)]
        for w, obj, v in _inplace_default_writes(n):
            if v is not None:
                out += [(n, w, obj, v, x) for x in pp.states_at(n, s, v)]
    return out


def run(rep: Report, ctx: Any) -> str:
    ix = ctx.py
    it, ji = ctx.flow
    rep.rule("R13.1", "every builder validates its default: convert_value(default) is called; on every path a result that is a "
                      "PropertyError is what the builder returns, no path returns or registers anything else before the result was "
                      "tested; the stored default is the tested conversion result")
    rep.rule("R13.2", "convert_value of typed kinds rejects by default: every path without a positive type / membership / equality "
                      "decision about the value ends in a PropertyError, every accepting return is reached only over such a decision, "
                      "bool is excluded on every path that accepts an int")
    rep.rule("R13.3", "python_code of every Value is built from reprs / checked numbers / sanitised names / literals")
    rep.rule("R13.4", "defaults are re-validated on the other routes: on every path of _property_from_ref that reaches the evolve() "
                      "with a wrapper schema the default is the referenced class's tested conversion of parent.default; "
                      "_merge_common_attributes converts the override with the merged class on every path, unions try members")
    rep.rule("R13.5", "to_string returns default.python_code on every path on which a default exists (every template that prints a "
                      "declaration through to_string() - the model class and the endpoint signature - has a hole that was followed into it; "
                      "that the names the printed code uses are imported where it is printed is import closure: C01)")
    rep.rule("R13.7", "the declared default reaches the builder: wherever property_from_data or a builder hands the property on to (another) "
                      "builder and returns what that builds, the declared default is handed on with it - the builder's `default` argument "
                      "is the declared default itself, its `data` argument the schema itself or a copy that keeps its default")
    rep.rule("R13.6", "allOf: when two members declare the same property the later declaration's default wins: the incoming property "
                      "reaches every _merge_common_attributes call as the last override (roles followed through the calls of the merge "
                      "module); whatever runs over the overrides (a loop, a comprehension, a left fold `reduce(step, overrides, base)`, in "
                      "the function or a helper walked in place) runs over the parameter itself or a derivation that keeps all its elements "
                      "in their order; wherever the merged property gets its default the accumulated default is only the last alternative "
                      "after the override's converted default, and is taken alone only on paths where the override's default was found absent")

    rep.rule("R13.10", "a kind whose convert_value asks the properties held in one of its own fields (a union its members) asks them as they "
                       "are declared: the sequence whose elements' convert_value is called with the value is that field itself or a "
                       "derivation that keeps all its elements in their order (list / tuple / iter / enumerate / a comprehension without a "
                       "condition / a full slice; through locals, helper parameters and helper results) - never a sorted, reversed, "
                       "filtered, sliced or set copy: the first member that accepts decides the type of the emitted default, and several "
                       "members may accept the same value (a string member accepts anything)")
    rep.rule("R13.8", "a property's default is given when the object is made (constructor / evolve keyword): wherever the package writes "
                      "`default` of a property in place (attribute store, setattr / object.__setattr__, __dict__), the object is one the "
                      "function made itself on every path to the write (followed through locals, helper parameters and helper results) - "
                      "property objects are shared between the schemas that inherit them, a write in place changes another schema's "
                      "declared default")

    props = ix.property_classes()
    by_name = {c.name: c for c in props}
    pfd = ix.func("properties.property_from_data")

    def callee_in(owner: Any) -> Callable[[ast.Call], Any]:
        def callee_of(c_: ast.Call) -> Any:
            head, _, last = call_name(c_).rpartition(".")
            if last == "build":
                k = owner if head in ("cls", "self") else by_name.get(head.rsplit(".", 1)[-1])
                return ix.find_method(k, "build") if k is not None else None
            return pfd if last == pfd.name else None
        return callee_of

    handovers: list[tuple[str, Any, Paths]] = []     # (root, function, its paths) for R13.7
    # ---- R13.1 ---------------------------------------------------------------------------------------------------------
    # asked of the builder with the private helpers of its region walked in place (so the conversion, the test, the registration
    # and the construction may each sit in `build` or in a helper it hands the default - or the schema declaring it - to)
    n_b = 0
    for c in props:
        b = c.methods.get("build")
        if b is None:
            continue
        params = [p.arg for p in b.params]
        helpers = _helpers_of(ix, b, c)
        reg_fns = [b, *helpers.values()]
        is_source = lambda n: isinstance(n, ast.Attribute) and norm(n) == "data.default" and "data" in params  # noqa: E731
        takes_default = "default" in params or any(is_source(n) for f in reg_fns for n in ast.walk(f.node))
        if not takes_default or c.name in NO_DEFAULT - {"FileProperty"}:
            continue
        n_b += 1
        key = f"{c.name}.build"
        pp = Paths(b.node, tainted={"default"} & set(params), source=is_source, helpers=helpers, subject="default" if "default" in params else None,
                   schema="data" if "data" in params else None, callee_of=callee_in(c), world=World(ix, b, helpers))
        handovers.append((key, b, pp))
        conv = [x for x, _ in pp.sites.values()]     # the conversions met on the walk (in the builder or in what it delegates to)
        rep.check(bool(conv), "R13.1", key + "::converts", "the builder does not pass the default through convert_value", where(b, b.node),
                  lhs=[norm(x)[:50] for x in conv], rhs="convert_value(default)")
        if not conv:
            continue
        dconv = [x for x, from_default in pp.sites.values() if from_default]
        rep.check(bool(dconv), "R13.1", key + "::converts-default", "convert_value is not applied to the declared default", where(b, conv[0]),
                  lhs=[norm(x)[:60] for x in conv], rhs="argument is the default")
        if c.name in PERMISSIVE or not dconv:
            continue
        sites = {id(x) for x in dconv}
        # a result that is an error is returned; nothing else is returned while the result is untested
        lost, untested = _conversion_outcome(pp, sites)
        tested = any(s.errs & sites for _, s in pp.records)
        rep.check(tested and not lost and not untested, "R13.1", key + "::error-returned",
                  "a PropertyError from convert_value is not returned by the builder", where(b, b.node), lhs=lost + untested,
                  rhs="every path: isinstance(<converted>, PropertyError) decided; yes -> it is returned")
        # no path returns a property past the conversion: it returns an error, what another builder built (R13.7: with the default handed
        # on), or the converted default was tested on it - unless no default is declared on that path
        past = sorted({f"`{norm(n)[7:60] if n is not None else 'None'}` when {sorted(f'{t}={v}' for t, v in s.facts.items() if 'default' in t) or 'always'}"
                       for n, s in pp.returns() if pp.returned(n, s)[0] not in ("error", "deleg") and not (s.oks & sites)
                       and not _no_default_declared(s, params)})
        rep.check(not past, "R13.1", key + "::every-path-converts", "the builder returns a property on a path on which the declared default was "
                  "neither converted and tested nor handed on to another builder (the default is ignored there, a bad one is not reported)",
                  where(b, b.node), lhs=past, rhs="every returning path: an error | what another builder returned | the default's conversion was tested")
        # registration (classes_by_name) only on paths where the result was found not to be an error
        regs: dict[int, tuple[ast.stmt, list[bool]]] = {}
        for n, s in pp.stmts():
            for kw in [kw for c_ in _calls_of(n) for kw in c_.keywords if kw.arg == "classes_by_name"]:
                regs.setdefault(pp.oid(n), (n, []))[1].extend(bool(x.oks & sites) for x in pp.states_at(n, s, kw.value))
        for n, oks in regs.values():
            rep.check(all(oks), "R13.1", key + "::registered-after-check", "the class is registered before its default has been validated",
                      where(b, n), lhs=norm(n)[:60], rhs="only on paths where the converted default was tested and is no error")
        # stored default is the converted value
        stored: list[tuple[ast.expr, PState]] = []
        for n, s in pp.stmts():
            for c_ in _calls_of(n):
                if call_name(c_).rsplit(".", 1)[-1] in ("cls", "evolve", c.name):
                    stored += [(kw.value, x) for kw in c_.keywords if kw.arg == "default" for x in pp.states_at(n, s, kw.value)]
            for _, _, v_ in _inplace_default_writes(n):     # a store to .default, setattr, __dict__
                if v_ is not None:
                    stored += [(v, x) for v in _arms(v_) for x in pp.states_at(n, s, v)]
        final = [(v, s) for v, s in stored if not _is_none(v)]
        bad = [norm(v)[:40] for v, s in final if not (pp.kind_of(v, s)[0] == "valid" and pp.kind_of(v, s)[1] in sites)]
        rep.check(bool(final) and not bad, "R13.1", key + "::stores-converted",
                  "the property stores something other than the converted default", where(b, b.node),
                  lhs=bad or [norm(v)[:40] for v, _ in final], rhs="the tested result of convert_value(default)")
    rep.floor("builders_with_default", n_b, 7)

    # ---- R13.7 ---------------------------------------------------------------------------------------------------------
    # asked of property_from_data (with its private helpers walked in place) and of every builder above: the builder calls whose
    # result is what the function returns on some path (directly, through a local, as the first element of the returned pair)
    p_params = [p.arg for p in pfd.params]
    p_helpers = _helpers_of(ix, pfd)
    handovers.append((pfd.name, pfd, Paths(
        pfd.node, source=lambda n: isinstance(n, ast.Attribute) and norm(n) == "data.default" and "data" in p_params, helpers=p_helpers,
        schema="data" if "data" in p_params else None, callee_of=callee_in(None), world=World(ix, pfd, p_helpers))))
    n_h = 0
    for root, f, pp in handovers:
        returned = {k for n, s in pp.returns() for tag, k in [pp.returned(n, s)] if tag == "deleg"}
        for k, computed in sorted({(k_, t) for k_ in returned for _, _, _, t in pp.delegs[k_][1]},
                                  key=lambda kt: (getattr(pp.delegs[kt[0]][0], "lineno", 0), kt[1] or "")):
            call, verdicts = pp.delegs[k]
            verdicts = {(ok_, param, arg) for ok_, param, arg, t in verdicts if t == computed}
            n_h += 1
            h = pp.callee_of(call)      # the key names the builder (a class / function of the repository), never a local
            target = computed or ((f"{h.cls.name}.{h.name}" if h.cls is not None else h.name) if h is not None else "<computed>.build")
            bad = sorted({(param, arg) for ok_, param, arg in verdicts if not ok_})
            frozen = [HANDOVER_EXCEPTIONS.get((root, target, param, arg)) for param, arg in bad]
            if bad and all(frozen):
                rep.ok("R13.7", f"{root}::hands-on-default[{target}]", "confirmed exception", "; ".join(sorted(set(frozen))))
                continue
            rep.check(not bad, "R13.7", f"{root}::hands-on-default[{target}]",
                      "the property is handed on to a builder without its declared default: the default is ignored (omitting the argument "
                      "no longer encodes it) and a bad one is not reported", where(f, call), lhs=[f"{param}={arg}" for param, arg in bad] or
                      sorted({f"{param}={arg}" for _, param, arg in verdicts}), rhs="default=<the declared default> | data=<the schema itself / a copy that keeps its default>")
    rep.floor("builder_handovers", n_h, 9)

    # ---- R13.2 -------------------------------------------------------------------------------------------------------------
    n_c = 0
    asked: dict[tuple[str, str], list[tuple[Any, ast.Call, str | None]]] = {}     # R13.10: (convert_value, field of members) -> conversions
    for c in props:
        cv = c.methods.get("convert_value")
        if cv is None or c.name in PERMISSIVE:
            continue
        n_c += 1
        key = f"{c.name}.convert_value"
        pname = _value_param(cv)
        rep.require(pname, f"value parameter of {key}")
        pp = Paths(cv.node, tainted={pname}, subject=pname, helpers=_helpers_of(ix, cv))
        for k, doms in pp.offered.items():
            if pp.sites[k][1]:     # the value under conversion is what the member is asked about
                for base, why in doms:
                    if base.startswith("self."):
                        asked.setdefault((key, base), []).append((cv, pp.sites[k][0], why))
        rets = [(n, s, pp.returned(n, s)) for n, s in pp.returns()]
        if c.name in ("ListProperty",):
            rep.check(all(k[0] == "none" for _, _, k in rets), "R13.2", key + "::no-default-kind", "a list default is turned into code",
                      where(cv, cv.node), lhs=sorted({k[0] for _, _, k in rets}), rhs="lists take no default: returns None")
            continue
        # paths on which nothing positive was established about a value that is neither None nor already a Value (found so under
        # any of its names, in the function or in a helper walked in place)
        blind = [(n, s, k) for n, s, k in rets if not s.ev and not s.nul]
        bad = sorted({f"{norm(n)[:60] if n is not None else '<end of function>'} ({k[0]})" for n, s, k in blind if k[0] != "error"})
        first_bad = next((n for n, s, k in blind if k[0] != "error" and n is not None), cv.node)
        rep.check(not bad, "R13.2", key + "::fallthrough", "the fall-through of convert_value is not a PropertyError (unknown values are accepted "
                  "or dropped)", where(cv, first_bad), lhs=bad or f"{len(blind)} undecided path(s) end in an error", rhs="return PropertyError(...)")
        # accepting returns lie only on paths with a positive decision about the value
        by_ret: dict[int, list[tuple[ast.stmt, PState]]] = {}
        for n, s, k in rets:
            if n is not None and k[0] in ACCEPTING:
                by_ret.setdefault(pp.oid(n), []).append((n, s))
        int_ok: list[bool] = []
        for group in by_ret.values():
            n = pp.origin(group[0][0])     # the function's own return statement (also when it returns what a helper returned)
            naked = [sorted(f"{t}={v}" for t, v in s.hist) for _, s in group if not s.ev]
            rep.check(not naked, "R13.2", key + f"::accept[{role_anon(n.value, cv.node)[:40]}]",
                      "a default is accepted without any type or membership test", where(cv, n), lhs=naked[:3] or sorted(set().union(*[s.ev for _, s in group])),
                      rhs="on every path a type / membership / equality decision about the value answered yes")
            for _, s in group:
                for text, truth in s.hist:
                    m = _isinstance_of(text)
                    if truth and m is not None and "int" in m[1]:
                        int_ok.append(s.said(f"isinstance({m[0]}, bool)", False))
        if int_ok:
            rep.check(all(int_ok), "R13.2", key + "::bool-excluded", "booleans are accepted where an integer is expected (True == 1)",
                      where(cv, cv.node), lhs=f"{sum(int_ok)}/{len(int_ok)} accepting int paths exclude bool", rhs="and not isinstance(value, bool)")
    rep.floor("typed_convert_value", n_c, 7)
    # ---- R13.10 ------------------------------------------------------------------------------------------------------------
    for (key, base), found in sorted(asked.items()):
        bad = sorted({why for _, _, why in found if why is not None})
        cv, call, _ = next((x for x in found if x[2] is not None), found[0])
        rep.check(not bad, "R13.10", f"{key}::members-as-declared[{base}]",
                  f"the members that are asked to convert the default are not {base} as it stands ({'; '.join(bad)}): which member accepts "
                  "first decides the type of the emitted default, and several may accept the same value", where(cv, call),
                  lhs=bad or f"{len(found)} conversion(s) by the elements of {base}", rhs=f"for <member> in {base} (all of them, in that order)")
    rep.floor("conversions_delegated_to_members", len(asked), 1)
    # const: acceptance compares converted Values (typed comparison), never raw values.  The comparison with the property's `value`
    # field is looked for in convert_value and the private helpers of its region.
    const_cls = ix.cls("ConstProperty")
    cc = const_cls.methods.get("convert_value")
    value_cls = ix.cls("Value").qual
    cmp_fns = [cc, *_helpers_of(ix, cc).values()]
    cmp_ = [(f, n) for f in cmp_fns for n in ast.walk(f.node) if isinstance(n, ast.Compare) and isinstance(n.ops[0], (ast.NotEq, ast.Eq))
            and (f is cc or any(isinstance(x, ast.Attribute) and x.attr == "value" for x in (n.left, n.comparators[0])))]
    rep.require(cmp_, "comparison in ConstProperty.convert_value")

    def operand_types(e: ast.expr, f: Any) -> set[str]:
        """types the flow interpretation found for the operand; where it did not evaluate this very node (a test inside a conditional
        expression): for a name, what it found for the other occurrences of that name; for a field of self, the field's annotation"""
        av = it.node_av.get(id(e))
        if av is not None:
            return set(av.types)
        if isinstance(e, ast.Name):
            return {t for m in ast.walk(f.node) if isinstance(m, ast.Name) and m.id == e.id and id(m) in it.node_av for t in it.node_av[id(m)].types}
        if isinstance(e, ast.Attribute) and isinstance(e.value, ast.Name) and e.value.id == "self":
            ann = const_cls.fields.get(e.attr)
            return {value_cls} if ann is not None and "Value" in {x.id for x in ast.walk(ann) if isinstance(x, ast.Name)} | {
                str(x.value).strip() for x in ast.walk(ann) if isinstance(x, ast.Constant)} else set()
        return set()

    for f_, n in cmp_:
        l, r = operand_types(n.left, f_), operand_types(n.comparators[0], f_)
        ok = value_cls in l and value_cls in r
        rep.check(ok, "R13.2", "ConstProperty.convert_value::typed-comparison",
                  "the const check compares raw JSON values with == (True == 1, 1.0 == 1): a default of another JSON type is accepted",
                  where(cc, n), lhs=[norm(n.left), norm(n.comparators[0])], rhs="both operands are converted Value objects")

    # ---- R13.3 ----------------------------------------------------------------------------------------------------------------
    last_: dict[str, tuple[Any, str]] = {}
    for w, pc, fq in it.value_ctor_sites:
        last_[w] = (pc, fq)
    for w, (pc, fq) in sorted(last_.items()):
        pasted = {l for l in pc.labels if l in (RAW, UNKNOWN, RAW_NONSTR) or is_esc(l)}
        if pasted and _literal_on_every_path(ix, w, fq):
            # the label analysis joins what it knows where branches meet and does not follow a decision through the local that names
            # it; the path walk does: on every path to this construction the text was found equal to a string literal of the source
            pasted = set()
        rep.check(not pasted, "R13.3", fq.replace(PKG + ".", "") + "::Value.python_code", f"document text pasted into code ({sorted(pasted)})",
                  w, lhs=sorted(pc.labels), rhs="built, not pasted")
    rep.floor("value_constructions", len(last_), 8)

    # ---- R13.4 ------------------------------------------------------------------------------------------------------------------
    pfr = ix.func("properties._property_from_ref")
    # the referenced class: what was looked up in schemas.classes_by_reference (by .get / subscript), followed as a role of its own
    # through locals, helper parameters and helper results
    def looked_up(n: ast.AST) -> str | None:
        if isinstance(n, ast.Call) and isinstance(n.func, ast.Attribute) and n.func.attr in ("get", "pop", "setdefault"):
            n = n.func.value
        elif isinstance(n, ast.Subscript):
            n = n.value
        else:
            return None
        return "refclass" if isinstance(n, ast.Attribute) and n.attr == "classes_by_reference" else None

    pp = Paths(pfr.node, source=lambda n: isinstance(n, ast.Attribute) and norm(n) == "parent.default", helpers=_helpers_of(ix, pfr),
               mark=looked_up)
    # conversions of parent.default by the referenced class, in the function or in a helper walked in place
    sites = {k for k, (c_, from_default) in pp.sites.items() if from_default and pp.receivers.get(k) == {"refclass"}}
    rep.check(bool(sites), "R13.4", "_property_from_ref::converts-with-referenced-class",
              "the wrapper's default is not converted by the referenced class", where(pfr, pfr.node))
    # every path that reaches the place where the property gets its default (evolve(<referenced class>, default=...), a store to its
    # .default): no wrapper (parent is None), or the default is the conversion of parent.default
    evolves = [(n, c_, d, x) for n, c_, recv, d, x in _default_stores(pp) if pp.kind_of(recv, x)[0] == "refclass"]
    rep.require(evolves, "the place where the property made from the referenced class gets its default in _property_from_ref")
    skipped = sorted({", ".join(sorted(f"{t}={v}" for t, v in s.facts.items() if "parent" in t)) for n, c_, d, s in evolves
                      if not s.facts.get("parent is None") and pp.kind_of(d, s)[1] not in sites})
    rep.check(not skipped, "R13.4", "_property_from_ref::conversion-guard",
              f"the default is skipped under `{skipped}` although a wrapper schema exists (falsy defaults such as 0, false, '' "
              "would be dropped unvalidated)", where(pfr, evolves[0][0]), lhs=skipped, rhs="skipped only when parent is None")
    lost, untested = _conversion_outcome(pp, sites)
    raw = sorted({norm(d) for n, c_, d, s in evolves if pp.kind_of(d, s)[1] in sites and pp.kind_of(d, s)[0] != "valid"})
    tested = any(s.errs & sites for n, s in pp.returns())
    rep.check(tested and not lost and not untested and not raw, "R13.4",
              "_property_from_ref::error-before-evolve", "an invalid default next to a $ref is not returned as an error before the property "
              "is built", where(pfr, pfr.node), lhs=lost + untested + raw, rhs="every path: a conversion error is returned, evolve() gets a tested result")

    mca = ix.func("merge_properties._merge_common_attributes")
    pm = Paths(mca.node, helpers=_helpers_of(ix, mca))
    # every value that becomes the merged property's default (evolve(<merged>, default=...), a store to <merged>.default) is
    # <merged>.default or the tested <merged>.convert_value(...) on that path
    m_evolves = [(n, recv, d, x) for n, c_, recv, d, x in _default_stores(pm)]
    rep.require(m_evolves, "the place where the merged property gets its default in _merge_common_attributes")
    bad_m: set[str] = set()
    m_sites: set[int] = set()
    for n, recv_, d, s in m_evolves:
        acc = norm(recv_)
        for o in _operands(pm.meaning(d, s)):
            if _is_none(o) or norm(o) == f"{acc}.default":
                continue
            tag, site = pm.kind_of(o, s)
            by_merged = site in pm.walked and all(isinstance(w.func, ast.Attribute) and norm(w.func.value) == acc for w in pm.walked[site])
            if by_merged:
                m_sites.add(site)
            if tag == "none" or (by_merged and tag in ("valid", "conv")):
                continue
            how = sorted(f"{t}={v}" for t, v in s.facts.items() if "default" in t)
            bad_m.add(f"{role_anon(o, mca.node)} ({tag}) when {how}")
    rep.check(not bad_m, "R13.4", "_merge_common_attributes::default-from-merged-class",
              f"a default enters the merged property without being converted by the merged class: {sorted(bad_m)}", where(mca, m_evolves[0][0]),
              lhs=sorted(bad_m), rhs="current.convert_value(override.default.raw_value) | current.default")
    lost, untested = _conversion_outcome(pm, m_sites)
    raw = sorted({norm(o) for n, recv_, d, s in m_evolves for o in _operands(pm.meaning(d, s)) if pm.kind_of(o, s)[1] in m_sites and pm.kind_of(o, s)[0] == "conv"})
    tested = any(s.errs & m_sites for n, s in pm.returns())
    rep.check(tested and not lost and not untested and not raw, "R13.4", "_merge_common_attributes::error-returned",
              "an override default invalid for the merged type is not reported", where(mca, mca.node), lhs=lost + untested + raw,
              rhs="every path: a conversion error is returned, evolve() gets a tested result")

    _override_order(rep, ix, mca, pm, m_evolves)

    _no_inplace_default(rep, ix, it, props)

    # ---- R13.5 ----------------------------------------------------------------------------------------------------------------------
    ts = ix.cls("PropertyProtocol").methods.get("to_string")
    ann = ix.cls("Value").fields.get("python_code")
    pt = Paths(ts.node, source=lambda n: isinstance(n, ast.Attribute) and norm(n) == "self.default.python_code",
               source_nonnull=ann is not None and norm(ann).strip("'\"") == "str", helpers=_helpers_of(ix, ts))
    t_rets = pt.returns()
    with_default = [(n, s) for n, s in t_rets if s.facts.get("self.default is None") is False or s.facts.get("self.default") is True]
    silent = [norm(n)[:60] if n is not None else "<end of function>" for n, s in with_default
              if not (isinstance(n, ast.Return) and pt.derived(n.value, s))]
    ok = bool(with_default) and not silent
    rep.check(ok, "R13.5", "PropertyProtocol.to_string::prints-python_code", "the declaration does not print default.python_code",
              where(ts, ts.node), lhs=silent or f"{len(with_default)} path(s) with a default", rhs="every path with a default returns text built from self.default.python_code")
    # the templates emit that text: holes of to_string() emissions that carry everything a Value.python_code may hold
    # (pasted labels are R13.3's business and may be transformed on the way, so they do not identify the hole)
    pc_labels = {l for pc, _ in last_.values() for l in pc.labels if not (l in (RAW, UNKNOWN, RAW_NONSTR) or is_esc(l))}
    printed = [e for e in ji.emissions.values() if "to_string()" in e.expr]
    resolved = [e for e in printed if pc_labels and pc_labels <= e.labels]
    n_ts = len(resolved)
    # counted by role: the templates that print a declaration through to_string() (class attributes, function signatures) - each of
    # them has a hole that was followed into to_string and carries what python_code may hold, and there are the two kinds of host
    hosts, hosts_resolved = {e.template for e in printed}, {e.template for e in resolved}
    if ok:
        rep.floor("to_string_default_emissions", n_ts, 2)
        rep.require(hosts <= hosts_resolved, "the default printed by to_string() could not be followed into the declaration(s) of "
                    f"{sorted(hosts - hosts_resolved)} (what the template hands to to_string() is not known)")
        rep.floor("to_string_default_hosts", len(hosts_resolved), 2)
    else:
        rep.indexed["to_string_default_emissions"] = n_ts
    rep.not_decided.append("value equality of the evaluated default with the document's value; leniency inside accepting branches")
    from . import determinants

    rep.rule("R13.9", "a default stays with what it was converted for: a copy of a property that replaces a field its convert_value reads "
                      "(an enum's class, table of values or value type; a const's value) gives `default` anew in the same call - None, to be "
                      "converted again, or a converted value - and never keeps the default computed for the old ones (shared with C15 R15.10)")
    rep.floor("copies_that_replace_default_determinants", determinants.check(rep, ctx, "R13.9"), 1)
    determinants.control(rep, "R13.9")
    return LEVEL


# ---- R13.8 -----------------------------------------------------------------------------------------------------------------------
def _no_inplace_default(rep: Report, ix: Any, it: Any, props: list[Any]) -> None:
    prop_quals = {c.qual for c in props} | {ix.cls("PropertyProtocol").qual}
    is_prop_class = lambda k: k is not None and any(m.qual in prop_quals for m in ix.mro(k))  # noqa: E731
    writes: dict[int, tuple[Any, ast.AST, ast.expr]] = {}      # every write of the package's source: id -> (function, write, object)
    holders: set[str] = set()
    n_fns = 0
    for f in ix.all_functions:
        n_fns += 1
        for w, obj, _ in _inplace_default_writes(f.node):
            if any(w is x for x in _own_nodes(f.node)):
                av = it.node_av.get(id(obj))
                known = {t for t in av.types} if av is not None else set()
                if known and not (known & prop_quals) and all(t in ix.classes or "." not in t for t in known):
                    continue     # the flow interpretation knows what it is, and it is no property (a document model, a builtin)
                if norm(obj) in ("self", "cls") and f.cls is not None and not is_prop_class(f.cls):
                    continue     # a class that is no property writes its own field
                writes[id(w)] = (f, w, obj)
                holders.add(f.qual)
    rep.floor("functions_scanned_for_default_writes", n_fns, 80)
    verdicts: dict[int, list[tuple[bool, str]]] = {}

    def made_here(n: ast.AST) -> str | None:
        """a new object: a constructor call, a copy (evolve / replace / copy / deepcopy / model_copy)"""
        if isinstance(n, ast.Call):
            cn = call_name(n)
            last = cn.rsplit(".", 1)[-1]
            if last in _COPIES or cn == "cls" or last in ("__new__",) or (cn.split(".")[0] != "self" and (
                    last[:1].isupper() and any(k.name == last for k in ix.classes.values()))):
                return "fresh"
        return None

    walked_in: set[str] = set()       # holders that were met on the walk of a function that calls them
    if writes:
        for f in ix.all_functions:
            if isinstance(f.node, ast.AsyncFunctionDef):
                continue
            hs = Helpers(ix, f)
            inside = {h.qual for h in hs.funcs if h.qual in holders}
            if f.qual not in holders and not inside:
                continue
            pp = Paths(f.node, helpers=hs, mark=made_here)
            own_init = f.name in ("__init__", "__attrs_post_init__", "__post_init__", "__new__")
            for n, s in pp.stmts():
                for w, obj, _ in _inplace_default_writes(n):
                    k = pp.oid(w)
                    if k not in writes:
                        continue
                    g = writes[k][0]
                    if g.qual != f.qual:
                        walked_in.add(g.qual)
                    kind = pp.kind_of(obj, s)[0]
                    ok = kind == "fresh" or (own_init and norm(obj) == "self")
                    verdicts.setdefault(k, []).append((ok, f.qual, f"{norm(obj)} is {'an object made here' if ok else 'not made here (' + kind + ')'} in {f.name}"))
    for k, (g, w, obj) in sorted(writes.items(), key=lambda kv: (kv[1][0].qual, getattr(kv[1][1], "lineno", 0))):
        got = verdicts.get(k, [])
        # what a helper is handed is judged where it is called; the helper taken alone counts only when nobody was found calling it
        if g.qual in walked_in:
            got = [v for v in got if v[1] != g.qual]
        bad = sorted({why for ok, _, why in got if not ok})
        rep.check(bool(got) and not bad, "R13.8", f"{g.qual.replace(PKG + '.', '')}::default-set-in-place",
                  f"`default` of an existing object is changed in place ({norm(w)[:70]}): the object may be shared with the schema it was "
                  "inherited from (and every other schema that inherits it), whose declared default changes with it",
                  where(g, w), lhs=bad or (sorted({why for _, _, why in got}) if got else "the write was not reached by the walk"),
                  rhs="evolve(<prop>, default=...) | a write to an object the function made itself")
    if not writes:
        rep.ok("R13.8", "package::no-in-place-default", n_fns, "no in-place write of a property's default in the package")


# ---- R13.6 -----------------------------------------------------------------------------------------------------------------------
# Which declaration is the later one is decided where the merge is requested: the property that comes in as a parameter is merged
# with the one found, under its name, among those collected so far - the parameter is the LATER ("L") declaration, the looked-up one
# the EARLIER ("E").  These two roles are followed through the calls inside the merge module (arguments bound to parameters, locals
# resolved through their definitions, a callee picked from a tuple of functions counts as each of them) down to every call of
# _merge_common_attributes, whose last override must be the later declaration and nothing else.

def _lookup_by_param_name(e: ast.AST, params: set[str]) -> bool:
    for n in ast.walk(e):
        if isinstance(n, ast.Call) and isinstance(n.func, ast.Attribute) and n.func.attr == "get" and n.args and any(
                norm(n.args[0]) == f"{p}.name" for p in params):
            return True
        if isinstance(n, ast.Subscript) and any(norm(n.slice) == f"{p}.name" for p in params):
            return True
    return False


def _local_values(fn: ast.AST, name: str) -> list[ast.AST]:
    """the expressions a local is bound from (element-wise for tuple assignments); loop variables have none"""
    out = []
    for kind, _, v in Locals(fn).defs.get(name, []):
        if v is None or kind.startswith("for"):
            continue
        if "[" in kind and isinstance(v, ast.Tuple):
            i = int(kind[kind.index("[") + 1:kind.index("]")])
            v = v.elts[i] if i < len(v.elts) else v
        out.append(v)
    return out


def _override_order(rep: Report, ix: Any, sink: Any, pm: Paths, m_evolves: list) -> None:
    mod = sink.module
    entry = ix.func("merge_properties.merge_properties")
    mfuncs = {f.name: f for f in ix.all_functions if f.module is mod and f.cls is None and f.parent is None}
    roles: dict[tuple[str, str], set[str]] = {}

    def params_of(f: Any) -> set[str]:
        a = f.node.args
        return {x.arg for x in [*a.posonlyargs, *a.args, *a.kwonlyargs]}

    def role(e: ast.AST | None, f: Any, depth: int = 0) -> set[str]:
        if e is None or depth > 8:
            return set()
        if isinstance(e, ast.Name):
            if e.id in params_of(f):
                return set(roles.get((f.qual, e.id), set()))
            out: set[str] = set()
            for v in _local_values(f.node, e.id):
                out |= role(v, f, depth + 1)
            return out
        if isinstance(e, ast.IfExp):
            return role(e.body, f, depth + 1) | role(e.orelse, f, depth + 1)
        if isinstance(e, ast.BoolOp):
            return set().union(*[role(v, f, depth + 1) for v in e.values])
        if isinstance(e, (ast.Attribute, ast.NamedExpr, ast.Starred)):
            return role(e.value, f, depth + 1)
        if isinstance(e, ast.Call):   # evolve(p, ...), cast(T, p): still that declaration
            return set().union(*[role(a, f, depth + 1) for a in e.args]) if e.args else set()
        return set()

    def callees(c: ast.Call, f: Any) -> list[Any]:
        if not isinstance(c.func, ast.Name):
            return []
        if c.func.id in mfuncs and c.func.id not in params_of(f):
            return [mfuncs[c.func.id]]
        out = []
        for kind, _, v in Locals(f.node).defs.get(c.func.id, []):   # for strategy in (f1, f2, ...): strategy(a, b)
            if kind.startswith("for") and isinstance(v, (ast.Tuple, ast.List)):
                out += [mfuncs[x.id] for x in v.elts if isinstance(x, ast.Name) and x.id in mfuncs]
        return out

    def bind(c: ast.Call, f: Any, h: Any) -> bool:
        a = h.node.args
        pos = [x.arg for x in [*a.posonlyargs, *a.args]]
        changed = False
        for i, arg in enumerate(c.args):
            if isinstance(arg, ast.Starred) or i >= len(pos):
                break
            r = role(arg, f)
            if not r <= roles.setdefault((h.qual, pos[i]), set()):
                roles[(h.qual, pos[i])] |= r
                changed = True
        for kw in c.keywords:
            if kw.arg and kw.arg in params_of(h):
                r = role(kw.value, f)
                if not r <= roles.setdefault((h.qual, kw.arg), set()):
                    roles[(h.qual, kw.arg)] |= r
                    changed = True
        return changed

    # where the merge is requested
    n_roots = 0
    for c_site, f in _outside_calls(ix, entry, mod):
        ps = params_of(f)
        got = []
        for arg in c_site.args[:2]:
            if isinstance(arg, ast.Name) and arg.id in ps:
                got.append({"L"})
            elif isinstance(arg, ast.Name) and any(_lookup_by_param_name(v, ps) for v in _local_values(f.node, arg.id)) or \
                    _lookup_by_param_name(arg, ps):
                got.append({"E"})
            else:
                got.append(set())
        rep.require(len(got) == 2 and all(got) and got[0] != got[1],
                    f"which argument of {entry.name}(...) in {f.name} is the incoming and which the already collected property")
        n_roots += 1
        a = entry.node.args
        pos = [x.arg for x in [*a.posonlyargs, *a.args]]
        for pn, r in zip(pos, got):
            roles.setdefault((entry.qual, pn), set()).update(r)
    rep.floor("merge_requests", n_roots, 1)
    reached = {entry.qual}
    work = [entry]
    while work:     # roles only grow, a function is revisited only when one of its parameters gained a role
        f = work.pop()
        for c in [n for n in ast.walk(f.node) if isinstance(n, ast.Call)]:
            for h in callees(c, f):
                if h is sink:
                    continue
                if bind(c, f, h) or h.qual not in reached:
                    reached.add(h.qual)
                    work.append(h)
    n_calls = 0
    for f in mfuncs.values():
        if f is sink or f.qual not in reached:
            continue
        for c in [n for n in ast.walk(f.node) if isinstance(n, ast.Call)]:
            if sink not in callees(c, f):
                continue
            n_calls += 1
            overrides = c.args[1:]
            star = any(isinstance(x, ast.Starred) for x in c.args)
            last = role(overrides[-1], f) if overrides and not star else set()
            rep.check(last == {"L"}, "R13.6", f"{f.name}::override-order[{', '.join(role_anon(x, f.node) for x in c.args)}]",
                      "the last override of the merge is not the later declaration: an inherited / earlier default beats the one that "
                      "re-declares it", where(f, c), lhs=[f"{norm(x)}: {''.join(sorted(role(x, f))) or '?'}" for x in c.args],
                      rhs="last override is the later declaration (L)")
    rep.floor("merge_common_attribute_calls", n_calls, 5)
    # inside: overrides applied in argument order, the override's converted default preferred over the accumulated one
    va = sink.node.args.vararg.arg if sink.node.args.vararg else None
    rep.require(va, "*overrides parameter of _merge_common_attributes")
    # what runs over the overrides (a loop, a comprehension, a fold; in the function or in a helper walked in place) runs over all of
    # them in the order they were given: the sequence it iterates is the parameter itself or a derivation that keeps every element
    # in its place (Paths._domain)
    loops = [(e, d) for e, d in pm.iterated if d[0] == va]
    rep.require(loops, "loop over the overrides in _merge_common_attributes")
    out_of_order = sorted({f"{norm(e)[:50]}: {d[1]}" for e, d in loops if d[1] is not None})
    rep.check(not out_of_order, "R13.6", "_merge_common_attributes::applied-in-order", "the overrides are not applied in argument order",
              where(sink, next((e for e, d in loops if d[1] is not None), loops[0][0])), lhs=out_of_order or sorted({norm(e)[:50] for e, _ in loops}),
              rhs=f"for _ in {va} (all of them, in that order)")
    # wherever the merged property gets its default: the accumulated default is only the fallback of the override's converted default -
    # it is the last alternative of the choice and occurs nowhere else in it; it is taken alone only on paths on which the default
    # that is offered for conversion was found to be absent
    offered = {norm(x) for calls in pm.walked.values() for w in calls for a in w.args for x in ast.walk(a)
               if isinstance(x, ast.Attribute) and x.attr == "default"}
    verdicts: list[tuple[bool, ast.AST, str]] = []
    for n, recv_, d, st in m_evolves:
        acc = f"{norm(recv_)}.default"
        d = pm.meaning(d, st)
        ok = False
        if isinstance(d, ast.BoolOp) and isinstance(d.op, ast.Or):
            ok = norm(d.values[-1]) == acc and all(norm(v) != acc for v in d.values[:-1])
        elif isinstance(d, ast.IfExp):
            pos_, flip = _positive(d.test.operand if isinstance(d.test, ast.UnaryOp) and isinstance(d.test.op, ast.Not) else d.test)
            neg = flip != (isinstance(d.test, ast.UnaryOp) and isinstance(d.test.op, ast.Not))
            is_none_test = isinstance(pos_, ast.Compare) and isinstance(pos_.ops[0], ast.Is) and _is_none(pos_.comparators[0])
            subject = norm(pos_.left) if is_none_test else norm(pos_)
            # true branch taken when the override's default is present?
            present_when_true = (is_none_test and neg) or (not is_none_test and not neg)
            ok = acc not in subject and ((present_when_true and norm(d.orelse) == acc and norm(d.body) != acc) or
                                         (not present_when_true and norm(d.body) == acc and norm(d.orelse) != acc))
        elif norm(d) == acc:
            ok = any(st.facts.get(f"{o} is None") is True or st.facts.get(o) is False for o in offered if o != acc)
        verdicts.append((ok, n, role_anon(d, sink.node) if pm.origin(n) is n else norm(d)))
    if verdicts:
        bad_n = next((n for ok, n, _ in verdicts if not ok), verdicts[0][1])
        rep.check(all(ok for ok, _, _ in verdicts), "R13.6", "_merge_common_attributes::override-preferred",
                  "the accumulated default is not the fallback of the override's default (an earlier declaration's default wins or is lost)",
                  where(sink, bad_n), lhs=sorted({t for ok, _, t in verdicts if not ok}) or sorted({t for _, _, t in verdicts}),
                  rhs="<override's converted default> or <accumulated>.default; <accumulated>.default alone only where the override has none")


def _outside_calls(ix: Any, entry: Any, mod: Any) -> list[tuple[ast.Call, Any]]:
    """calls of `entry` from other modules, each with the innermost function that contains it"""
    best: dict[int, tuple[ast.Call, Any, int]] = {}
    for f in ix.all_functions:
        if f.module is mod:
            continue
        size = None
        for n in ast.walk(f.node):
            if isinstance(n, ast.Call) and call_name(n).rsplit(".", 1)[-1] == entry.name:
                if size is None:
                    size = sum(1 for _ in ast.walk(f.node))
                if id(n) not in best or size < best[id(n)][2]:
                    best[id(n)] = (n, f, size)
    return [(c, f) for c, f, _ in best.values()]


# ---- R13.3: document text that is a literal of the source on every path ------------------------------------------------------------
def _is_str_literal(e: ast.AST) -> bool:
    return isinstance(e, ast.Constant) and isinstance(e.value, str)


def _known_literal(e: ast.expr, s: PState) -> bool:
    """on this path e is a string literal of the source: written as one, or a name that was found equal to one / to be one of a
    literal collection of them (`e == "x"`, `e in ("x", "y")` answered yes) and has not been re-bound since"""
    if _is_str_literal(e):
        return True
    if not isinstance(e, ast.Name):
        return False
    for text, truth in s.facts.items():
        if not truth or e.id not in text:
            continue
        try:
            t = ast.parse(text, mode="eval").body
        except SyntaxError:
            continue
        if not (isinstance(t, ast.Compare) and len(t.ops) == 1):
            continue
        l, r = t.left, t.comparators[0]
        if isinstance(t.ops[0], ast.Eq) and any(isinstance(a, ast.Name) and a.id == e.id and _is_str_literal(b) for a, b in ((l, r), (r, l))):
            return True
        if isinstance(t.ops[0], ast.In) and isinstance(l, ast.Name) and l.id == e.id and isinstance(r, (ast.Tuple, ast.List, ast.Set)) \
                and r.elts and all(_is_str_literal(x) for x in r.elts):
            return True
    return False


def _literal_on_every_path(ix: Any, w: str, fq: str) -> bool:
    """is the python_code of the Value(...) constructed at `w` in function fq a string literal of the source on every path that
    reaches the construction"""
    f = next((g for g in ix.all_functions if g.qual == fq), None)
    if f is None or isinstance(f.node, ast.AsyncFunctionDef):
        return False
    line = w.rpartition(":")[2]
    calls = [c for c in ast.walk(f.node) if isinstance(c, ast.Call) and str(getattr(c, "lineno", "")) == line
             and call_name(c).rsplit(".", 1)[-1] == "Value"]
    if not calls:
        return False
    pp = Paths(f.node, helpers=_helpers_of(ix, f))
    for c in calls:
        code = next((kw.value for kw in c.keywords if kw.arg == "python_code"), c.args[0] if c.args else None)
        if code is None:
            return False
        reached = False
        for n, s in list(pp.records):
            if n is None:
                continue
            chain = _chain_to(n, c)
            if chain is None:
                continue
            # inside conditional expressions: the state in which the arm that holds the construction is evaluated
            states = [s]
            for parent, child in zip(chain, chain[1:]):
                if isinstance(parent, ast.IfExp) and child is not parent.test:
                    split = [pp._branch(parent.test, x) for x in states]
                    states = [y for t, f_ in split for y in (t if child is parent.body else f_)]
            for x in states:
                reached = True
                if not _known_literal(code, x):
                    return False
        if not reached:
            return False
    return True


def _chain_to(root: ast.AST, target: ast.AST) -> list[ast.AST] | None:
    """the nodes from root down to target (None: target is not inside root)"""
    if root is target:
        return [root]
    for ch in ast.iter_child_nodes(root):
        sub = _chain_to(ch, target)
        if sub is not None:
            return [root, *sub]
    return None


def _isinstance_of(text: str) -> tuple[str, list[str]] | None:
    """(subject text, type names) of an `isinstance(subject, types)` atom"""
    if not text.startswith("isinstance("):
        return None
    try:
        e = ast.parse(text, mode="eval").body
    except SyntaxError:
        return None
    if isinstance(e, ast.Call) and len(e.args) == 2:
        return norm(e.args[0]), _type_names(e.args[1])
    return None
