"""C13 - declared defaults become equal Python defaults, bad defaults are rejected."""
from __future__ import annotations

import ast
import re
from typing import Any

from ..astutil import Locals, bool_atoms, call_name, cfg_of, constructs_error, error_names, norm, returns_error, short, truth_table, where
from ..cfg import CFG, walk_own
from ..core import PKG, Report
from ..domain import RAW, RAW_NONSTR, UNKNOWN, is_esc

LEVEL = ("sibling rules over the 14 builders and their convert_value implementations: the default flows into convert_value, a "
         "PropertyError result is returned before the property is constructed, the property stores the converted Value; "
         "convert_value rejects by default (fall-through is an error, every acceptance under a type/membership test, bool "
         "excluded where int is accepted); python_code is built not pasted (label analysis); the $ref route and the allOf "
         "merge route re-convert with the receiving class (def-use + truth tables on their guards); to_string prints it.")

PERMISSIVE = {"StringProperty", "AnyProperty"}            # documented permissive kinds
NO_DEFAULT = {"ListProperty", "ModelProperty", "FileProperty"}  # kinds without defaults: convert_value returns None / error


def run(rep: Report, ctx: Any) -> str:
    ix = ctx.py
    it, ji = ctx.flow
    cfgs: dict[str, CFG] = {}
    rep.rule("R13.1", "every builder validates its default: convert_value(default) is called, a PropertyError result is returned "
                      "before construction/registration, and the stored default is the converted value")
    rep.rule("R13.2", "convert_value of typed kinds rejects by default: the fall-through return is a PropertyError, every accepting "
                      "return sits under a type / membership test of the value, bool is excluded where int is accepted")
    rep.rule("R13.3", "python_code of every Value is built from reprs / checked numbers / sanitised names / literals")
    rep.rule("R13.4", "defaults are re-validated on the other routes: _property_from_ref converts with the referenced class whenever "
                      "a wrapper exists, _merge_common_attributes converts the override with the merged class, unions try members")
    rep.rule("R13.5", "to_string prints default.python_code when a default exists")

    props = ix.property_classes()
    # ---- R13.1 ---------------------------------------------------------------------------------------------------------
    n_b = 0
    for c in props:
        b = c.methods.get("build")
        if b is None:
            continue
        params = [p.arg for p in b.params]
        takes_default = "default" in params or any("data.default" in norm(n) for n in ast.walk(b.node))
        if not takes_default or c.name in NO_DEFAULT - {"FileProperty"}:
            continue
        n_b += 1
        key = f"{c.name}.build"
        conv = [n for n in ast.walk(b.node) if isinstance(n, ast.Call) and call_name(n).endswith("convert_value")]
        rep.check(bool(conv), "R13.1", key + "::converts", "the builder does not pass the default through convert_value", where(b, b.node),
                  lhs=[norm(x)[:50] for x in conv], rhs="convert_value(default)")
        if not conv:
            continue
        arg_ok = any("default" in norm(x) for x in conv)
        rep.check(arg_ok, "R13.1", key + "::converts-default", "convert_value is not applied to the declared default", where(b, conv[0]),
                  lhs=[norm(x)[:60] for x in conv], rhs="argument is the default")
        if c.name in PERMISSIVE:
            continue
        cfg = cfg_of(b, cfgs)
        # result variable checked and returned before the schemas registration / final construction
        res_vars = set()
        for st in cfg.stmts():
            if isinstance(st, ast.Assign) and any(x in conv for x in ast.walk(st.value)):
                for t in st.targets:
                    if isinstance(t, ast.Name):
                        res_vars.add(t.id)
        checks = [st for st in cfg.stmts() if isinstance(st, ast.If) and any(f"isinstance({v}, PropertyError)" in norm(st.test) for v in res_vars)
                  and any(isinstance(r, ast.Return) for r in st.body)]
        rep.check(bool(checks), "R13.1", key + "::error-returned", "a PropertyError from convert_value is not returned by the builder",
                  where(b, b.node), lhs=sorted(res_vars), rhs="if isinstance(<converted>, PropertyError): return <it>")
        # registration (classes_by_name) only after the check
        regs = [st for st in cfg.stmts() if "classes_by_name=" in norm(st) and "evolve" in norm(st)]
        for r in regs:
            rep.check(any(cfg.is_dominated_by(r, lambda n, c_=c_: n is c_) for c_ in checks), "R13.1", key + "::registered-after-check",
                      "the class is registered before its default has been validated", where(b, r), lhs=norm(r)[:60],
                      rhs="dominated by the default check")
        # stored default is the converted value
        stores = [kw for n in ast.walk(b.node) if isinstance(n, ast.Call) for kw in n.keywords if kw.arg == "default"
                  and call_name(n).rsplit(".", 1)[-1] in ("cls", "evolve", c.name)]
        stores += [n for n in ast.walk(b.node) if isinstance(n, ast.Assign) and any(norm(t).endswith(".default") for t in n.targets)]
        final = [s for s in stores if not (isinstance(getattr(s, "value", None), ast.Constant) and s.value.value is None)]
        rep.check(bool(final) and all(norm(s.value) in res_vars for s in final), "R13.1", key + "::stores-converted",
                  "the property stores something other than the converted default", where(b, b.node),
                  lhs=[norm(s.value)[:40] for s in final], rhs=sorted(res_vars))
    rep.floor("builders_with_default", n_b, 11)

    # ---- R13.2 -------------------------------------------------------------------------------------------------------------
    n_c = 0
    for c in props:
        cv = c.methods.get("convert_value")
        if cv is None or c.name in PERMISSIVE:
            continue
        n_c += 1
        key = f"{c.name}.convert_value"
        body = [s for s in cv.node.body if not (isinstance(s, ast.Expr) and isinstance(s.value, ast.Constant))]
        last = body[-1] if body else None
        if c.name in ("ListProperty",):
            rep.ok("R13.2", key + "::no-default-kind", "returns None", "lists take no default", nontrivial=False)
            continue
        if c.name == "UnionProperty":
            # the fall-through returns a local that starts out as an error (any spelling) and is replaced only by an accepting member
            ok = isinstance(last, ast.Return) and isinstance(last.value, ast.Name) and any(
                constructs_error(v_) for v_ in Locals(cv.node).values_of(last.value.id))
            rep.check(ok, "R13.2", key + "::fallthrough", "a union default that no member accepts is not an error", where(cv, cv.node))
            continue
        ok = isinstance(last, ast.Return) and (constructs_error(last.value) or (c.name == "ConstProperty" and norm(last.value) == "value"))
        if c.name in ("ModelProperty", "FileProperty"):
            ok = any(isinstance(n, ast.Return) and constructs_error(n.value) for n in ast.walk(cv.node))
        rep.check(ok, "R13.2", key + "::fallthrough", "the fall-through of convert_value is not a PropertyError (unknown values are accepted)",
                  where(cv, last or cv.node), lhs=norm(last)[:60] if last is not None else None, rhs="return PropertyError(...)")
        # accepting returns (Value(...)) must be under a test mentioning `value`
        for n in ast.walk(cv.node):
            if isinstance(n, ast.Return) and n.value is not None and "Value(" in norm(n.value) and not constructs_error(n.value):
                guards = _guards_of(cv.node, n)
                typed = any("isinstance(" in g or " in self.values" in g or "==" in g for g in guards)
                rep.check(typed, "R13.2", key + f"::accept[{norm(n.value)[:40]}]", "a default is accepted without any type or membership test",
                          where(cv, n), lhs=guards, rhs="under isinstance / membership / equality test")
                if any(re.search(r"isinstance\(\w+, int\)", g) for g in guards) and c.name in ("IntProperty", "FloatProperty"):
                    rep.check(any("not isinstance" in g and "bool" in g for g in guards), "R13.2", key + "::bool-excluded",
                              "booleans are accepted where an integer is expected (True == 1)", where(cv, n), lhs=guards,
                              rhs="and not isinstance(value, bool)")
    rep.floor("typed_convert_value", n_c, 11)
    # const: acceptance compares converted Values (typed comparison), never raw values
    cc = ix.cls("ConstProperty").methods.get("convert_value")
    cmp_ = [n for n in ast.walk(cc.node) if isinstance(n, ast.Compare) and isinstance(n.ops[0], (ast.NotEq, ast.Eq))]
    rep.require(cmp_, "comparison in ConstProperty.convert_value")
    for n in cmp_:
        l, r = it.node_av.get(id(n.left)), it.node_av.get(id(n.comparators[0]))
        value_cls = ix.cls("Value").qual
        ok = l is not None and r is not None and value_cls in l.types and value_cls in r.types
        rep.check(ok, "R13.2", "ConstProperty.convert_value::typed-comparison",
                  "the const check compares raw JSON values with == (True == 1, 1.0 == 1): a default of another JSON type is accepted",
                  where(cc, n), lhs=[norm(n.left), norm(n.comparators[0])], rhs="both operands are converted Value objects")

    # ---- R13.3 ----------------------------------------------------------------------------------------------------------------
    last_: dict[str, tuple[Any, str]] = {}
    for w, pc, fq in it.value_ctor_sites:
        last_[w] = (pc, fq)
    for w, (pc, fq) in sorted(last_.items()):
        pasted = {l for l in pc.labels if l in (RAW, UNKNOWN, RAW_NONSTR) or is_esc(l)}
        rep.check(not pasted, "R13.3", fq.replace(PKG + ".", "") + "::Value.python_code", f"document text pasted into code ({sorted(pasted)})",
                  w, lhs=sorted(pc.labels), rhs="built, not pasted")
    rep.floor("value_constructions", len(last_), 12)

    # ---- R13.4 ------------------------------------------------------------------------------------------------------------------
    pfr = ix.func("properties._property_from_ref")
    pl = Locals(pfr.node)
    existing = set(pl.bound_from(lambda v: v.startswith("schemas.classes_by_reference.get("), "assign"))
    conv = [n for n in ast.walk(pfr.node) if isinstance(n, ast.Call) and isinstance(n.func, ast.Attribute) and n.func.attr == "convert_value"
            and norm(n.func.value) in existing and n.args and norm(n.args[0]) == "parent.default"]
    rep.check(bool(conv), "R13.4", "_property_from_ref::converts-with-referenced-class",
              "the wrapper's default is not converted by the referenced class", where(pfr, pfr.node))
    for n in ast.walk(pfr.node):
        if isinstance(n, ast.IfExp) and any(x in conv for x in ast.walk(n.body)):
            # conversion skipped  =>  parent is None
            ok = True
            for env, res in truth_table(n.test):
                if not res and env.get("parent is not None", None) is True:
                    ok = False
            ok = ok and "parent is not None" in bool_atoms(n.test)
            rep.check(ok, "R13.4", "_property_from_ref::conversion-guard",
                      f"the default is skipped under `{norm(n.test)}` although a wrapper schema exists (falsy defaults such as 0, false, '' "
                      "would be dropped unvalidated)", where(pfr, n), lhs=norm(n.test), rhs="skipped only when parent is None")
    cfg = cfg_of(pfr, cfgs)
    errs = error_names(pfr.node)
    converted = {nm for nm in pl.defs if any(any(x in conv for x in ast.walk(v_)) for v_ in pl.values_of(nm))}
    chk = [s for s in cfg.stmts() if isinstance(s, ast.If) and any(norm(s.test) == f"isinstance({d_}, PropertyError)" for d_ in converted)
           and any(isinstance(r_, ast.Return) for r_ in s.body)]
    ev = [s for s in cfg.stmts() for c_ in walk_own(s) if isinstance(c_, ast.Call) and call_name(c_).endswith("evolve")
          and any(k.arg == "default" and norm(k.value) in converted for k in c_.keywords)]
    rep.check(bool(chk) and bool(ev) and all(cfg.is_dominated_by(e, lambda n: n in chk) for e in ev), "R13.4",
              "_property_from_ref::error-before-evolve", "an invalid default next to a $ref is not returned as an error before the property "
              "is built", where(pfr, pfr.node))
    mca = ix.func("merge_properties._merge_common_attributes")
    # every value flowing into evolve(default=...) comes from current.convert_value(...) or current.default
    for n in ast.walk(mca.node):
        if isinstance(n, ast.Call) and call_name(n).endswith("evolve"):
            for kw in n.keywords:
                if kw.arg == "default":
                    acc = norm(n.args[0]) if n.args else ""
                    over = {norm(lp.target) for lp in ast.walk(mca.node) if isinstance(lp, ast.For) and norm(lp.iter) == "extend_with"}
                    names = {x.id for x in ast.walk(kw.value) if isinstance(x, ast.Name)} - {acc}
                    bad = []
                    for nm in sorted(names):
                        defs = [a for a in ast.walk(mca.node) if isinstance(a, ast.Assign) and any(norm(t) == nm for t in a.targets)]
                        if nm in over or not defs:
                            bad.append(f"{nm} (not converted)")
                        for a in defs:
                            v = norm(a.value)
                            if not (v == "None" or f"{acc}.convert_value(" in v):
                                bad.append(f"{nm} = {v}")
                    rep.check(not bad, "R13.4", "_merge_common_attributes::default-from-merged-class",
                              f"a default enters the merged property without being converted by the merged class: {bad}", where(mca, n),
                              lhs=bad, rhs="current.convert_value(override.default.raw_value) | current.default")
                    # conversion error returned
                    chk2 = [s for s in ast.walk(mca.node) if isinstance(s, ast.If) and any(norm(s.test) == f"isinstance({nm}, PropertyError)" for nm in names)
                            and any(isinstance(r_, ast.Return) for r_ in s.body)]
                    rep.check(bool(chk2), "R13.4", "_merge_common_attributes::error-returned", "an override default invalid for the merged type is not reported",
                              where(mca, mca.node))

    # ---- R13.5 ----------------------------------------------------------------------------------------------------------------------
    ts = ix.cls("PropertyProtocol").methods.get("to_string")
    ok = any(isinstance(n, ast.If) and "self.default is not None" in norm(n.test) and "self.default.python_code" in norm(n) for n in ast.walk(ts.node))
    rep.check(ok, "R13.5", "PropertyProtocol.to_string::prints-python_code", "the declaration does not print default.python_code", where(ts, ts.node))
    dflt = set(Locals(ts.node).bound_from(lambda v: v == "self.default.python_code", "assign"))
    n_ts = sum(1 for e in ji.emissions.values() if "to_string()" in e.expr and e.hole in dflt)
    rep.floor("to_string_default_emissions", n_ts, 3)
    rep.not_decided.append("value equality of the evaluated default with the document's value; leniency inside accepting branches")
    return LEVEL


def _guards_of(fn: ast.AST, node: ast.AST) -> list[str]:
    out: list[str] = []

    def rec(cur: ast.AST, stack: list[str]) -> bool:
        if cur is node:
            out.extend(stack)
            return True
        if isinstance(cur, ast.If):
            for k in cur.body:
                if rec(k, stack + [norm(cur.test)]):
                    return True
            for k in cur.orelse:
                if rec(k, stack + ["not(" + norm(cur.test) + ")"]):
                    return True
            return False
        if isinstance(cur, ast.Try):
            for k in cur.body + cur.orelse + cur.finalbody + [s for h in cur.handlers for s in h.body]:
                if rec(k, stack):
                    return True
            return False
        for k in ast.iter_child_nodes(cur):
            if isinstance(k, ast.stmt) and rec(k, stack):
                return True
        return False

    # sequential early-return guards: an `if isinstance(...): ... return` earlier in the same block narrows later code
    rec(fn, [])
    return out
