"""C15 - allOf composition is the conjunction of its members."""
from __future__ import annotations

import ast
import copy
import itertools
import re
from typing import Any, Callable, Iterable, Iterator

from ..astutil import (ERROR_CLASSES, Locals, anon, call_name, calls_in, cfg_of, constructs_error, local_names, names_in, norm, receivers, region, resolved_text,
                       stmt_of, where)
from ..cfg import CFG, ENTRY, EXIT, walk_own
from ..domain import RAW, RAW_NONSTR
from ..core import Report

LEVEL = ("structural clauses on the region of merge_properties / _process_properties / _process_models, decided on paths (small symbolic "
         "execution over isinstance atoms, statement CFG), never on statement shape (a helper that is handed the classes it tests, that "
         "builds a result from arguments it does not test, or that is a predicate over isinstance tests is executed as part of each "
         "caller, with the classes of that call; a function that is handed a constant - a class, a record of strategies with its lambdas - is "
         "judged once for each constant, with record fields, constant tuples and lambda calls folded; a loop over a written-out sequence, "
         "also one held in a module constant, is unrolled): every merge function dispatches symmetrically in "
         "its two arguments, the class that is discarded at a merge site is the wider one (Any > number/string > integer > enum), the "
         "smaller enum wins and both subset directions are tried, incompatible pairs end in an error, the enum subset decision looks at "
         "values (what is compared is evaluated abstractly for two arguments of the enum class); requiredness is a disjunction, inline members' `required` lists are unioned on every path and reach every inserted "
         "property; all members contribute (Reference and inline, required and optional properties of a parent); parent properties are "
         "not mutated; every model of a round is processed, re-queued or reported, the error recorded for a re-queued model is dropped on "
         "every path between two rounds and not before the report, self-reference is diverted (separator-anchored test). "
         "Every value that can reach `default=` of a merged copy is None, the copy's own default or the override's default converted "
         "by the merged property, and a conversion error is returned before the copy is made; get_imports / get_lazy_imports are called "
         "for each element of an unfiltered iteration over all collected properties on every path of the iteration; no validator of "
         "Schema moves allOf away from its sibling keywords on a path on which the schema has a type (frozen exception: no type). "
         "Every store into the mapping of collected properties is dominated by a comparison of python names with everything collected. "
         "The allOf loops (one for both kinds of member or one for each, told apart by a decision or by a filter), the building loop, the "
         "insertions and the promotion of inherited properties are found by what they do, in _process_properties, a nested function or a "
         "helper that is handed its state or hands back its results; variables by role (alias classes over closures, arguments and "
         "returned tuples), never by name.")

# the order of the property statement: integer over number, formatted string over string, enum over its base type, anything over Any
WIDTH = {"AnyProperty": 3, "FloatProperty": 2, "StringProperty": 2, "IntProperty": 1}
MERGE_BASE_FN = "_merge_common_attributes"  # (base, *extend_with): the result has the class of `base`


# ======================================================================================================================
# a tiny symbolic executor for the (small, loop-poor) merge functions: which returns are reached under which truth values
# of the tests, with locals resolved to what they hold on that path.  Indifferent to elif / early return / nested if, to
# negated tests with swapped branches, to conditional expressions vs if statements and to the spelling of locals.
# ======================================================================================================================

class _State:
    def __init__(self, store: dict[str, ast.expr | None] | None = None, assume: dict[str, bool] | None = None) -> None:
        self.store: dict[str, ast.expr | None] = dict(store or {})
        self.assume: dict[str, bool] = dict(assume or {})

    def fork(self) -> "_State":
        return _State(self.store, self.assume)


class World:
    """what a symbolic execution may know beyond the function it executes: the constants of the module (a tuple of strategy records, a
    table) and the fields of record classes (NamedTuple / dataclass / attrs class without a constructor of its own).  Used to fold
    `<record>(field=X).field` to X, `<tuple constant>[0]` to its element, `(lambda p: E)(a)` to E[a/p] and to unroll a loop over a
    constant sequence: a decision that is parameterised by a constant is the decision for that constant."""

    def __init__(self, ix: Any, module: Any) -> None:
        self.ix, self.module = ix, module

    def const(self, name: str, depth: int = 0) -> ast.expr | None:
        r = self.ix.resolve(self.module, name)
        if r and r[0] == "var":
            mod, n = r[1]
            v = mod.variables[n]
            if isinstance(v, ast.Name) and depth < 3 and mod is self.module:
                return self.const(v.id, depth + 1) or v
            return v
        return None

    def record_fields(self, c: ast.Call) -> list[str] | None:
        r = self.ix.resolve(self.module, call_name(c))
        if r and r[0] == "class":
            k = r[1]
            if any(m in b.methods for b in self.ix.mro(k) for m in ("__init__", "__new__", "__attrs_post_init__", "__post_init__")):
                return None
            return list(self.ix.all_fields(k))
        return None


_STRUCTURED = (ast.Tuple, ast.List, ast.Dict, ast.Lambda, ast.Call)


class _Subst(ast.NodeTransformer):
    def __init__(self, store: dict[str, ast.expr | None], world: World | None = None) -> None:
        self.store = store
        self.world = world

    def visit_Name(self, n: ast.Name) -> ast.AST:
        if isinstance(n.ctx, ast.Load) and self.store.get(n.id) is not None:
            return copy.deepcopy(self.store[n.id])
        return n

    def _taken_apart(self, e: ast.expr) -> ast.expr:
        """a module constant that is taken apart here (a field / an element of it is read, it is called): what it is defined as"""
        if isinstance(e, ast.Name) and self.world is not None and e.id not in self.store:
            v = self.world.const(e.id)
            if isinstance(v, _STRUCTURED):
                return _Subst({}, self.world).visit(copy.deepcopy(v))
        return e

    def visit_Attribute(self, n: ast.Attribute) -> ast.AST:
        self.generic_visit(n)
        v = self._taken_apart(n.value)
        if isinstance(v, ast.Call) and self.world is not None and isinstance(n.ctx, ast.Load) and not any(isinstance(a, ast.Starred) for a in v.args) \
                and all(kw.arg for kw in v.keywords):
            fields = self.world.record_fields(v)
            if fields is not None and n.attr in fields:
                given = {**dict(zip(fields, v.args)), **{kw.arg: kw.value for kw in v.keywords}}
                if n.attr in given:
                    return given[n.attr]
        return n

    def visit_Subscript(self, n: ast.Subscript) -> ast.AST:
        self.generic_visit(n)
        v = self._taken_apart(n.value)
        k = n.slice
        if isinstance(n.ctx, ast.Load) and isinstance(k, ast.Constant):
            if isinstance(v, (ast.Tuple, ast.List)) and isinstance(k.value, int) and not isinstance(k.value, bool) and \
                    not any(isinstance(x, ast.Starred) for x in v.elts) and -len(v.elts) <= k.value < len(v.elts):
                return v.elts[k.value]
            if isinstance(v, ast.Dict) and all(isinstance(x, ast.Constant) for x in v.keys):
                hit = [val for key, val in zip(v.keys, v.values) if key.value == k.value and type(key.value) is type(k.value)]  # type: ignore[union-attr]
                if len(hit) == 1:
                    return hit[0]
        return n

    def visit_Call(self, n: ast.Call) -> ast.AST:
        self.generic_visit(n)
        if call_name(n).rsplit(".", 1)[-1] == "cast" and len(n.args) == 2:  # typing.cast is the identity at run time
            return n.args[1]
        f = self._taken_apart(n.func)
        if isinstance(f, ast.Lambda) and not n.keywords and not any(isinstance(a, ast.Starred) for a in n.args):
            a = f.args
            pos = [p.arg for p in [*a.posonlyargs, *a.args]]
            if not (a.vararg or a.kwarg or a.kwonlyargs or a.defaults) and len(pos) == len(n.args):
                return _Subst(dict(zip(pos, n.args))).visit(copy.deepcopy(f.body))  # the call of a lambda is its body, for these arguments
        return n


def _resolve(e: ast.expr, st: _State, world: World | None = None) -> ast.expr:
    return _Subst(st.store, world).visit(copy.deepcopy(e))


_NEG = {ast.IsNot: ast.Is, ast.NotEq: ast.Eq, ast.NotIn: ast.In}


class Follow:
    """the helper functions a symbolic execution steps into instead of treating their call as an opaque value:
    `value`: functions that test their arguments against classes they are handed as parameters (`isinstance(a, narrow)`) - what such a
             function decides is a fact of each call, not of the function, so it is decided in each caller with the classes of that call;
    `test`:  the same plus predicates (functions that return the truth value of isinstance tests on their arguments), where they are
             used as a test"""

    def __init__(self, value: dict[str, ast.FunctionDef] | None = None, test: dict[str, ast.FunctionDef] | None = None,
                 world: World | None = None) -> None:
        self.value = dict(value or {})
        self.test = {**(test or {}), **self.value}
        self.world = world  # constants that are folded while resolving (see World)


def _site(c: ast.Call) -> tuple[str, int, int]:
    """identifies a call in the source (survives the copies made while resolving locals)"""
    return call_name(c).rsplit(".", 1)[-1], getattr(c, "lineno", -1), getattr(c, "col_offset", -1)


def _bind_args(fn: ast.FunctionDef, c: ast.Call) -> dict[str, ast.expr] | None:
    """parameter -> argument expression (or default) of a call, None when the call cannot be matched to the signature statically"""
    a = fn.args
    if a.vararg or a.kwarg or any(isinstance(x, ast.Starred) for x in c.args) or any(kw.arg is None for kw in c.keywords):
        return None
    pos = [p.arg for p in [*a.posonlyargs, *a.args]]
    if len(c.args) > len(pos):
        return None
    out: dict[str, ast.expr] = dict(zip(pos, c.args))
    for p, d in zip(pos[len(pos) - len(a.defaults):], a.defaults):
        out.setdefault(p, d)
    for p, d in zip(a.kwonlyargs, a.kw_defaults):
        if d is not None:
            out.setdefault(p.arg, d)
    allowed = {p.arg for p in [*a.args, *a.kwonlyargs]}
    for kw in c.keywords:
        if kw.arg not in allowed or kw.arg in dict(zip(pos, c.args)):
            return None
        out[kw.arg] = kw.value
    return out if set(out) == {p.arg for p in [*a.posonlyargs, *a.args, *a.kwonlyargs]} else None


class SymExec:
    """terminals: (return statement or None for falling off the end, resolved return expression, state)"""

    def __init__(self, fn: ast.FunctionDef, env: dict[str, bool] | None = None, follow: Follow | None = None,
                 preset: dict[str, ast.expr] | None = None) -> None:
        self.fn = fn
        self.env = env or {}
        self.follow = follow
        self.world = follow.world if follow is not None else None
        self.followed: set[tuple[str, int, int]] = set()  # the calls that were stepped into
        self.bindings: list[tuple[str, dict[str, ast.expr]]] = []  # ... each with what its parameters were bound to (in the caller's terms)
        self.atoms: dict[str, ast.expr] = {}
        self.terminals: list[tuple[ast.stmt | None, ast.expr | None, _State]] = []
        self._sinks = [self.terminals]  # where a return / raise is recorded: the function itself, or the call that is being followed
        self._frames = [getattr(fn, "name", "")]
        self._loops: list[tuple[list[_State], list[_State]]] = []  # per enclosing unrolled loop: the states at `continue` / at `break`
        self.budget = 4000
        for st in self._seq(fn.body, [_State(dict(preset or {}))]):  # preset: parameters that are known constants in this execution
            self.terminals.append((None, None, st))

    def _res(self, e: ast.expr, st: _State) -> ast.expr:
        return _resolve(e, st, self.world)

    # -- calls that are followed into the callee -----------------------------------------------------------------------
    def _follow(self, call: ast.expr | None, st: _State, mode: str, pre: bool = False) -> list[tuple[ast.stmt | None, ast.expr, _State]] | None:
        """the outcomes of a call of a `Follow` function, executed with its parameters bound to the arguments of this call: (raise
        statement or None, what is returned - in the caller's terms -, state).  None: not such a call (the caller treats it as a value).
        `pre`: the argument expressions are already resolved."""
        if self.follow is None or not isinstance(call, ast.Call):
            return None
        callee = (self.follow.test if mode == "test" else self.follow.value).get(call_name(call))
        if callee is None or callee.name in self._frames or len(self._frames) > 3:
            return None
        bound = _bind_args(callee, call)
        if bound is None:
            return None
        self.followed.add(_site(call))
        saved = st.store
        inner = st.fork()
        inner.store = {p: (copy.deepcopy(v) if pre else self._res(v, st)) for p, v in bound.items()}
        self.bindings.append((callee.name, dict(inner.store)))
        sink: list[tuple[ast.stmt | None, ast.expr | None, _State]] = []
        self._sinks.append(sink)
        self._frames.append(callee.name)
        try:
            rest = self._seq(callee.body, [inner])
        finally:
            self._sinks.pop()
            self._frames.pop()
        out: list[tuple[ast.stmt | None, ast.expr, _State]] = []
        for s, e, s2 in sink + [(None, None, s2) for s2 in rest]:
            s2.store = dict(saved)  # the callee's locals end with the call
            out.append((s if isinstance(s, ast.Raise) else None, e if e is not None else ast.Constant(value=None), s2))
        return out

    def _returned(self, followed: list[tuple[ast.stmt | None, ast.expr, _State]]) -> list[tuple[ast.expr, _State]]:
        """the outcomes in which the followed call returns; one that raises ends the caller as well"""
        for rs, _, s2 in followed:
            if rs is not None:
                self._sinks[-1].append((rs, None, s2))
        return [(e, s2) for rs, e, s2 in followed if rs is None]

    # -- tests ---------------------------------------------------------------------------------------------------------
    def _truth(self, test: ast.expr, st: _State, pre: bool = False) -> list[tuple[bool, _State]]:
        """the possible truth values of test in state st, each with the state in which it holds (unknown atoms fork).  `pre`: test is
        already resolved (written in terms of the arguments), its names are not looked up again"""
        if isinstance(test, ast.BoolOp):
            is_and = isinstance(test.op, ast.And)
            out: list[tuple[bool, _State]] = []
            pending = [st]
            for v in test.values:
                nxt = []
                for s in pending:
                    for val, s2 in self._truth(v, s, pre):
                        if val != is_and:  # short circuit: a false conjunct / a true disjunct decides
                            out.append((val, s2))
                        else:
                            nxt.append(s2)
                pending = nxt
            return out + [(is_and, s) for s in pending]
        if isinstance(test, ast.UnaryOp) and isinstance(test.op, ast.Not):
            return [(not v, s) for v, s in self._truth(test.operand, st, pre)]
        if isinstance(test, ast.NamedExpr) and isinstance(test.target, ast.Name):
            followed = self._follow(test.value, st, "test", pre)
            if followed is not None:
                out = []
                for e, s2 in self._returned(followed):
                    s2.store[test.target.id] = e
                    out += self._truth(e, s2, True)
                return out
            st.store[test.target.id] = test.value if pre else self._res(test.value, st)
            return self._truth(test.value, st, pre)
        neg = False
        if isinstance(test, ast.Compare) and len(test.ops) == 1:
            sides = [test.left, test.comparators[0]]
            for i, part in enumerate(sides):  # walrus inside a comparison: `(m := f(x)) is not None`
                if isinstance(part, ast.NamedExpr) and isinstance(part.target, ast.Name):
                    followed = self._follow(part.value, st, "value", pre)
                    if followed is not None:
                        out = []
                        for e, s2 in self._returned(followed):
                            s2.store[part.target.id] = e
                            other = sides[1 - i] if pre else self._res(sides[1 - i], s2)
                            out += self._truth(ast.Compare(left=e if i == 0 else other, ops=test.ops, comparators=[other if i == 0 else e]), s2, True)
                        return out
                    st.store[part.target.id] = part.value if pre else self._res(part.value, st)
            if type(test.ops[0]) in _NEG:
                neg = True
                test = ast.Compare(left=test.left, ops=[_NEG[type(test.ops[0])]()], comparators=test.comparators)
        r = copy.deepcopy(test) if pre else self._res(test, st)
        for n in ast.walk(r):  # the walrus itself is not part of the atom
            if isinstance(n, ast.Compare):
                n.left = n.left.value if isinstance(n.left, ast.NamedExpr) else n.left
                n.comparators = [c.value if isinstance(c, ast.NamedExpr) else c for c in n.comparators]
        if isinstance(r, ast.Constant):
            return [(bool(r.value) != neg, st)]
        if isinstance(r, ast.Compare) and len(r.ops) == 1 and isinstance(r.ops[0], ast.Is) and isinstance(r.left, ast.Name) and \
                isinstance(r.comparators[0], ast.Name) and r.left.id == r.comparators[0].id:  # a local known to hold this very argument
            return [(True != neg, st)]
        if isinstance(r, ast.Compare) and len(r.ops) == 1 and isinstance(r.ops[0], (ast.Is, ast.Eq)) and isinstance(r.left, ast.Constant) and \
                isinstance(r.comparators[0], ast.Constant):  # a local known to hold None / a literal on this path
            same = r.left.value is r.comparators[0].value if isinstance(r.ops[0], ast.Is) else r.left.value == r.comparators[0].value
            return [(bool(same) != neg, st)]
        if isinstance(r, (ast.BoolOp, ast.UnaryOp)) and not pre and norm(r) != norm(test):
            return [(v != neg, s) for v, s in self._truth(r, st, True)]  # a local that holds a boolean expression
        followed = self._follow(r, st, "test", True)
        if followed is not None:  # a predicate over the arguments: true exactly when what it returns is
            return [(v != neg, s3) for e, s2 in self._returned(followed) for v, s3 in self._truth(e, s2, True)]
        key = norm(r)
        self.atoms.setdefault(key, r)
        if key in self.env:
            return [(self.env[key] != neg, st)]
        if key in st.assume:
            return [(st.assume[key] != neg, st)]
        a, b = st.fork(), st.fork()
        a.assume[key], b.assume[key] = True, False
        return [(True != neg, a), (False != neg, b)]

    # -- statements ----------------------------------------------------------------------------------------------------
    def _seq(self, body: list[ast.stmt], states: list[_State]) -> list[_State]:
        cur = states
        for s in body:
            nxt: list[_State] = []
            for st in cur:
                nxt += self._stmt(s, st)
            cur = nxt
            if not cur:
                break
        return cur

    def _bind(self, target: ast.expr, value: ast.expr | None, st: _State, pre: bool = False) -> None:
        def res(v: ast.expr) -> ast.expr:
            return v if pre else self._res(v, st)

        if isinstance(target, ast.Name):
            st.store[target.id] = res(value) if value is not None else None
        elif isinstance(target, (ast.Tuple, ast.List)):
            if isinstance(value, (ast.Tuple, ast.List)) and len(value.elts) == len(target.elts):
                vals = [res(v) for v in value.elts]
                for t, v in zip(target.elts, vals):
                    if isinstance(t, ast.Name):
                        st.store[t.id] = v
            else:
                for n in names_in(target):
                    st.store[n] = None

    def _assign(self, targets: list[ast.expr], value: ast.expr, st: _State) -> list[_State]:
        if isinstance(value, ast.IfExp):  # x = A if T else B  ==  if T: x = A else: x = B
            out: list[_State] = []
            for val, s2 in self._truth(value.test, st):
                out += self._assign(targets, value.body if val else value.orelse, s2)
            return out
        followed = self._follow(value, st, "value")
        if followed is not None:  # x = helper(...): one state for each way the helper returns
            out = []
            for e, s2 in self._returned(followed):
                for t in targets:
                    self._bind(t, e, s2, pre=True)
                out.append(s2)
            return out
        for t in targets:
            self._bind(t, value, st)
        return [st]

    def _ret(self, s: ast.Return, value: ast.expr | None, st: _State) -> None:
        if isinstance(value, ast.IfExp):  # return A if T else B
            for val, s2 in self._truth(value.test, st):
                self._ret(s, value.body if val else value.orelse, s2)
            return
        followed = self._follow(value, st, "value")
        if followed is not None:  # return helper(...): returns whatever the helper returns
            for e, s2 in self._returned(followed):
                self._sinks[-1].append((s, e, s2))
        else:
            self._sinks[-1].append((s, self._res(value, st) if value is not None else None, st))

    def _stmt(self, s: ast.stmt, st: _State) -> list[_State]:
        self.budget -= 1
        if self.budget < 0:
            raise RuntimeError("symbolic execution budget exceeded")
        if isinstance(s, ast.Return):
            self._ret(s, s.value, st)
            return []
        if isinstance(s, (ast.Raise, ast.Continue, ast.Break)):
            if isinstance(s, ast.Raise):
                self._sinks[-1].append((s, None, st))
            elif self._loops:
                self._loops[-1][isinstance(s, ast.Break)].append(st)
            return []
        if isinstance(s, ast.If):
            out: list[_State] = []
            for val, s2 in self._truth(s.test, st):
                out += self._seq(s.body if val else s.orelse, [s2])
            return out
        if isinstance(s, (ast.Assign, ast.AnnAssign)) and getattr(s, "value", None) is not None:
            targets = s.targets if isinstance(s, ast.Assign) else [s.target]
            return self._assign(targets, s.value, st)
        if isinstance(s, ast.AugAssign):
            for n in names_in(s.target):
                st.store[n] = None
            return [st]
        if isinstance(s, ast.For):
            seq = self._res(s.iter, st)
            if self.world is not None:  # a module constant that is a written-out sequence (a tuple of strategies) is that sequence
                seq = _Subst(st.store, self.world)._taken_apart(seq)
            if isinstance(seq, (ast.Tuple, ast.List)) and 0 < len(seq.elts) <= 4 and not any(isinstance(x, ast.Starred) for x in seq.elts):
                cur, done = [st], []  # a loop over a sequence that is written out is its iterations one after the other
                for elt in seq.elts:
                    self._loops.append(([], []))
                    nxt: list[_State] = []
                    for c in cur:
                        self._bind(s.target, elt, c, pre=True)
                        nxt += self._seq(s.body, [c])
                    continued, broken = self._loops.pop()
                    cur, done = nxt + continued, done + broken
                return self._seq(s.orelse, cur) + done
        if isinstance(s, (ast.For, ast.AsyncFor, ast.While)):
            bound = {n.id for x in ast.walk(s) for n in [x] if isinstance(n, ast.Name) and isinstance(n.ctx, ast.Store)}
            inner = st.fork()
            for n in bound:
                inner.store[n] = None
                st.store[n] = None
            self._loops.append(([], []))
            after = self._seq(s.body, [inner])  # one symbolic iteration (returns inside are terminals), or none at all
            self._loops.pop()
            return [st] + after[:1]
        if isinstance(s, (ast.With, ast.AsyncWith)):
            return self._seq(s.body, [st])
        if isinstance(s, ast.Try):
            return self._seq(s.body + s.orelse + s.finalbody, [st])
        return [st]


def _type_names(ix: Any, module: Any, e: ast.expr, depth: int = 0) -> frozenset[str]:
    """class names of the second argument of isinstance (tuples and module-level tuple constants expanded)"""
    if isinstance(e, ast.Tuple):
        return frozenset().union(*[_type_names(ix, module, x, depth) for x in e.elts]) if e.elts else frozenset()
    if isinstance(e, ast.Name) and depth < 4:
        r = ix.resolve(module, e.id)
        if r and r[0] == "var":
            mod, n = r[1]
            return _type_names(ix, mod, mod.variables[n], depth + 1)
    return frozenset({norm(e).rsplit(".", 1)[-1]})


def _isinstance_atom(ix: Any, module: Any, e: ast.AST, params: list[str]) -> tuple[str, frozenset[str]] | None:
    if isinstance(e, ast.Call) and call_name(e) == "isinstance" and len(e.args) == 2 and isinstance(e.args[0], ast.Name) and e.args[0].id in params:
        return e.args[0].id, _type_names(ix, module, e.args[1])
    return None


class MergeFn:
    """one two-argument merge function, executed under every truth assignment of its isinstance(<argument>, T) tests"""

    def __init__(self, ix: Any, f: Any, follow: Follow | None = None, preset: dict[str, ast.expr] | None = None) -> None:
        self.f = f
        # preset: the function as it is called with these constants for its further parameters (a record of strategies, a class): a
        # specialisation, judged like a function of its own
        self.preset = dict(preset or {})
        self.name = f.name + (f"[{','.join(_const_label(v) for _, v in sorted(self.preset.items()))}]" if self.preset else "")
        a = f.node.args
        self.params = [p.arg for p in [*a.posonlyargs, *a.args]][:2]
        self.atoms: dict[str, tuple[str, frozenset[str]]] = {}
        self.runs: list[tuple[dict[str, bool], SymExec]] = []
        self.followed: set[tuple[str, int, int]] = set()  # calls of Follow functions that were decided as part of this function
        self.bindings: list[tuple[str, dict[str, ast.expr]]] = []  # ... with what the parameters of the callee were bound to
        seen: set[str] = set()
        for _ in range(3):  # atoms on a local appear once the local is resolved (enum_prop -> prop1 when prop1 is the enum)
            probes = [SymExec(f.node, None, follow, self.preset)] + [r for _, r in self.runs]
            for p in probes:
                for key, e in p.atoms.items():
                    at = _isinstance_atom(ix, f.module, e, self.params)
                    if at is not None:
                        self.atoms[key] = at
            if set(self.atoms) == seen or len(self.atoms) > 10:
                break
            seen = set(self.atoms)
            self.runs = []
            keys = sorted(self.atoms)
            for vals in itertools.product([False, True], repeat=len(keys)):
                env = dict(zip(keys, vals))
                self.runs.append((env, SymExec(f.node, env, follow, self.preset)))
        if not self.runs:  # no isinstance test on the arguments: one run, nothing is known about them
            self.runs = [({}, SymExec(f.node, {}, follow, self.preset))]
        for _, r in self.runs:
            self.followed |= r.followed
            self.bindings += r.bindings

    def is_call_of_me(self, c: ast.Call, caller_params: list[str]) -> bool:
        """c (resolved: written in terms of the caller's arguments and constants) calls this function - this specialisation of it - with
        the caller's two arguments in the same order"""
        if call_name(c).rsplit(".", 1)[-1] != self.f.name:
            return False
        bound = _bind_args(self.f.node, c)
        if bound is None:
            return not self.preset and [norm(a) for a in c.args[:2]] == caller_params
        return [norm(bound.get(p)) for p in self.params] == caller_params and all(norm(bound.get(p)) == norm(v) for p, v in self.preset.items())

    def restrict_to_calls_from(self, caller: "MergeFn") -> None:
        """keep the truth assignments under which `caller` can call this function with its own two arguments in the same order (the callee
        may rely on what the caller has established, e.g. `one of the two is an enum`)"""
        if len(self.params) < 2 or len(caller.params) < 2:
            return
        ren = dict(zip(caller.params, self.params))

        def to_callee(text: str) -> str:
            return re.sub(r"\b(" + "|".join(map(re.escape, ren)) + r")\b", lambda m: ren[m.group(1)], text)

        shared = {k: to_callee(k) for k in caller.atoms if to_callee(k) in self.atoms}
        seen_call = False
        allowed: set[tuple[tuple[str, bool], ...]] = set()
        for env, r in caller.runs:
            for s, e, st in r.terminals:
                exprs = ([e] if e is not None else []) + [r.atoms[k] for k in st.assume if k in r.atoms]
                for c in (c for x in exprs for c in calls_in(x)):
                    if self.is_call_of_me(c, caller.params):
                        seen_call = True
                        allowed.add(tuple(sorted((shared[k], v) for k, v in env.items() if k in shared)))
        if seen_call:
            self.runs = [(env, r) for env, r in self.runs if tuple(sorted((k, v) for k, v in env.items() if k in shared.values())) in allowed]

    def swap_text(self, text: str) -> str:
        if len(self.params) < 2:
            return text
        a, b = self.params
        return re.sub(rf"\b({re.escape(a)}|{re.escape(b)})\b", lambda m: b if m.group(1) == a else a, text)

    def classes_of(self, env: dict[str, bool], st: _State, param: str) -> frozenset[str] | None:
        """the classes the argument can be an instance of on this path, as far as its isinstance tests say (None: nothing is known)"""
        yes = [ts for key, (p, ts) in self.atoms.items() if p == param and env.get(key, st.assume.get(key)) is True]
        no = [ts for key, (p, ts) in self.atoms.items() if p == param and env.get(key, st.assume.get(key)) is False]
        if not yes:
            return None
        return frozenset.intersection(*yes) - (frozenset().union(*no) if no else frozenset())


def _const_label(e: ast.expr) -> str:
    """a short name for a constant a function is specialised for: the class it names"""
    names = [n.id for n in ast.walk(e) if isinstance(n, ast.Name) and n.id[:1].isupper()] + \
            [n.attr for n in ast.walk(e) if isinstance(n, ast.Attribute) and n.attr[:1].isupper()]
    ctor = call_name(e).rsplit(".", 1)[-1] if isinstance(e, ast.Call) else ""
    names = [n for n in names if n != ctor]
    return names[0] if names else norm(e)[:30]


def _descr(e: ast.expr | None, params: list[str]) -> str:
    """what a return hands back, as far as dispatch is concerned: the callee, an error, an argument as it is, None"""
    if e is None or (isinstance(e, ast.Constant) and e.value is None):
        return "None"
    if constructs_error(e) and isinstance(e, ast.Call):
        return "<error>"
    if isinstance(e, ast.Call):
        return call_name(e)
    if isinstance(e, ast.Name) and e.id in params:
        return "<argument>"
    return "<value>"


def _base_param(e: ast.expr, params: list[str]) -> str | None:
    """the argument whose class the result has: evolve(x, ...) keeps the class of x"""
    while isinstance(e, ast.Call) and call_name(e).rsplit(".", 1)[-1] == "evolve" and e.args:
        e = e.args[0]
    return e.id if isinstance(e, ast.Name) and e.id in params else None


def _not_wider(cb: frozenset[str] | None, co: frozenset[str] | None) -> bool:
    """whatever the two arguments are on this path, the class that is kept is the other one's class or a narrower one"""
    if co is not None and co <= {"AnyProperty"}:
        return True  # nothing is wider than Any
    if cb is None or co is None:
        return False
    return all(x == y or WIDTH.get(x, 0) < WIDTH.get(y, 0) for x in cb for y in co)


_SUBSET_OPS = (ast.LtE, ast.Lt, ast.GtE, ast.Gt)


def _subset_direction(ix: Any, mf: MergeFn, e: ast.AST, depth: int = 2) -> tuple[str, str, list[tuple[ast.expr, ast.expr]]] | None:
    """(smaller, larger, [(what is compared for the smaller, for the larger)]) when e - written in terms of the two arguments - decides
    whether what one argument has is contained in what the other has: `A(a) <= A(b)`, `A(a).issubset(A(b))`, or the call of a helper of
    the region that is handed (a, b) and compares so itself (a helper that compares in more than one place - one for each kind of
    argument - gives all of them; they must agree on the direction)"""
    p = set(mf.params)

    def one(x: ast.AST) -> str | None:
        got = names_in(x) & p
        return next(iter(got)) if len(got) == 1 else None

    pair: tuple[ast.expr, ast.expr] | None = None
    if isinstance(e, ast.Compare) and len(e.ops) == 1 and isinstance(e.ops[0], _SUBSET_OPS):
        l, r = e.left, e.comparators[0]
        pair = (l, r) if isinstance(e.ops[0], (ast.LtE, ast.Lt)) else (r, l)
    elif isinstance(e, ast.Call) and isinstance(e.func, ast.Attribute) and e.func.attr in ("issubset", "issuperset") and len(e.args) == 1:
        pair = (e.func.value, e.args[0]) if e.func.attr == "issubset" else (e.args[0], e.func.value)
    if pair is not None:
        small, large = one(pair[0]), one(pair[1])
        return (small, large, [pair]) if small and large and small != large else None
    if isinstance(e, ast.Call) and depth > 0 and sum(1 for a in e.args if one(a)) >= 2:
        for h in region(ix, mf.f, 1):
            if h.name == call_name(e).rsplit(".", 1)[-1] and h is not mf.f:
                bound = _bind_args(h.node, e)
                found = [d for c in ast.walk(h.node) if bound is not None and isinstance(c, (ast.Compare, ast.Call))
                         for d in [_subset_direction(ix, mf, _Subst(bound).visit(copy.deepcopy(c)), 0)] if d is not None]  # type: ignore[arg-type]
                if found and len({(d[0], d[1]) for d in found}) == 1:
                    return found[0][0], found[0][1], [pr for d in found for pr in d[2]]
    return None


def _subset_tests(ix: Any, mf: MergeFn) -> dict[str, tuple[str, str, list[tuple[ast.expr, ast.expr]]]]:
    """the tests of the function (as its paths see them: locals, constants and lambdas resolved) that decide containment between what the
    two arguments have, by the key under which a path records their outcome"""
    out: dict[str, tuple[str, str, list[tuple[ast.expr, ast.expr]]]] = {}
    for _, r in mf.runs:
        for key, e in r.atoms.items():
            if key not in out:
                d = _subset_direction(ix, mf, e)
                if d is not None:
                    out[key] = d
    return out


# ======================================================================================================================

def run(rep: Report, ctx: Any) -> str:
    ix = ctx.py
    it, _ = ctx.flow
    cfgs: dict[str, CFG] = {}
    rep.rule("R15.1", "merge is order-symmetric: every merge function takes the same decision when its two arguments are exchanged; where "
                      "one argument's class is discarded it is the wider one (Any > number/string > integer > enum); of two enums the "
                      "subset wins, both directions are tried and the decision compares values; pairs that fit no rule end in an error")
    rep.rule("R15.2", "requiredness only grows: `required` of a merge is a disjunction; inline members' required lists are unioned on "
                      "every path; every property inserted into the composed model takes its requiredness from required_set")
    rep.rule("R15.3", "all members contribute: data.properties and every element of data.allOf, Reference and inline Schema")
    rep.rule("R15.4", "parents first: a model that failed is re-queued or reported, never dropped; self reference is diverted to final errors")
    rep.rule("R15.5", "properties inherited from a referenced parent are shared objects and are not mutated while composing a child")

    rep.rule("R15.6", "the default of a merged property is one the merged (narrowed) property accepts, or a diagnostic: every value that can reach "
                      "`default=` of the merged copy is None, the default the copy already has, or the override's default converted by the "
                      "merged property itself; a conversion error is returned before the copy is made")
    rep.rule("R15.7", "every property of the composed model, inherited ones included, contributes what its code needs: get_imports and "
                      "get_lazy_imports are called on each element of an iteration over all collected properties, on every path of the iteration")

    rep.rule("R15.8", "a composed schema reaches the composition whole: no validator of Schema takes `allOf` away from the keywords written "
                      "next to it (properties, required) on a path on which the schema has a `type` - such a schema is made nullable through "
                      "its type - nor, for a schema without `type`, on any path at all")

    rep.rule("R15.9", "no property of a member is displaced by another one: every store into the mapping that collects the properties of the "
                      "composed model - of a new, an inherited or a merged property alike - comes, on every path, after the stored property has been "
                      "compared by python name with the properties collected so far (two properties under one python name are one attribute of the "
                      "generated class: one member's property is neither accepted nor emitted)")

    mp = ix.func("merge_properties.merge_properties")
    _merge_rules(rep, ctx, mp)
    _required_and_members(rep, ctx, cfgs)
    check_no_parent_mutation(rep, ctx, "R15.5")
    _parents_first(rep, ctx, cfgs)
    _merged_default(rep, ctx, cfgs)
    _imports_of_every_property(rep, ctx, cfgs)
    _python_names_compared(rep, ctx, cfgs)
    _composed_schema_stays_whole(rep, ctx, cfgs)
    from . import determinants

    rep.rule("R15.10", "narrowing keeps the default honest: where the merge of two members copies a property with another class / table of "
                       "values / value type (the fields its convert_value reads), the default is given anew in the same call and converted "
                       "again by the narrowed property - an inherited default is not kept as converted for the wider one (shared with C13 R13.9)")
    rep.floor("copies_that_replace_default_determinants", determinants.check(rep, ctx, "R15.10"), 1)
    determinants.control(rep, "R15.10")
    from . import registries

    rep.rule("R15.11", "the class that is generated for a narrowed enum is the one the merge chose: the merged property names its class "
                       "(class_info, taken from the same declaration as the values) and the class is generated from what is registered under "
                       "that name, so under one class name only one list of values is ever registered - a second declaration under the "
                       "name of a registered enum with other values (two members of one allOf that declare the same inline enum property "
                       "differently) is a diagnostic, not a silent replacement (shared with C07 R07.4 / C09 R09.3)")
    rep.floor("enum_registrations_judged", registries.check_enum_name_identifies_values(rep, ctx, "R15.11"), 2)
    return LEVEL


def _composition(ix: Any) -> tuple[Any, Any, list[Any], list[Any]]:
    """(entry, home, region, nested): _process_properties; the function of its region in which the state of the composition lives; the
    functions of the region (private helpers it calls, methods of the private records they make) and the functions nested in these.
    The home is where the mapping that collects the properties of the composed model is created: _process_properties itself, or - when it
    only hands on to a function that does the work (and, say, converts how that one reports failure) - that function.  Variables are named
    as the home names them; a helper that is handed them, sees them as a closure or hands them back knows them by alias."""
    entry = ix.func("model_property._process_properties")
    got = _COMPOSITION.get(entry.qual)
    if got is None or got[0] is not entry.node:
        reg = _with_record_methods(ix, region(ix, entry))
        nested = [h for h in ix.all_functions if h.parent is not None and any(_encloses(g, h) for g in reg)]
        _COMPOSITION[entry.qual] = got = (entry.node, (entry, _state_owner(entry, reg + nested), reg, nested))
    e, home, reg, nested = got[1]
    return e, home, list(reg), list(nested)


_COMPOSITION: dict[str, tuple[Any, tuple[Any, Any, list[Any], list[Any]]]] = {}


def _state_owner(entry: Any, funcs: list[Any]) -> Any:
    """the function that creates (binds by an assignment of its own) the mapping the functions of the region store properties into"""
    al = Aliases([entry, *funcs])
    by_qual = {f.qual: f for f in [entry, *funcs]}
    owners: list[Any] = []
    for outward in (True, False):  # a store made by a function that was handed the mapping says most; else any store
        for g in by_qual.values():
            for n in _own_nodes(g.node):
                for var in _store_targets(n, local_names(g.node) if outward else set()):
                    base = var.split(".", 1)[0]
                    al.up.setdefault((g.qual, base), (g.qual, base))
                    root = al._find((g.qual, base))
                    for (q, name) in list(al.up):
                        f = by_qual.get(q)
                        if f is not None and "." not in name and al._find((q, name)) == root and \
                                any(isinstance(x, ast.Name) and isinstance(x.ctx, ast.Store) and x.id == name for x in _own_nodes(f.node)) and \
                                name not in {x for y in _own_nodes(f.node) if isinstance(y, (ast.Nonlocal, ast.Global)) for x in y.names} and \
                                f not in owners:
                            owners.append(f)
        if owners:
            break
    if not owners or any(f.qual == entry.qual for f in owners):
        return entry
    outer = [f for f in owners if not any(_encloses(o, f) for o in owners)]
    return outer[0]


def check_no_parent_mutation(rep: Report, ctx: Any, rid: str) -> None:
    """property objects inherited from a referenced parent are shared: never mutated while composing a child (C15 / C02)"""
    ix = ctx.py
    _, pp, reg, _ = _composition(ix)
    funcs = _unique(reg)
    found = _find_allof_loop(pp, funcs)
    decision = _find_member_decision(found[1], found[2]) if found else None
    at = where(found[0], decision[0]) if found and decision else where(pp, pp.node)  # where the rule looks when there is nothing to report
    muts: list[tuple[Any, ast.AST]] = []
    n_each = 0
    # every function of the region is looked at on its own: what it iterates over (statement loops and comprehensions alike) are the
    # property objects of the composed model, inherited ones included
    for g in funcs:
        each = {norm(n.target) for n in ast.walk(g.node) if isinstance(n, (ast.For, ast.AsyncFor, ast.comprehension))}
        n_each += len(each)
        for n in ast.walk(g.node):
            if isinstance(n, ast.Call) and call_name(n) in ("object.__setattr__", "setattr") and n.args and norm(n.args[0]) in each:
                muts.append((g, n))
            if isinstance(n, (ast.Assign, ast.AugAssign, ast.AnnAssign)):
                tg = n.targets if isinstance(n, ast.Assign) else [n.target]
                if any(isinstance(t, ast.Attribute) and norm(t.value) in each for t in tg):
                    muts.append((g, n))
            if isinstance(n, ast.Call) and isinstance(n.func, ast.Attribute) and n.func.attr.startswith("set_") and norm(n.func.value) in each:
                muts.append((g, n))
    rep.require(n_each, "iteration over property objects in the region of _process_properties")
    texts = sorted({norm(m)[:60] for _, m in muts})
    rep.check(not muts, rid, "_process_properties::parent-properties-not-mutated",
              f"a property object shared with the referenced parent model is mutated while composing the child ({texts}): "
              "the change leaks into the parent class", where(*muts[0]) if muts else at,
              lhs=texts, rhs="no mutation of inherited property objects")


def _unique(fs: list[Any]) -> list[Any]:
    """functions of a region, a nested function only through the function that contains it (its statements are walked with that one)"""
    once = list({f.qual: f for f in fs}.values())
    return [f for f in once if not any(_encloses(o, f) for o in once)]


def _encloses(outer: Any, f: Any) -> bool:
    p = f.parent
    while p is not None:
        if p.qual == outer.qual:
            return True
        p = p.parent
    return False


def _find_allof_loops(pp: Any, funcs: list[Any]) -> list[tuple[Any, ast.For, str]]:
    """(function, loop, member variable): the loops over the members of data.allOf - directly or over a local that holds them, in
    _process_properties or in a function of its region that is handed the schema - whatever the member variable is called.  One loop may
    deal with both kinds of member, or each kind may have a loop of its own."""
    out = []
    for f in [pp] + [g for g in funcs if g is not pp]:
        pat = r"\bdata\.allOf\b" if f is pp else r"\b\w+\.allOf\b"
        for n in ast.walk(f.node):
            if isinstance(n, ast.For) and re.search(pat, resolved_text(n.iter, f.node)):
                out.append((f, n, norm(n.target)))
    return out


def _find_allof_loop(pp: Any, funcs: list[Any]) -> tuple[Any, ast.For, str] | None:
    found = _find_allof_loops(pp, funcs)
    return found[0] if found else None


def _find_member_decision(loop: ast.For, member: str) -> tuple[ast.If, bool] | None:
    """the statement of the allOf loop that decides between Reference and inline members, and whether its test holds for a Reference
    (`isinstance(m, Reference)` or `not isinstance(m, Reference)` with the branches exchanged are the same decision)"""
    is_ref, is_schema = _kind_tests(member)
    for s in ast.walk(loop):
        if isinstance(s, ast.If):
            pol = _polarity(s.test, is_ref)
            if pol is not None:
                return s, pol
            pol = _polarity(s.test, is_schema)  # a member is a Reference or an inline Schema: the same decision, seen from the other side
            if pol is not None:
                return s, not pol
    return None


# ======================================================================================================================
# R15.1
# ======================================================================================================================

def _feasible(mf: MergeFn, env: dict[str, bool]) -> bool:
    """isinstance is monotone in the type set: an instance of T1 is an instance of every T2 that contains T1"""
    for k1, (p1, t1) in mf.atoms.items():
        for k2, (p2, t2) in mf.atoms.items():
            if p1 == p2 and t1 <= t2 and env.get(k1) and env.get(k2) is False:
                return False
    return True


def _same_object_assumed(mf: MergeFn, run: SymExec, st: _State) -> bool:
    """on this path `<one argument> is <the other>` holds"""
    for key, val in st.assume.items():
        e = run.atoms.get(key)
        if val and isinstance(e, ast.Compare) and len(e.ops) == 1 and isinstance(e.ops[0], ast.Is):
            sides = [e.left, e.comparators[0]]
            if all(isinstance(s, ast.Name) for s in sides) and {s.id for s in sides} == set(mf.params):  # type: ignore[attr-defined]
                return True
    return False


def _same_class_assumed(mf: MergeFn, run: SymExec, st: _State) -> bool:
    if _same_object_assumed(mf, run, st):
        return True
    for key, val in st.assume.items():
        e = run.atoms.get(key)
        if val and isinstance(e, ast.Compare) and isinstance(e.ops[0], ast.Is):
            sides = [e.left, e.comparators[0]]
            if all(isinstance(s, ast.Call) and call_name(s) == "type" and len(s.args) == 1 and isinstance(s.args[0], ast.Name) for s in sides) and \
                    {s.args[0].id for s in sides} == set(mf.params):  # type: ignore[union-attr]
                return True
    return False


def _merge_terminals(mf: MergeFn) -> Iterator[tuple[dict[str, bool], SymExec, ast.stmt, ast.Call, _State]]:
    for env, r in mf.runs:
        if not _feasible(mf, env):
            continue
        for s, e, st in r.terminals:
            if s is not None and isinstance(e, ast.Call) and call_name(e) == MERGE_BASE_FN and e.args:
                yield env, r, s, e, st


def _descrs(mf: MergeFn, r: SymExec) -> set[str]:
    return {_descr(e, mf.params) if s is not None and not isinstance(s, ast.Raise) else ("<raise>" if s is not None else "<falls off>")
            for s, e, _ in r.terminals}


def _referenced_region(ix: Any, f: Any, depth: int = 3, stop_at: tuple[str, ...] = ()) -> list[Any]:
    """f and the private functions of its module it refers to, called directly or handed around as values (a table of strategies, the
    step function of a fold); the functions named in `stop_at` are part of the region, what only they refer to is not"""
    out, seen, frontier = [f], {f.qual}, [f]
    for _ in range(depth):
        nxt = []
        for g in frontier:
            if g.name in stop_at and g is not f:
                continue  # what lies behind this function is its business, not the business of those that call it
            used = {n.id for n in ast.walk(g.node) if isinstance(n, ast.Name) and isinstance(n.ctx, ast.Load) and n.id.startswith("_")}
            for h in ix.all_functions:
                if h.name in used and h.qual not in seen and h.module is g.module and h.cls is None and h.parent is None:
                    seen.add(h.qual)
                    out.append(h)
                    nxt.append(h)
        frontier = nxt
    return out


def _is_truth_value(e: ast.expr | None, predicates: Iterable[str] = ()) -> bool:
    """the expression is a truth value computed by tests (not one of the objects that are tested)"""
    if isinstance(e, ast.BoolOp):
        return all(_is_truth_value(v, predicates) for v in e.values)
    if isinstance(e, ast.UnaryOp):
        return isinstance(e.op, ast.Not)
    if isinstance(e, ast.Constant):
        return isinstance(e.value, bool)
    if isinstance(e, ast.Call):
        return call_name(e) in ("isinstance", "issubclass", "any", "all", "bool") or call_name(e) in predicates
    return isinstance(e, ast.Compare)


def _followed_helpers(reg: list[Any], dispatcher: Any, world: World | None = None) -> tuple[Follow, set[str]]:
    """(the functions of the region that are judged inside their callers, the predicates among them).
    - A function that tests an argument against a class it receives as a parameter has no verdict of its own: which class is kept and
      which is discarded is a fact of each call.  It is executed as part of every function that calls it, with that call's classes.
    - Likewise a function that builds a merge result (MERGE_BASE_FN) without testing the class of any of its arguments: what it is handed
      is known to the caller only.
    - A predicate (returns the truth value of isinstance tests on its arguments) contributes what it tests to the function that asks."""
    value: dict[str, ast.FunctionDef] = {}
    preds: dict[str, ast.FunctionDef] = {}
    for untested in (False, True):  # who tests what must be settled (predicates followed) before a function counts as testing nothing
        for _ in range(3):  # a helper that only hands on to such a helper is one itself
            before = (set(value), set(preds))
            follow = Follow(value, preds, world)
            for f in reg:
                if f.name in value or f is dispatcher or f.name == MERGE_BASE_FN:
                    continue
                own = {p.arg for p in f.params}
                run = SymExec(f.node, None, follow)
                seen = [*run.atoms.values(), *[c for _, e, _ in run.terminals if e is not None for c in calls_in(e)]]  # tested, or returned as the answer
                tests = [e for e in seen if isinstance(e, ast.Call) and call_name(e) == "isinstance" and len(e.args) == 2]
                tests_own = any(isinstance(e.args[0], ast.Name) and e.args[0].id in own for e in tests)
                builds = any(isinstance(e, ast.Call) and call_name(e) == MERGE_BASE_FN for _, e, _ in run.terminals)
                if any(names_in(e.args[1]) & own for e in tests) or (untested and builds and not tests_own):
                    value[f.name] = f.node
                    preds.pop(f.name, None)
                elif tests_own and run.terminals and all(isinstance(s, ast.Return) and _is_truth_value(e, follow.test) for s, e, _ in run.terminals):
                    preds[f.name] = f.node
            if (set(value), set(preds)) == before:
                break
    return Follow(value, preds, world), set(preds)


def _decided_in_callers(reg: list[Any], name: str, followed: set[tuple[str, int, int]]) -> bool:
    """every mention of the function in the region is a call that was executed as part of its caller"""
    n_refs = 0
    for f in reg:
        call_of = {id(c.func): c for c in calls_in(f.node)}
        for n in ast.walk(f.node):
            if isinstance(n, ast.Name) and isinstance(n.ctx, ast.Load) and n.id == name:
                n_refs += 1
                if id(n) not in call_of or _site(call_of[id(n)]) not in followed:
                    return False
    return n_refs > 0


def _merge_rules(rep: Report, ctx: Any, mp: Any) -> None:
    ix = ctx.py
    it, _ = ctx.flow
    # the functions that choose between the two declarations: from merge_properties down to the function that applies overrides to the
    # declaration that was chosen as the base.  That one - with whatever it is made of - is asymmetric by contract (the result has the class
    # of `base`); what it does with each override is the subject of R15.2 / R15.6, which side is handed to it as the base is decided here
    reg = _referenced_region(ix, mp, stop_at=(MERGE_BASE_FN,))
    world = World(ix, mp.module)
    follow, predicates = _followed_helpers(reg, mp, world)
    two_args = [f for f in reg if len([*f.node.args.posonlyargs, *f.node.args.args]) >= 2 and f.node.args.vararg is None]

    def judged(follow: Follow, special: dict[str, list[dict[str, ast.expr]]]) -> tuple[list[MergeFn], set[str]]:
        fns = [MergeFn(ix, f, follow) for f in two_args if f.name not in special]
        fns += [MergeFn(ix, f, follow, preset) for f in two_args for preset in special.get(f.name, [])]
        # a function without isinstance tests on its arguments decides nothing about classes; a predicate returns no merge result (its tests
        # count where it is asked)
        fns = [m for m in fns if (m.atoms or m.f.name in follow.value) and m.f.name not in predicates]
        # a function that is handed the classes it tests (or builds a result from arguments it does not test) is judged in its callers, with
        # what each call knows; on its own only when a mention of it was not executed as part of a function that is judged here - then the
        # classes are unknown and the clauses say so
        decided: set[tuple[str, int, int]] = set().union(*[m.followed for m in fns if m.f.name not in follow.test])
        in_callers = {g for g in follow.value if _decided_in_callers(reg, g, decided)}
        return fns, in_callers

    fns, in_callers = judged(follow, {})
    # a function that is handed its classes as constants (the same two arguments as its caller, plus a class / a record of strategies written
    # out in the module) is that many functions: one for each constant it is called with, each judged like a function of its own
    special: dict[str, list[dict[str, ast.expr]]] = {}
    for g in sorted(in_callers):
        gf = next(f for f in two_args if f.name == g) if any(f.name == g for f in two_args) else None
        calls = [(m, b) for m in fns if m.f.name not in follow.test for callee, b in m.bindings if callee == g]
        if gf is None or not calls:
            continue
        gp = [p.arg for p in [*gf.node.args.posonlyargs, *gf.node.args.args]]
        rest = [p.arg for p in [*gf.node.args.posonlyargs, *gf.node.args.args, *gf.node.args.kwonlyargs]][2:]

        def closed(m: MergeFn, e: ast.expr | None) -> bool:
            return e is not None and not (names_in(e) & (set(m.params) | local_names(m.f.node) | {p.arg for p in m.f.params}))

        if rest and all([norm(b.get(p)) for p in gp[:2]] == m.params and all(closed(m, b.get(p)) for p in rest) for m, b in calls):
            presets = {tuple((p, norm(b[p])) for p in rest): {p: b[p] for p in rest} for _, b in calls}
            if len(presets) <= 4:
                special[g] = list(presets.values())
    if special:
        follow = Follow({k: v for k, v in follow.value.items() if k not in special},
                        {k: v for k, v in follow.test.items() if k not in special and k not in follow.value}, world)
        fns, in_callers = judged(follow, special)
    fns = [m for m in fns if m.f.name not in in_callers]
    for g in sorted(set(follow.value) - in_callers):
        rep.require(any(m.f.name == g for m in fns), f"{g} is judged: as part of every function that calls it, or on its own as a function of two arguments")
    rep.require(any(m.f is mp for m in fns), "isinstance dispatch in merge_properties")
    mpf = next(m for m in fns if m.f is mp)
    for m in fns:
        if m is not mpf:
            m.restrict_to_calls_from(mpf)
    n_pairs = 0
    for mf in fns:
        name = mf.name
        by_env = {tuple(sorted(env.items())): (env, r) for env, r in mf.runs}
        bases = {(_base_param(e.args[0], mf.params)) for _, _, _, e, _ in _merge_terminals(mf)} - {None}
        chooses = len(bases) == 2
        n_pairs += len(bases) if chooses else 0
        # ---- the decision does not depend on the order of the two arguments ----
        asym: dict[str, list[str]] = {}
        for key, (p, ts) in mf.atoms.items():
            if mf.swap_text(key) not in mf.atoms:
                asym.setdefault("/".join(sorted(ts)), []).append(f"{key} has no counterpart on the other argument")
        if not asym:
            kind_of = {key: "/".join(sorted(ts)) for key, (_, ts) in mf.atoms.items()}
            failing = []
            for env, r in mf.runs:
                sw = {mf.swap_text(k): v for k, v in env.items()}
                if sw == env or not _feasible(mf, env):
                    continue
                differs = {kind_of[k] for k in env if env[k] != env[mf.swap_text(k)]}
                if tuple(sorted(sw.items())) not in by_env:
                    failing.append((differs, f"{sorted(k for k, v in env.items() if v)} is handled, the exchanged arguments are not"))
                    continue
                d1, d2 = _descrs(mf, r), _descrs(mf, by_env[tuple(sorted(sw.items()))][1])
                if d1 != d2:
                    failing.append((differs, f"{sorted(k for k, v in env.items() if v)} -> {sorted(d1)}, exchanged -> {sorted(d2)}"))
            for differs, msg in sorted(failing, key=lambda x: (len(x[0]), len(x[1]), x[1])):  # blame the class whose test alone makes the difference
                if len(differs) == 1 or not (differs & set(asym)):
                    for k in differs:
                        asym.setdefault(k, []).append(msg)
        kinds = sorted({"/".join(sorted(ts)) for _, ts in mf.atoms.values()})
        if mf.f is mp:
            for kind in kinds:  # one obligation per class the dispatcher tests
                suffix = "any-both-sides" if kind == "AnyProperty" else f"{kind}-either-side"
                rep.check(kind not in asym, "R15.1", f"{name}::{suffix}", f"{kind} is not dispatched symmetrically: the result depends on the order of "
                          "the allOf members", where(mf.f, mf.f.node), lhs=asym.get(kind, [])[:3], rhs="same decision with the arguments exchanged")
            for need in ("AnyProperty", "EnumProperty", "LiteralEnumProperty"):
                rep.require(any(need in k.split("/") for k in kinds), f"merge_properties tests its arguments for {need}")
        else:
            rep.check(not asym, "R15.1", f"{name}::order-symmetric",
                      "the function decides differently when its two arguments are exchanged (a branch without its mirror)", where(mf.f, mf.f.node),
                      lhs=[x for v in asym.values() for x in v][:3], rhs="same decision with the arguments exchanged")
        # ---- both members contribute: a result is built from both arguments (or is an error / "no rule of mine fits") ----
        lost = []
        for env, r in mf.runs:
            if not _feasible(mf, env):
                continue
            for s, e, st in r.terminals:
                if s is None or isinstance(s, ast.Raise) or e is None or _descr(e, mf.params) in ("<error>", "None"):
                    continue
                used = names_in(e) & set(mf.params)
                equal = any(v and isinstance(r.atoms.get(k), ast.Compare) and isinstance(r.atoms[k].ops[0], ast.Eq) and  # type: ignore[union-attr]
                            names_in(r.atoms[k]) >= set(mf.params) for k, v in st.assume.items()) or _same_object_assumed(mf, r, st)
                if isinstance(e, ast.Name) and e.id not in mf.params:
                    continue  # a value produced elsewhere on the path (the result of a delegation held in a local)
                if used != set(mf.params) and not equal:
                    lost.append(f"{norm(e)[:60]} when {sorted(k for k, v in {**env, **st.assume}.items() if v)}")
        rep.check(not lost, "R15.1", f"{name}::both-members-contribute",
                  "a merge result is built from one of the two declarations only: what the other member says about the property (required, default, "
                  "description) is lost, and which one is lost depends on member order", where(mf.f, mf.f.node), lhs=sorted(set(lost), key=lambda x: (len(x), x))[:3],
                  rhs="every returned property is computed from both arguments")
        # ---- where the class of one argument is discarded, it is the wider one ----
        bad = []
        n_sites = 0
        for env, r, s, e, st in _merge_terminals(mf):
            b = _base_param(e.args[0], mf.params)
            if b is None:
                continue
            n_sites += 1
            o = next(p for p in mf.params if p != b)
            ok = _same_class_assumed(mf, r, st) or _not_wider(mf.classes_of(env, st, b), mf.classes_of(env, st, o))
            if not ok:
                bad.append(f"{norm(e)[:70]} when {sorted(k for k, v in {**env, **st.assume}.items() if v)}")
        if n_sites:
            rep.check(not bad, "R15.1", f"{name}::discards-wider",
                      "a merge keeps the class of an argument that is not known to be the narrower one (integer over number, formatted string over "
                      "string, enum over its base type, anything over Any): the composed type depends on member order or is too wide",
                      where(mf.f, mf.f.node), lhs=sorted(set(bad), key=lambda x: (len(x), x))[:4], rhs="the discarded argument is an instance of an equal or wider class")
    rep.floor("mirrored_type_pairs", n_pairs, 5)

    # ---- incompatible types end in a diagnostic ----
    none_env = [(env, r) for env, r in mpf.runs if not any(env.values())]
    rep.require(none_env, "merge_properties path for arguments that are neither Any nor enums")
    d = _descrs(mpf, none_env[0][1])
    rep.check("<error>" in d and not (d & {"<argument>", "<falls off>", "None", "<value>"}), "R15.1", "merge_properties::fallthrough-error",
              "incompatible types are no longer a diagnostic", where(mp, mp.node), lhs=sorted(d), rhs="delegations and, when none fits, an error")

    # ---- the two enum merges: found as what merge_properties dispatches to when one argument is an enum of that kind ----
    for kind in ("EnumProperty", "LiteralEnumProperty"):
        sib: list[MergeFn] = []
        for env, r in mpf.runs:
            on = [k for k, v in env.items() if v]
            if len(on) == 1 and kind in mpf.atoms[on[0]][1]:
                for s_, e, _ in r.terminals:
                    if s_ is not None and isinstance(e, ast.Call):
                        sib += [m for m in fns if m is not mpf and m not in sib and m.is_call_of_me(e, mpf.params)]
        rep.require(len(sib) == 1, f"the function merge_properties delegates {kind} to")
        _enum_sibling(rep, ctx, sib[0], kind)


def _enum_sibling(rep: Report, ctx: Any, mf: MergeFn, kind: str) -> None:
    ix = ctx.py
    it, _ = ctx.flow
    name = mf.name
    kk = {p: next((k for k, (q, ts) in mf.atoms.items() if q == p and ts == {kind}), None) for p in mf.params}
    rep.require(all(kk.values()), f"{name} tests both arguments for {kind}")
    tests = _subset_tests(ix, mf)
    rep.require(tests, f"subset test between the two enums in {name}")
    direction = {key: (small, large) for key, (small, large, _) in tests.items()}
    a, b = mf.params
    rep.check({(a, b), (b, a)} <= set(direction.values()), "R15.1", f"{name}::both-directions", "only one subset direction is tried", where(mf.f, mf.f.node),
              lhs=sorted(direction), rhs="a <= b and b <= a")
    others = {p: [k for k, (q, ts) in mf.atoms.items() if q == p and ts != {kind}] for p in mf.params}
    wrong, n_narrow, silent, n_incompat, unchecked, n_single = [], 0, [], 0, [], 0
    split: list[str] = []
    for env, r in mf.runs:
        if not _feasible(mf, env):
            continue
        both = all(env[kk[p]] for p in mf.params)
        one = [p for p in mf.params if env[kk[p]]]
        for s, e, st in r.terminals:
            if s is None:
                continue
            true_sub = [direction[k] for k, v in st.assume.items() if v and k in direction]
            if both and isinstance(e, ast.Call) and _descr(e, mf.params) != "<error>":
                # the smaller enum over the larger: the values the result is built with - what `values=` is given, or else the values of the
                # argument it is a copy of - belong to the subset side
                given = [kw.value for c in calls_in(e) for kw in c.keywords if kw.arg == "values"]
                base = _base_param(e.args[0], mf.params) if call_name(e) == MERGE_BASE_FN and e.args else None
                sources = [(norm(v), names_in(v) & set(mf.params)) for v in given] or ([(f"{base}.values (unchanged)", {base})] if base else [])
                for text, src in sources:
                    n_narrow += 1
                    if not any({small} == src for small, _ in true_sub):
                        wrong.append(f"values={text} when {[k for k, v in st.assume.items() if v and k in direction]}")
                # ... and the class the result names (the class that is generated for it) is the class of the declaration the values are
                # taken from: given with them, or both left as the copied argument has them
                named = [names_in(kw.value) & set(mf.params) for c in calls_in(e) for kw in c.keywords if kw.arg == "class_info"] or ([{base}] if base else [])
                for src_c in named:
                    if any(src_c != src for _, src in sources):
                        split.append(f"class_info of {sorted(src_c)}, values of {sorted(sources[0][1])} when {[k for k, v in st.assume.items() if v and k in direction]}")
            if both and set(direction) <= set(st.assume) and not true_sub:
                n_incompat += 1
                if _descr(e, mf.params) != "<error>":
                    silent.append(norm(e)[:70])
        if len(one) == 1:
            o = next(p for p in mf.params if p != one[0])
            on_other = [k for k in others[o] if env[k]]
            d = _descrs(mf, r)
            if not on_other:  # the other argument is of no base type at all: nothing to combine with
                n_incompat += 1
                if d != {"<error>"}:
                    silent.append(f"{sorted(k for k, v in env.items() if v)} -> {sorted(d)}")
            elif len(on_other) == 1 and not any(env[k] for k in others[one[0]]):
                n_single += 1
                if not ("<error>" in d and MERGE_BASE_FN in d):
                    unchecked.append(f"{sorted(k for k, v in env.items() if v)} -> {sorted(d)}")
    rep.require(n_narrow, f"a result of {name} for two enums")
    rep.require(n_incompat and n_single, f"paths of {name} for incompatible / single-enum arguments")
    rep.check(not wrong, "R15.1", f"{name}::smaller-enum-wins", "of two enums the result does not take the values of the one that is a subset of the "
              "other", where(mf.f, mf.f.node), lhs=sorted(set(wrong))[:3], rhs="values of the subset side")
    rep.check(not split, "R15.1", f"{name}::class-follows-values", "the result of merging two enums has the values of one declaration and names the "
              "class of the other: the attribute of the composed model is typed with a class that has other values than the merge chose",
              where(mf.f, mf.f.node), lhs=sorted(set(split))[:3], rhs="class_info and values from the same argument")
    rep.check(not silent, "R15.1", f"{name}::incompatible-is-error", "two enums of which neither is a subset of the other, or an enum and a non-base "
              "type, are merged without a diagnostic", where(mf.f, mf.f.node), lhs=sorted(set(silent))[:3], rhs="PropertyError")
    rep.check(not unchecked, "R15.1", f"{name}::base-type-checked", "an enum is merged with an int / string property without looking at the enum's value "
              "type", where(mf.f, mf.f.node), lhs=sorted(set(unchecked))[:3], rhs="merge or error, depending on value_type")
    # the subset decision depends on values (wire values), not only on generated member names
    # (what is compared is evaluated abstractly, for two arguments of this enum class: wherever the comparison is written - here, in a
    # helper, in a lambda of a strategy record)
    env = {p: it.tr.class_av(ix.cls(kind)) for p in mf.params}
    saved = (it.cur_mod, it.record_nodes)
    it.cur_mod, it.record_nodes = mf.f.module, False
    names_only = []
    try:
        for key, (_, _, pairs) in sorted(tests.items()):
            n_evaluated = 0
            for side in (x for pr in pairs for x in pr):
                av = it.ev(side, dict(env))
                el = av.elem if av is not None else None
                if av is None or not av.types or (el is not None and not el.types and not el.labels and el.tup is None):
                    continue  # nothing an argument of this class can have (the comparison written for the other kind of enum)
                n_evaluated += 1
                # elements must carry the member's value: (name, value) pairs or the values themselves, not the generated names alone
                # (generated names are made of words, constants and numbers - `VALUE_<i>` - and never carry the document's own text)
                if not (el is not None and ((el.tup is not None and len(el.tup) == 2) or bool(set(el.labels) & {RAW, RAW_NONSTR}))):
                    names_only.append(f"{norm(side)[:60]} in {key[:80]}")
            if not n_evaluated:
                names_only.append(f"nothing is known about what {key[:80]} compares")
    finally:
        it.cur_mod, it.record_nodes = saved
    rep.check(not names_only, "R15.1", f"{name}::compares-values",
              "the narrowing decision between two enums looks at member names only: enums with different wire values that happen "
              "to share generated names are treated as compatible", where(mf.f, mf.f.node), lhs=sorted(set(names_only))[:4],
              rhs="sets of (name, value) pairs / of values")


# ======================================================================================================================
# R15.2 / R15.3: _process_properties
# ======================================================================================================================

def _polarity(test: ast.expr, is_target: Callable[[ast.AST], bool]) -> bool | None:
    """True if `test` holds exactly when / only when the target sub-test holds (positive position), False if it sits under one `not`"""
    if is_target(test):
        return True
    if isinstance(test, ast.UnaryOp) and isinstance(test.op, ast.Not):
        p = _polarity(test.operand, is_target)
        return None if p is None else not p
    if isinstance(test, ast.BoolOp):
        for v in test.values:
            p = _polarity(v, is_target)
            if p is not None:
                return p
    return None


def _arm_entries(cfg: CFG, node: ast.If, positive: bool) -> tuple[object, object]:
    """(first node executed when the decision holds, first node executed when it does not), whatever the statement shape: an `else`,
    an early continue / return followed by the other case, swapped branches under `not`"""
    true_entry: object = node.body[0]
    if node.orelse:
        false_entry: object = node.orelse[0]
    else:
        rest = [x for x in cfg.succ.get(node, ()) if x is not node.body[0]]
        false_entry = rest[0] if rest else node.body[0]
    return (true_entry, false_entry) if positive else (false_entry, true_entry)


def _kind_tests(member: str) -> tuple[Callable[[ast.AST], bool], Callable[[ast.AST], bool]]:
    def tests_for(cls: str) -> Callable[[ast.AST], bool]:
        return lambda e: isinstance(e, ast.Call) and call_name(e) == "isinstance" and len(e.args) == 2 and norm(e.args[0]) == member and \
            {norm(t).rsplit(".", 1)[-1] for t in (e.args[1].elts if isinstance(e.args[1], ast.Tuple) else [e.args[1]])} == {cls}

    return tests_for("Reference"), tests_for("Schema")


class MemberLoop:
    """one loop over the members of allOf: where control goes for a Reference member and for an inline member (the loop statement itself:
    nowhere, the next member is taken), and which statements run for each kind.  The kinds are told apart by a decision in the body
    (`isinstance(m, Reference)`, negated, with an early continue, from the Schema side - all the same decision), by a filter in what is
    iterated (`for m in (x for x in data.allOf if not isinstance(x, Reference))`), or not at all (then every member takes the body)."""

    def __init__(self, f: Any, loop: ast.For, member: str, cfgs: dict[str, CFG]) -> None:
        self.f, self.loop, self.member = f, loop, member
        self.cfg = cfg_of(f, cfgs)
        decision = _find_member_decision(loop, member)
        self.decision = decision[0] if decision else None
        self.tells_apart = True
        first: object = loop.body[0]
        if decision is not None:
            self.ref_entry, self.inline_entry = _arm_entries(self.cfg, decision[0], decision[1])
        else:
            kept = self._filter(f, loop)
            self.tells_apart = kept is not None
            self.ref_entry, self.inline_entry = (first, first) if kept is None else (first, loop) if kept else (loop, first)
        self.in_loop = {id(x) for x in ast.walk(loop)}
        self.ref_arm, self.inline_arm = self._arm(self.ref_entry), self._arm(self.inline_entry)

    @staticmethod
    def _filter(f: Any, loop: ast.For) -> bool | None:
        """what is iterated keeps the Reference members only (True) / the inline members only (False) / is not filtered by kind (None)"""
        lc = Locals(f.node)
        exprs: list[ast.AST] = [loop.iter] + [v for n in names_in(loop.iter) for v in lc.values_of(n)]
        for e in exprs:
            for c in ast.walk(e):
                if isinstance(c, ast.comprehension):
                    is_ref, is_schema = _kind_tests(norm(c.target))
                    for cond in c.ifs:
                        pol = _polarity(cond, is_ref)
                        if pol is None:
                            pol = _polarity(cond, is_schema)
                            pol = None if pol is None else not pol
                        if pol is not None:
                            return pol
        return None

    def _arm(self, entry: object) -> set[int]:
        """statements executed for one member of that kind (until the loop takes the next member)"""
        if entry is self.loop:
            return set()
        return {id(n) for n in self.cfg.reachable_from(entry, avoid=lambda n: n is self.loop) if id(n) in self.in_loop}

    def on_every_path(self, entry: object, stmts: list[ast.stmt | None], adds_what: str = "") -> bool:
        """every path from `entry` to the next member passes one of the statements; a path taken only when `adds_what` (what the
        statement would add) is empty or absent need not: adding nothing is the same as not adding"""
        return entry is not self.loop and bool(stmts) and not _bypasses(self.cfg, entry, self.loop, stmts, adds_what)


def _own_nodes(fn: ast.AST) -> Iterator[ast.AST]:
    """the nodes that run as part of fn itself: nested function and class definitions are other code"""
    stack = list(ast.iter_child_nodes(fn))
    while stack:
        n = stack.pop()
        yield n
        if not isinstance(n, (ast.FunctionDef, ast.AsyncFunctionDef, ast.ClassDef)):
            stack.extend(ast.iter_child_nodes(n))


def _var_of(e: ast.AST | None) -> str | None:
    """the variable an expression names: a name, or a field of the object a name holds (`state.by_name`: that object's mapping)"""
    if isinstance(e, ast.Name):
        return e.id
    if isinstance(e, ast.Attribute) and isinstance(e.value, ast.Name):
        return f"{e.value.id}.{e.attr}"
    return None


def _store_targets(n: ast.AST, own_locals: set[str]) -> set[str]:
    """the mappings statement n stores into by `<mapping>[key] = value`, those that are not locals (or fields of locals) of the storing
    function (own_locals), i.e. that outlive the call"""
    if not isinstance(n, (ast.Assign, ast.AnnAssign, ast.AugAssign)):
        return set()
    tg = n.targets if isinstance(n, ast.Assign) else [n.target]
    out = set()
    for t in tg:
        v = _var_of(t.value) if isinstance(t, ast.Subscript) else None
        if v is not None and v.split(".", 1)[0] not in own_locals:
            out.add(v)
    return out


def _is_store(n: ast.AST, own_locals: set[str]) -> bool:
    """`<mapping>[key] = value` into a mapping that is not a local of the storing function (own_locals), i.e. one that outlives the call"""
    return bool(_store_targets(n, own_locals))


def _receiver_classes(g: Any, name: str) -> set[str]:
    """the classes (by name) variable `name` of function g is an instance of, as far as g says: the receiver of a method, a parameter
    by its annotation, a local by the constructor it is bound from"""
    out: set[str] = set()
    a = g.node.args
    pos = [*a.posonlyargs, *a.args]
    if g.cls is not None and g.kind not in ("staticmethod", "classmethod") and pos and pos[0].arg == name:
        out.add(g.cls.name)
    for p_ in [*pos, *a.kwonlyargs]:
        if p_.arg == name and p_.annotation is not None:
            out.add(norm(p_.annotation).strip("'\"").rsplit(".", 1)[-1])
    for v in Locals(g.node).values_of(name):
        if isinstance(v, ast.Call):
            out.add(call_name(v).rsplit(".", 1)[-1])
            if isinstance(v.func, ast.Attribute) and isinstance(v.func.value, ast.Name):
                out.add(v.func.value.id)  # `<Class>.<alternative constructor>(...)`
    return out


def _calls_fn(g: Any, c: ast.Call, h: Any) -> bool:
    """call c, made in function g, calls h: a function by its name; a method by its name on an object of its class"""
    if call_name(c).rsplit(".", 1)[-1] != h.name:
        return False
    if h.cls is None or h.kind in ("staticmethod", "classmethod"):
        return True
    f = c.func
    return isinstance(f, ast.Attribute) and isinstance(f.value, ast.Name) and h.cls.name in _receiver_classes(g, f.value.id)


def _callees(g: Any, c: ast.Call, funcs: Iterable[Any]) -> list[Any]:
    return [h for h in funcs if _calls_fn(g, c, h)]


def _plain_call(h: Any, c: ast.Call) -> ast.Call:
    """the call of a method written as the call of the function it is: the receiver is the first argument"""
    if h.cls is not None and h.kind not in ("staticmethod", "classmethod") and isinstance(c.func, ast.Attribute):
        return ast.Call(func=ast.Name(id=h.name, ctx=ast.Load()), args=[c.func.value, *c.args], keywords=c.keywords)
    return c


def _stores_outward(g: Any) -> bool:
    """g puts something into a mapping it was handed as an argument or sees in an enclosing scope"""
    mine = local_names(g.node)
    return any(_is_store(n, mine) for n in _own_nodes(g.node))


class Aliases:
    """which variables of the functions of a region are one and the same object: a closure sees the variables of the function around it, a
    parameter is what the call passes for it, the locals a call's result is bound to are what the callee returns (a tuple result position
    by position).  Flow-insensitive, by name within one function - enough to say `the set this helper fills is the set that one reads`
    wherever the code that fills it was moved to."""

    def __init__(self, funcs: list[Any]) -> None:
        self.funcs = list({f.qual: f for f in funcs}.values())
        self.up: dict[tuple[str, str], tuple[str, str]] = {}
        scope = {f.qual: self._bound_in(f) for f in self.funcs}
        for f in self.funcs:
            own = list(_own_nodes(f.node))
            # closures
            enc = f.parent
            free = {n.id for n in own if isinstance(n, ast.Name)} - scope[f.qual]
            while enc is not None:
                bound = scope.get(enc.qual)
                if bound is None:
                    bound = self._bound_in(enc)
                for n in free & bound:
                    self._union((f.qual, n), (enc.qual, n))
                free -= bound
                enc = enc.parent
            for n in own:
                # arguments
                if isinstance(n, ast.Call):
                    for h in _callees(f, n, self.funcs):
                        call = _plain_call(h, n)
                        bound_args = _bind_args(h.node, call)
                        if bound_args is None:
                            pos = [a.arg for a in [*h.node.args.posonlyargs, *h.node.args.args]]
                            bound_args = {**{pos[i]: a for i, a in enumerate(call.args) if i < len(pos) and not isinstance(a, ast.Starred)},
                                          **{kw.arg: kw.value for kw in call.keywords if kw.arg}}
                        for p_, a in bound_args.items():
                            if isinstance(a, ast.Name):
                                self._union((f.qual, a.id), (h.qual, p_))
                # results
                if isinstance(n, (ast.Assign, ast.AnnAssign)) and isinstance(n.value, ast.Call):
                    for h in _callees(f, n.value, self.funcs):
                        for r in _own_nodes(h.node):
                            if isinstance(r, ast.Return) and r.value is not None:
                                for t in (n.targets if isinstance(n, ast.Assign) else [n.target]):
                                    self._unify(f.qual, t, h.qual, r.value)
        # a field of one object is one variable, whatever the object is called where it is used
        fields: dict[tuple[tuple[str, str], str], list[tuple[str, str]]] = {}
        for f in self.funcs:
            for n in _own_nodes(f.node):
                if isinstance(n, ast.Attribute) and isinstance(n.value, ast.Name):
                    self.up.setdefault((f.qual, n.value.id), (f.qual, n.value.id))
                    fields.setdefault((self._find((f.qual, n.value.id)), n.attr), []).append((f.qual, f"{n.value.id}.{n.attr}"))
        for same in fields.values():
            for x in same[1:]:
                self._union(same[0], x)

    @staticmethod
    def _bound_in(f: Any) -> set[str]:
        a = f.node.args
        params = {x.arg for x in [*a.posonlyargs, *a.args, *a.kwonlyargs]} | ({a.vararg.arg} if a.vararg else set()) | ({a.kwarg.arg} if a.kwarg else set())
        own = list(_own_nodes(f.node))
        outer = {x for n in own if isinstance(n, (ast.Nonlocal, ast.Global)) for x in n.names}
        stored = {n.id for n in own if isinstance(n, ast.Name) and isinstance(n.ctx, ast.Store)}
        return (stored - outer) | params

    def _unify(self, fq: str, target: ast.AST, hq: str, value: ast.AST) -> None:
        if isinstance(target, ast.Name) and isinstance(value, ast.Name):
            self._union((fq, target.id), (hq, value.id))
        elif isinstance(target, (ast.Tuple, ast.List)) and isinstance(value, (ast.Tuple, ast.List)) and len(target.elts) == len(value.elts):
            for t, v in zip(target.elts, value.elts):
                self._unify(fq, t, hq, v)

    def _find(self, x: tuple[str, str]) -> tuple[str, str]:
        while self.up.get(x, x) != x:
            self.up[x] = self.up.get(self.up[x], self.up[x])
            x = self.up[x]
        return x

    def _union(self, x: tuple[str, str], y: tuple[str, str]) -> None:
        self.up.setdefault(x, x)
        self.up.setdefault(y, y)
        rx, ry = self._find(x), self._find(y)
        if rx != ry:
            self.up[rx] = ry

    def same(self, f: Any, names: set[str], g: Any) -> set[str]:
        """the variables of g that are the variables `names` of f"""
        if f.qual == g.qual:
            return set(names)
        roots = {self._find((f.qual, n)) for n in names if (f.qual, n) in self.up}
        return {n for (q, n) in self.up if q == g.qual and self._find((q, n)) in roots}


_ALIASES: dict[str, tuple[Any, Aliases]] = {}


def _aliases(pp: Any, funcs: list[Any] | None = None) -> Aliases:
    """the alias classes of the region of pp (built once for each syntax tree)"""
    got = _ALIASES.get(pp.qual)
    if got is None or got[0] is not pp.node or (funcs is not None and {f.qual for f in funcs} - {f.qual for f in got[1].funcs}):
        known = got[1].funcs if got is not None and got[0] is pp.node else []
        _ALIASES[pp.qual] = (pp.node, Aliases([pp, *known, *(funcs or [])]))
    return _ALIASES[pp.qual][1]


def _seen_as(pp: Any, g: Any, names: set[str]) -> set[str]:
    """how a function of the region refers to the given variables of _process_properties: by the same name when it is nested in it (a
    closure), by the parameter they are passed as, by the local it returns them from"""
    return _aliases(pp, [g]).same(pp, names, g)


def _in_caller(pp: Any, g: Any, names: set[str]) -> set[str]:
    """the other direction of _seen_as: what _process_properties calls the variables that function g of its region knows by these names"""
    return _aliases(pp, [g]).same(g, names, pp)


def _req_atoms(e: ast.AST, req_names: set[str]) -> list[ast.Compare]:
    """the sub-tests `<x> in <required set>` / `<x> not in <required set>` of an expression"""
    return [c for c in ast.walk(e) if isinstance(c, ast.Compare) and len(c.ops) == 1 and isinstance(c.ops[0], (ast.In, ast.NotIn))
            and norm(c.comparators[0]) in req_names]


def _over_required(it: ast.expr, req_names: set[str]) -> bool:
    """iterating `it` yields members of the required set only: the set itself, a re-ordering / copy of it, an intersection with it"""
    if isinstance(it, ast.Name):
        return it.id in req_names
    if isinstance(it, ast.Call) and call_name(it) in ("sorted", "list", "tuple", "set", "frozenset", "iter", "reversed") and it.args:
        return _over_required(it.args[0], req_names)
    if isinstance(it, ast.BinOp) and isinstance(it.op, ast.BitAnd):
        return _over_required(it.left, req_names) or _over_required(it.right, req_names)
    if isinstance(it, ast.Call) and isinstance(it.func, ast.Attribute) and it.func.attr == "intersection":
        return any(_over_required(x, req_names) for x in [it.func.value, *it.args])
    return False


def _implies_required(test: ast.expr, outcome: bool, req_names: set[str]) -> bool:
    """can `test` have this outcome only when some `<x> in <required set>` holds?  Decided on truth values (negations, `not in`, and / or,
    exchanged branches are all the same decision), not on the text of the test."""
    atoms = _req_atoms(test, req_names)
    env = {norm(ast.Compare(left=c.left, ops=[ast.In()], comparators=c.comparators)): False for c in atoms}
    return bool(atoms) and outcome not in _values_of_test(test, env)


def _stmt_only_when(cfg: CFG, fn: ast.AST, s: ast.stmt, implies: Callable[[ast.expr, bool], bool]) -> bool:
    """statement s runs only after a decision with an outcome that `implies` accepts: it lies on that side of the decision and cannot be
    reached from the other side without taking the decision again (nested if, early continue / return and swapped branches alike)"""
    for d in ast.walk(fn):
        if isinstance(d, ast.If):
            for outcome in (True, False):
                if implies(d.test, outcome):
                    entry, other = _arm_entries(cfg, d, outcome)
                    if entry is not other and s in cfg.reachable_from(entry, avoid=lambda n: n is d) and \
                            s not in cfg.reachable_from(other, avoid=lambda n: n is d):
                        return True
    return False


def _only_when_required(f: Any, cfg: CFG, e: ast.AST, req_names: set[str]) -> bool:
    """expression e of function f is evaluated only when `<x> in <required set>` holds: inside its statement (conditional expression,
    comprehension filter, `and`) or by where its statement sits in the flow of control"""
    if not req_names:
        return False

    def implies(test: ast.expr, outcome: bool) -> bool:
        return _implies_required(test, outcome, req_names)

    parents = {id(c): p for p in ast.walk(f.node) for c in ast.iter_child_nodes(p)}
    s = stmt_of(f.node, e)
    n, in_statement = e, True
    while id(n) in parents:
        p = parents[id(n)]
        in_statement = in_statement and n is not s
        if in_statement:
            if isinstance(p, ast.IfExp) and ((n is p.body and implies(p.test, True)) or (n is p.orelse and implies(p.test, False))):
                return True
            if isinstance(p, (ast.ListComp, ast.SetComp, ast.GeneratorExp, ast.DictComp)) and not isinstance(n, ast.comprehension) and \
                    any(_over_required(g.iter, req_names) or any(implies(c, True) for c in g.ifs) for g in p.generators):
                return True
            if isinstance(p, ast.BoolOp) and isinstance(p.op, ast.And) and any(implies(v, True) for v in p.values[:p.values.index(n)]):
                return True
        elif isinstance(p, (ast.For, ast.AsyncFor)) and n in p.body and _over_required(p.iter, req_names):
            return True  # the body of a loop over the required names runs for required names only
        n = p
    return s is not None and _stmt_only_when(cfg, f.node, s, implies)


def _read_before_rebound(cfg: CFG, s: ast.stmt, names: set[str]) -> bool:
    """after statement s, is one of the names it binds read before it is bound again (by the next iteration's loop header, say)?"""
    seen: set[int] = set()
    stack = list(cfg.succ.get(s, ()))
    while stack:
        n = stack.pop()
        if id(n) in seen or not isinstance(n, ast.stmt):
            continue
        seen.add(id(n))
        own = list(ast.walk(n)) if isinstance(n, (ast.FunctionDef, ast.AsyncFunctionDef, ast.ClassDef)) else list(walk_own(n))
        if names & {x.id for x in own if isinstance(x, ast.Name) and isinstance(x.ctx, ast.Load)}:
            return True
        if names <= {x.id for x in own if isinstance(x, ast.Name) and isinstance(x.ctx, ast.Store)}:
            continue
        stack.extend(cfg.succ.get(n, ()))
    return False


def _value_is_used(f: Any, cfg: CFG, e: ast.AST) -> bool:
    """the value of expression e goes somewhere: it is not thrown away as an expression statement, and when it is bound to a local that
    local is read before it is bound again (a copy made after the last use of the variable changes nothing)"""
    s = stmt_of(f.node, e)
    if s is None or (isinstance(s, ast.Expr) and s.value is e):
        return False
    if isinstance(s, (ast.Assign, ast.AnnAssign)):
        tg = s.targets if isinstance(s, ast.Assign) else [s.target]
        if all(isinstance(t, (ast.Name, ast.Tuple, ast.List)) for t in tg):
            return _read_before_rebound(cfg, s, {n.id for t in tg for n in ast.walk(t) if isinstance(n, ast.Name)})
    return True


def _promotions(pp: Any, reg: list[Any], f: Any, req_sets: set[str], cfgs: dict[str, CFG], depth: int) -> list[tuple[ast.AST, bool]]:
    """the expressions of f whose value is a copy of a property with required=True - `evolve(<p>, required=True)` itself, or the call of a
    function of the region that hands one back - each with: is it made only when `<name> in <required set>` holds (decided in f, or in
    the callee).  Where the copy is written (loop body, comprehension, helper) and how the decision is spelled does not matter."""
    names = _seen_as(pp, f, req_sets)
    cfg = cfg_of(f, cfgs)
    out: list[tuple[ast.AST, bool]] = []
    nodes = list(_own_nodes(f.node))
    called = {id(c.func) for c in nodes if isinstance(c, ast.Call)}
    for e in nodes:
        if isinstance(e, ast.Call):
            last = call_name(e).rsplit(".", 1)[-1]
            if last == "evolve" and any(kw.arg == "required" and isinstance(kw.value, ast.Constant) and kw.value.value is True for kw in e.keywords):
                out.append((e, _only_when_required(f, cfg, e, names)))
                continue
        elif isinstance(e, ast.Name) and isinstance(e.ctx, ast.Load) and id(e) not in called:
            last = e.id  # a function handed on as a value: map(<function>, properties)
        else:
            continue
        if depth > 0:
            for h in reg:
                if h.name == last and h.qual not in (f.qual, pp.qual) and (not isinstance(e, ast.Call) or _calls_fn(f, e, h)):
                    inner = [g for x, g in _promotions(pp, reg, h, req_sets, cfgs, depth - 1) if _value_is_used(h, cfg_of(h, cfgs), x)]
                    if inner:
                        out.append((e, any(inner) or _only_when_required(f, cfg, e, names)))
    return out


def _disjuncts(e: ast.expr, lc: Locals, depth: int = 2) -> set[str] | None:
    """the operands of a disjunction, however it is written: `a or b`, `any([a, b])`, a local that holds one of these (None: the
    expression is not a plain disjunction of operands)"""
    if isinstance(e, ast.BoolOp) and isinstance(e.op, ast.Or):
        parts = [_disjuncts(v, lc, depth) for v in e.values]
    elif isinstance(e, ast.Call) and call_name(e) == "any" and len(e.args) == 1 and isinstance(e.args[0], (ast.List, ast.Tuple, ast.Set)):
        parts = [_disjuncts(v, lc, depth) for v in e.args[0].elts]
    elif isinstance(e, ast.Name) and depth > 0 and len(lc.values_of(e.id)) == 1:
        return _disjuncts(lc.values_of(e.id)[0], lc, depth - 1)  # type: ignore[arg-type]
    elif isinstance(e, (ast.BoolOp, ast.UnaryOp, ast.IfExp)):
        return None
    else:
        return {norm(e)}
    return None if any(x is None for x in parts) else set().union(*parts)  # type: ignore[arg-type]


def _accumulations(fn: ast.AST, what: str) -> list[tuple[str, ast.stmt | None]]:
    """(local holding the collection, statement) wherever something computed from `what` is added to a collection: by a method call
    (`c.update(..what..)`, `c.extend(..what..)`), an augmented assignment (`c |= ..`, `c += ..`) or a re-binding that keeps the old
    contents (`c = c | ..`, `c = [*c, *..]`)"""
    out: list[tuple[str, ast.stmt | None]] = []
    for n in ast.walk(fn):
        if isinstance(n, ast.Call) and isinstance(n.func, ast.Attribute) and isinstance(n.func.value, ast.Name) and n.func.attr in ("update", "extend") \
                and any(what in norm(a) for a in n.args):
            out.append((n.func.value.id, stmt_of(fn, n)))
        elif isinstance(n, ast.AugAssign) and isinstance(n.target, ast.Name) and what in norm(n.value):
            out.append((n.target.id, n))
        elif isinstance(n, (ast.Assign, ast.AnnAssign)) and n.value is not None and what in norm(n.value):
            for t in (n.targets if isinstance(n, ast.Assign) else [n.target]):
                if isinstance(t, ast.Name) and t.id in names_in(n.value):
                    out.append((t.id, n))
    return out


def _impossible_outcomes(test: ast.expr, what: str) -> set[bool]:
    """the outcomes `test` cannot have while the attribute `what` holds something (is neither None nor empty)"""
    if not what or what not in norm(test):
        return set()
    env = {what: True, f"{what} is None": False, f"{what} == None": False, f"{what} == {{}}": False, f"{what} == []": False,
           f"len({what}) == 0": False, f"len({what}) > 0": True, f"len({what})": True}
    return {True, False} - _values_of_test(test, env)


def _bypasses(cfg: CFG, src: object, dst: object, through: list[Any], adds_what: str) -> bool:
    """is there a path src ->* dst that passes none of the `through` statements - other than by an outcome of a decision that is only
    possible when `adds_what` is empty or absent (then the statements would have added nothing)?"""
    seen, stack = {id(src)}, [src]
    while stack:
        n = stack.pop()
        if n is dst:
            return True
        if any(n is t for t in through):
            continue
        skip: set[int] = set()
        if isinstance(n, ast.If) and adds_what:
            t_entry, f_entry = _arm_entries(cfg, n, True)
            if t_entry is not f_entry:
                skip = {id(t_entry if v else f_entry) for v in _impossible_outcomes(n.test, adds_what)}
        for nx in cfg.succ.get(n, ()):
            if id(nx) not in skip and id(nx) not in seen:
                seen.add(id(nx))
                stack.append(nx)
    return False


def _result_attr_sites(funcs: list[Any], attr: str) -> list[tuple[Any, ast.AST, str, ast.expr]]:
    """(function, node, the property that is copied / written, the value) wherever attribute `attr` of a merge result is given its value:
    `evolve(<p>, attr=V)` or `<p>.attr = V` (whether writing in place is allowed is not this rule's question)"""
    out: list[tuple[Any, ast.AST, str, ast.expr]] = []
    for g in funcs:
        for n in _own_nodes(g.node):
            if isinstance(n, ast.Call) and call_name(n).rsplit(".", 1)[-1] == "evolve" and n.args:
                out += [(g, n, norm(n.args[0]), kw.value) for kw in n.keywords if kw.arg == attr]
            elif isinstance(n, (ast.Assign, ast.AnnAssign)) and n.value is not None:
                for t in (n.targets if isinstance(n, ast.Assign) else [n.target]):
                    if isinstance(t, ast.Attribute) and t.attr == attr:
                        out.append((g, n, norm(t.value), n.value))
            elif isinstance(n, ast.AugAssign) and isinstance(n.target, ast.Attribute) and n.target.attr == attr and isinstance(n.op, (ast.BitOr, ast.Or)):
                old = ast.Attribute(value=n.target.value, attr=attr, ctx=ast.Load())
                out.append((g, n, norm(n.target.value), ast.BoolOp(op=ast.Or(), values=[old, n.value])))
    return out


def _base_region(ix: Any, mca: Any) -> list[Any]:
    """the function that applies the overrides to the base and the private functions it is made of: those it calls and those it hands on
    as values (the step function of a fold)"""
    return list({f.qual: f for f in [*region(ix, mca), *_referenced_region(ix, mca)]}.values())


def _fold_element_params(f: Any, g: Any, seq: str) -> set[str]:
    """the parameters of g that stand for one element of `seq` (a variable of f) where f folds g over it: `reduce(g, seq[, initial])` calls
    g(accumulated, element) for each element in turn - the loop `for x in seq: acc = g(acc, x)` written as a call"""
    pos = [p.arg for p in [*g.node.args.posonlyargs, *g.node.args.args]]
    out: set[str] = set()
    for c in calls_in(f.node):
        if call_name(c).rsplit(".", 1)[-1] == "reduce" and 2 <= len(c.args) <= 3 and not c.keywords and isinstance(c.args[0], ast.Name) and \
                c.args[0].id == g.name and norm(c.args[1]) == seq and len(pos) >= 2:
            out.add(pos[1])
    return out


def _required_and_members(rep: Report, ctx: Any, cfgs: dict[str, CFG]) -> None:
    ix = ctx.py
    mca = ix.func("merge_properties._merge_common_attributes")
    # `required` of the merged property is given in _merge_common_attributes or in a helper it hands the accumulated property and one override to
    sites = _result_attr_sites(_base_region(ix, mca), "required")
    rep.require(sites, "where `required` of the merged property is given (region of _merge_common_attributes)")
    overrides = mca.node.args.vararg.arg if mca.node.args.vararg else "extend_with"
    each = {norm(lp.target) for lp in ast.walk(mca.node) if isinstance(lp, ast.For) and norm(lp.iter) == overrides}  # one override at a time
    for g, node, acc, value in sites:
        over = set(each) if g is mca else {p_ for call in calls_in(mca.node) if call_name(call) == g.name
                                           for p_, a in (_bind_args(g.node, call) or {}).items() if norm(a) in each}
        if g is not mca:  # a fold over the overrides hands them to its step function one at a time, as the second argument
            over |= {p_ for p_ in _fold_element_params(mca, g, overrides)}
        want = {f"{acc}.required"} | {f"{o}.required" for o in over}
        ok = _disjuncts(value, Locals(g.node)) == want and len(want) == 2
        rep.check(ok, "R15.2", "_merge_common_attributes::required-disjunction", "merged requiredness is not `current.required or override.required`",
                  where(g, node), lhs=norm(value), rhs=" or ".join(sorted(want)))

    _, pp, reg, nested = _composition(ix)  # nested functions are part of the region whatever they are called
    funcs = _unique(reg)
    _aliases(pp, reg + nested)
    # the places the rules look at are found by what they do, in _process_properties or in a function it hands its state to (or that hands
    # its results back):
    #   member loops = the loops over the allOf members (one for both kinds of member, or one for each)
    #   builder      = the function with the loop that turns the collected (name, schema) pairs into properties (property_from_data)
    loops = [MemberLoop(f, loop, member, cfgs) for f, loop, member in _find_allof_loops(pp, funcs)]
    rep.require(loops, "loop over data.allOf")
    rep.require(any(m.tells_apart for m in loops), "decision between Reference and inline members in a loop over allOf")
    inline_loops = [m for m in loops if m.inline_arm] or loops
    # roles (locals are found by what they hold, never by their spelling; a variable of _process_properties that a helper receives as an
    # argument, sees as a closure or hands back as its result is the same variable under another name):
    #   required set  = what <member>.required is added to / the set built from data.required
    #   pending props = what the building loop iterates
    req_sets = set(Locals(pp.node).bound_from(lambda v: "data.required" in v, "assign"))
    unioned, upd_seen = False, []
    for m in loops:
        upd_calls = _accumulations(m.f.node, f"{m.member}.required")
        req_sets |= _in_caller(pp, m.f, {r for r, _ in upd_calls})
        upd_seen += [norm(st)[:60] for _, st in upd_calls]
        unioned = unioned or m.on_every_path(m.inline_entry, [st for _, st in upd_calls], f"{m.member}.required")
    rep.check(unioned, "R15.2", "_process_properties::inline-required-unioned",
              "the `required` list of an inline allOf member is not added to required_set on every path (e.g. members without "
              "`properties`)", where(inline_loops[0].f, inline_loops[0].loop), lhs=upd_seen, rhs="on every path through the inline branch")
    build_loops = [(g, n) for g in funcs for n in ast.walk(g.node) if isinstance(n, ast.For) and
                   any(call_name(c).rsplit(".", 1)[-1] == "property_from_data" for c in calls_in(n))]
    rep.require(build_loops, "loop that builds the collected properties (property_from_data)")
    builder, build_loop = build_loops[0]
    pending = _in_caller(pp, builder, names_in(build_loop.iter))  # as _process_properties calls them
    collected, ext_seen = False, []
    for m in loops:
        props_ext = [st for r, st in _accumulations(m.f.node, f"{m.member}.properties") if r in _seen_as(pp, m.f, pending)]
        ext_seen += [norm(x)[:70] for x in props_ext]
        collected = collected or m.on_every_path(m.inline_entry, props_ext, f"{m.member}.properties")
    rep.check(collected, "R15.3", "_process_properties::inline-properties-collected",
              "inline member properties are not collected on every path", where(inline_loops[0].f, inline_loops[0].loop), lhs=ext_seen,
              rhs=f"{norm(build_loop.iter)}.extend(<member>.properties...) on every inline path that has properties")
    # the required set reaches every property of the composed model: either each insertion consults it, or the final partition
    # promotes every property named in it (on a copy) before splitting into required / optional
    storing = [g for g in funcs + nested if g is not pp and _stores_outward(g)]
    storing += [g for g in funcs if g is not pp and g not in storing and any(_calls_fn(g, c, h) for c in calls_in(g.node) for h in storing)]
    adds: list[tuple[Any, ast.AST]] = [(g, n) for g in _unique([pp, *[m.f for m in loops], builder]) for n in _own_nodes(g.node) if
                                       (isinstance(n, ast.Call) and any(h is not g and _calls_fn(g, n, h) for h in storing)) or _is_store(n, set())]
    rep.require(adds, "the place where _process_properties (or a function it calls) stores a property of the composed model")
    rep.floor("property_insertions", len(adds), 1)

    promoted = any(guarded and _value_is_used(pp, cfg_of(pp, cfgs), e) for e, guarded in
                   _promotions(pp, reg + [h for h in nested if h not in reg], pp, req_sets, cfgs, 2))
    builders = [(g, c) for g in funcs for c in calls_in(g.node) if call_name(c).rsplit(".", 1)[-1] == "property_from_data"]
    dep = any(kw.arg == "required" and (_req_atoms(kw.value, _seen_as(pp, g, req_sets)) or any(
        _req_atoms(v, _seen_as(pp, g, req_sets)) for n in names_in(kw.value) for v in Locals(g.node).values_of(n))) for g, c in builders for kw in c.keywords)
    n_ref_adds = 0
    for g, a in adds:
        arg = norm(a.args[0]) if isinstance(a, ast.Call) and a.args else norm(a)[:60]
        if any(id(stmt_of(g.node, a)) in m.ref_arm for m in loops):
            n_ref_adds += 1
            rep.check(promoted, "R15.2", "_process_properties::reference-member-bypasses-required_set",
                      "properties taken from a referenced allOf member are inserted with the parent's requiredness and nothing promotes "
                      "them later: a sibling member's `required: [name]` does not make them mandatory", where(g, a), lhs=arg,
                      rhs="required depends on required_set (at insertion or in the final partition)")
        else:
            rep.check(dep or promoted, "R15.2", "_process_properties::inline-insert-uses-required_set", "inserted property ignores required_set", where(g, a))
    # ---- R15.3 ---------------------------------------------------------------------------------------------------------------
    # the schema's own properties: what the building loop iterates is computed from data.properties (directly, or by a helper that is handed data)
    source = " <- ".join([resolved_text(build_loop.iter, builder.node)] + [resolved_text(ast.Name(id=p, ctx=ast.Load()), pp.node) for p in sorted(pending)] +
                         [norm(c) for r, c in receivers(pp.node, "extend") + receivers(pp.node, "append") if r in pending])
    own = "data.properties" in source or any(f"{h.name}(" in source and ".properties" in norm(h.node) for h in funcs if h is not pp)
    rep.check(own, "R15.3", "_process_properties::own-properties", "the schema's own properties are not collected", where(pp, pp.node),
              lhs=source[:120], rhs="the properties that are built include data.properties")
    # a Reference member contributes: every path that handles one and goes on to the next member inserts the parent's properties
    inherited, ins_seen = False, []
    for m in loops:
        ins_stmts = [s for s in ast.walk(m.loop) if isinstance(s, ast.stmt) and id(s) in m.ref_arm and
                     (any(x is a for _, a in adds for x in ast.walk(s)) if not isinstance(s, ast.If) else False)]
        ins_seen += [norm(s)[:50] for s in ins_stmts]
        inherited = inherited or m.on_every_path(m.ref_entry, ins_stmts)
    ref_loops = [m for m in loops if m.ref_arm] or loops
    rep.check(n_ref_adds > 0 and inherited and (unioned or collected), "R15.3", "_process_properties::reference-and-inline",
              "allOf members of one kind are ignored", where(ref_loops[0].f, ref_loops[0].loop),
              lhs={"reference": ins_seen[:2], "inline": {"required": unioned, "properties": collected}}, rhs="both kinds of member are handled")
    # ... with all of them: the required and the optional properties of the parent (reads outside the `is it processed yet` test)
    reads: set[str] = set()
    for g in reg:
        guarded = {id(x) for c in calls_in(g.node) if call_name(c) == "isinstance" for x in ast.walk(c)}
        reads |= {n.attr for n in ast.walk(g.node) if isinstance(n, ast.Attribute) and isinstance(n.ctx, ast.Load) and id(n) not in guarded
                  and n.attr in ("required_properties", "optional_properties")}
    rep.check(reads == {"required_properties", "optional_properties"}, "R15.3", "_process_properties::parent-required-and-optional",
              "only part of a referenced parent's properties is inherited", where(ref_loops[0].f, ref_loops[0].loop), lhs=sorted(reads),
              rhs="required_properties and optional_properties")


# ======================================================================================================================
# R15.6: the default of a merged property
# ======================================================================================================================

def _alternatives(e: ast.expr) -> list[ast.expr]:
    """the expressions whose value e can have: operands of `or`, the two sides of a conditional expression"""
    if isinstance(e, ast.BoolOp) and isinstance(e.op, ast.Or):
        return [x for v in e.values for x in _alternatives(v)]
    if isinstance(e, ast.IfExp):
        return _alternatives(e.body) + _alternatives(e.orelse)
    if isinstance(e, ast.NamedExpr):
        return _alternatives(e.value)
    return [e]


def _leaves(e: ast.expr, g: Any, reg: list[Any], via: frozenset[str] = frozenset(), at: ast.stmt | None = None,
            depth: int = 4) -> list[tuple[ast.expr, ast.stmt | None, frozenset[str]]]:
    """where the value of e comes from in function g: (expression, the statement of g that computes it, the locals of g it passes through).
    Locals are followed to everything they are assigned from (flow-insensitively: all assignments), a call of a function of the
    region to what that function returns, written in terms of the arguments of the call."""
    lc = Locals(g.node)
    out: list[tuple[ast.expr, ast.stmt | None, frozenset[str]]] = []
    for x in _alternatives(e):
        if isinstance(x, ast.Name) and x.id in lc.defs and x.id not in via and depth > 0:
            for kind, st, v in lc.defs[x.id]:
                if kind == "assign" and isinstance(v, ast.expr):
                    out += _leaves(v, g, reg, via | {x.id}, st if isinstance(st, ast.stmt) else stmt_of(g.node, st), depth - 1)
                else:
                    out.append((x, st if isinstance(st, ast.stmt) else None, via | {x.id}))
            continue
        h = next((h for h in reg if isinstance(x, ast.Call) and h.name == call_name(x) and h is not g), None)
        bound = _bind_args(h.node, x) if h is not None and depth > 0 else None  # type: ignore[arg-type]
        if h is not None and bound is not None:
            for r in ast.walk(h.node):
                if isinstance(r, ast.Return) and r.value is not None:
                    for leaf, _, _ in _leaves(r.value, h, reg, frozenset(), None, depth - 1):
                        out.append((_Subst(bound).visit(copy.deepcopy(leaf)), at, via))  # type: ignore[arg-type]
            continue
        out.append((x, at, via))
    return out


def _merged_default(rep: Report, ctx: Any, cfgs: dict[str, CFG]) -> None:
    ix = ctx.py
    mca = ix.func(f"merge_properties.{MERGE_BASE_FN}")
    reg = _base_region(ix, mca)
    sites = _result_attr_sites(reg, "default")
    rep.require(sites, f"where `default` of the merged property is given (region of {MERGE_BASE_FN})")
    for g, c, acc, value in sites:
        cfg = cfg_of(g, cfgs)
        merged = {acc} | {norm(v) for v in Locals(g.node).values_of(acc) if isinstance(v, ast.Name)}  # `current = base`: the same property
        ev_stmt = stmt_of(g.node, c) if not isinstance(c, ast.stmt) else c
        foreign, conversions = [], []
        for leaf, st, via in _leaves(value, g, reg):
            if (isinstance(leaf, ast.Constant) and leaf.value is None) or (isinstance(leaf, ast.Attribute) and leaf.attr == "default" and norm(leaf.value) in merged):
                continue
            conv = isinstance(leaf, ast.Call) and isinstance(leaf.func, ast.Attribute) and leaf.func.attr == "convert_value" and \
                norm(leaf.func.value) in merged and bool(leaf.args) and not (names_in(leaf.args[0]) & merged) and \
                any(isinstance(a, ast.Attribute) and a.attr == "default" for a in ast.walk(leaf.args[0]))
            if conv or (isinstance(leaf, ast.Call) and constructs_error(leaf)):
                conversions.append((leaf, st, via))
            else:
                foreign.append(norm(leaf)[:70])
        rep.check(not foreign, "R15.6", f"{g.name}::default-converted-by-merged",
                  "a default reaches the merged property without being converted by the merged property itself: a default the narrower "
                  "type does not accept (a member of the larger enum, rendered for the other class) is kept silently",
                  where(g, c), lhs=sorted(set(foreign)), rhs=f"None | {acc}.default | {acc}.convert_value(<override>.default...)")
        # a conversion that fails is a diagnostic: the error is returned, the copy is not made with it
        unreported = []
        for leaf, st, via in conversions:
            def is_error_test(e: ast.AST, via: frozenset[str] = via) -> bool:
                return isinstance(e, ast.Call) and call_name(e) == "isinstance" and len(e.args) == 2 and names_in(e.args[0]) & via != set() and \
                    bool({norm(t).rsplit(".", 1)[-1] for t in (e.args[1].elts if isinstance(e.args[1], ast.Tuple) else [e.args[1]])} & ERROR_CLASSES)

            def returns_it(n: object, via: frozenset[str] = via) -> bool:
                return isinstance(n, ast.Return) and n.value is not None and (bool(names_in(n.value) & via) or constructs_error(n.value))

            ok = False
            for t in ast.walk(g.node):
                pol = _polarity(t.test, is_error_test) if isinstance(t, ast.If) else None
                if pol is None or st is None or ev_stmt is None:
                    continue
                err_entry, _ = _arm_entries(cfg, t, pol)
                after = cfg.reachable_from(err_entry, avoid=returns_it) if not returns_it(err_entry) else set()
                diverted = not any(n is ev_stmt or n is EXIT or isinstance(n, (ast.For, ast.While)) for n in after)
                guarded = st is t or cfg.every_path_passes(st, ev_stmt, lambda n, t=t: n is t)
                ok = ok or (diverted and guarded)
            if not ok:
                unreported.append(norm(leaf)[:70])
        rep.check(not unreported, "R15.6", f"{g.name}::conversion-error-returned",
                  "a default that the merged property rejects is not reported: the error is not returned on every path between the conversion "
                  "and the merged copy", where(g, c), lhs=sorted(set(unreported)), rhs="if isinstance(<converted>, PropertyError): return <converted>")
    rep.floor("merged_default_sites", len(sites), 1)


# ======================================================================================================================
# R15.7: every property of the composed model contributes its imports
# ======================================================================================================================

_SAME_ELEMENTS = ("list", "tuple", "sorted", "reversed", "iter", "chain", "set", "frozenset")  # calls that yield every element of their arguments


def _unfiltered_sources(e: ast.AST, lc: Locals, depth: int = 5) -> set[str]:
    """the collections of which an iteration over e visits every element (nothing filtered out on the way), by name"""
    if depth == 0:
        return set()
    if isinstance(e, ast.Name):
        ds = lc.defs.get(e.id, [])
        if len(ds) == 1 and ds[0][0] == "assign" and ds[0][2] is not None:
            return {e.id} | _unfiltered_sources(ds[0][2], lc, depth - 1)
        return {e.id}
    if isinstance(e, ast.Attribute):
        return {norm(e)}
    if isinstance(e, (ast.ListComp, ast.SetComp, ast.GeneratorExp)):
        if len(e.generators) == 1 and not e.generators[0].ifs:
            return _unfiltered_sources(e.generators[0].iter, lc, depth - 1)
        return set()
    if isinstance(e, ast.Call):
        if isinstance(e.func, ast.Attribute) and e.func.attr in ("values", "copy") and not e.args:
            return _unfiltered_sources(e.func.value, lc, depth - 1)
        if call_name(e).rsplit(".", 1)[-1] in _SAME_ELEMENTS:
            return set().union(*[_unfiltered_sources(a.value if isinstance(a, ast.Starred) else a, lc, depth - 1) for a in e.args]) if e.args else set()
        return set()
    if isinstance(e, ast.BinOp) and isinstance(e.op, ast.Add):
        return _unfiltered_sources(e.left, lc, depth - 1) | _unfiltered_sources(e.right, lc, depth - 1)
    if isinstance(e, (ast.List, ast.Tuple)):
        return set().union(*[_unfiltered_sources(x.value, lc, depth - 1) for x in e.elts if isinstance(x, ast.Starred)]) if e.elts else set()
    return set()


def _binder(fn: ast.AST, node: ast.AST, name: str) -> ast.For | ast.comprehension | None:
    """the innermost loop / comprehension clause around node that binds name"""
    parents = {id(c): p for p in ast.walk(fn) for c in ast.iter_child_nodes(p)}
    n = node
    while id(n) in parents:
        p = parents[id(n)]
        if isinstance(p, (ast.For, ast.AsyncFor)) and n is not p.iter and name in names_in(p.target):
            return p
        if isinstance(p, (ast.ListComp, ast.SetComp, ast.GeneratorExp, ast.DictComp)):
            for gen in p.generators:
                if name in names_in(gen.target) and n is not gen:
                    return gen
        n = p
    return None


def _imports_of_every_property(rep: Report, ctx: Any, cfgs: dict[str, CFG]) -> None:
    ix = ctx.py
    _, pp, reg, nested = _composition(ix)
    funcs = list({f.qual: f for f in [*reg, *nested]}.values())
    # roles: the result (the call that hands back the two property lists and the two import sets), the mapping every property of the
    # composed model is stored in, the two result lists - each as _process_properties calls them
    fields = list(ix.cls("_PropertyData").fields)
    def makes_result(g: Any, c: ast.AST) -> bool:
        """the call constructs the result: by the name of its class, or as `cls(...)` in an alternative constructor of that class"""
        if not isinstance(c, ast.Call):
            return False
        if call_name(c).rsplit(".", 1)[-1] == "_PropertyData":
            return True
        first = [a.arg for a in [*g.node.args.posonlyargs, *g.node.args.args]][:1]
        return g.cls is not None and g.cls.name == "_PropertyData" and g.kind == "classmethod" and [call_name(c)] == first

    results = [(g, c) for g in funcs for c in _own_nodes(g.node) if makes_result(g, c)]
    rep.require(results, "construction of the result (_PropertyData) in the region of _process_properties")
    role: dict[str, set[str]] = {}
    for g, c in results:
        given = {**dict(zip(fields, c.args)), **{kw.arg: kw.value for kw in c.keywords if kw.arg}}
        for k, v in given.items():
            role.setdefault(k, set()).update(_in_caller(pp, g, _unfiltered_sources(v, Locals(g.node)) or names_in(v)))
    for g in funcs:  # ... or what is filled in afterwards: the field of a result object is that variable, wherever the object is at hand
        for n in _own_nodes(g.node):
            if isinstance(n, ast.Attribute) and isinstance(n.value, ast.Name) and n.attr in fields and "_PropertyData" in _receiver_classes(g, n.value.id):
                var = f"{n.value.id}.{n.attr}"
                role.setdefault(n.attr, set()).update(_in_caller(pp, g, {var}) or {f"{g.name}: {var}"})
    rep.floor("composed_result_roles", sum(1 for k in ("required_props", "optional_props", "relative_imports", "lazy_imports") if role.get(k)), 2)
    lists = [role.get("required_props", set()), role.get("optional_props", set())]
    storage: set[str] = set()
    for g in funcs:
        mine = local_names(g.node) if g.qual != pp.qual else set()
        for n in _own_nodes(g.node):
            if _is_store(n, mine):
                storage |= _in_caller(pp, g, _store_targets(n, mine))
    rep.require(storage, "the mapping the properties of the composed model are collected in")

    def seen_from_pp(g: Any, sources: set[str]) -> set[str]:
        """a helper's parameter stands for everything the argument of its call iterates"""
        if g.qual == pp.qual or _encloses(pp, g):
            return sources
        out = set(sources)
        for h in funcs:
            for c in calls_in(h.node):
                if _calls_fn(h, c, g):
                    bound = _bind_args(g.node, _plain_call(g, c)) or {}
                    for p_, a in bound.items():
                        if p_ in sources:
                            out |= seen_from_pp(h, _unfiltered_sources(a, Locals(h.node))) if h.qual != g.qual else set()
        return out

    def asked(g: Any, var: str, method: str, depth: int = 2) -> list[ast.Call]:
        """the calls of g by which `method` is called on what variable var holds (or on a copy made from it): `<var>.<method>(...)`, or the
        call of a function of the region that is handed it and calls the method on what it is handed on every path"""
        out: list[ast.Call] = []
        for c in _own_nodes(g.node):
            if not isinstance(c, ast.Call):
                continue
            if isinstance(c.func, ast.Attribute) and c.func.attr == method and isinstance(c.func.value, ast.Name) and c.func.value.id == var:
                out.append(c)
            elif depth > 0:
                for h in _callees(g, c, funcs):
                    bound = (_bind_args(h.node, _plain_call(h, c)) or {}) if h.qual != g.qual else {}
                    if any(var in names_in(a) and asked_always(h, p_, method, depth - 1) for p_, a in bound.items()):
                        out.append(c)
                        break
        return out

    def asked_always(h: Any, param: str, method: str, depth: int) -> bool:
        sts = [stmt_of(h.node, c) for c in asked(h, param, method, depth)]
        return bool(sts) and all(st is not None for st in sts) and \
            cfg_of(h, cfgs).every_path_passes(ENTRY, EXIT, lambda n: any(n is st for st in sts))

    for method, what in (("get_imports", "imports"), ("get_lazy_imports", "lazy-imports")):
        verdicts: list[tuple[bool, bool, str, Any, ast.AST]] = []
        for g in funcs:
            cfg = cfg_of(g, cfgs)
            # the iterations of g (loops and comprehensions), each with the places at which the method is asked of its element
            per_binder: dict[int, tuple[Any, list[ast.Call]]] = {}
            bound_vars = {v for n in _own_nodes(g.node) if isinstance(n, (ast.For, ast.AsyncFor, ast.comprehension)) for v in names_in(n.target)}
            for var in sorted(bound_vars):
                for c in asked(g, var, method):
                    b = _binder(g.node, c, var)
                    if b is not None:  # else: not the element of an iteration (a single extra property, say)
                        per_binder.setdefault(id(b), (b, []))[1].append(c)
            for b, cs in per_binder.values():
                sources = seen_from_pp(g, _unfiltered_sources(b.iter, Locals(g.node)))
                covers = bool(sources & storage) or (all(lists) and all(l_ & sources for l_ in lists))
                if isinstance(b, ast.comprehension):
                    always = not b.ifs
                else:
                    sts = [stmt_of(g.node, c) for c in cs]
                    inside = {id(x) for x in ast.walk(b)}
                    skipping = cfg.reachable_from(b.body[0], avoid=lambda n, sts=sts: any(n is s for s in sts)) if not any(b.body[0] is s for s in sts) else set()
                    # the next element is reached, or the loop is left for good, without the call (an error return ends everything)
                    always = all(s is not None for s in sts) and not any(n is b or (n is not EXIT and id(n) not in inside) for n in skipping)
                verdicts.append((covers, always, norm(b.iter)[:60], g, cs[0]))
        ok = any(cv and al for cv, al, _, _, _ in verdicts)
        at = where(verdicts[0][3], verdicts[0][4]) if verdicts else where(pp, pp.node)
        rep.check(ok, "R15.7", f"_process_properties::every-property-{what}",
                  f"{method}() is not called for every property of the composed model (all collected properties, on every path of the "
                  "iteration): a property taken over from a parent, or one kind of property, contributes no import and the generated "
                  "module fails with NameError when that property is used", at,
                  lhs=[{"over": it_, "all_properties": cv, "on_every_path": al} for cv, al, it_, _, _ in verdicts],
                  rhs="an iteration over all collected properties that calls it unconditionally")


# ======================================================================================================================
# R15.9: a stored property has been compared by python name with the collected ones
# ======================================================================================================================

def _python_names_compared(rep: Report, ctx: Any, cfgs: dict[str, CFG]) -> None:
    ix = ctx.py
    _, pp, reg, nested = _composition(ix)
    funcs = list({f.qual: f for f in [*reg, *nested]}.values())
    _aliases(pp, funcs)
    # the mapping (as _process_properties calls it) and the statements that store into it
    stores: list[tuple[Any, ast.stmt]] = []
    storage: set[str] = set()
    for g in funcs:
        mine = local_names(g.node) if g.qual != pp.qual else set()
        for n in _own_nodes(g.node):
            if _is_store(n, mine):
                storage |= _in_caller(pp, g, _store_targets(n, mine))
                stores.append((g, n))  # type: ignore[arg-type]
    rep.require(stores and storage, "the mapping the properties of the composed model are collected in")

    def compares_names(g: Any, nodes: Iterable[ast.AST], depth: int = 1) -> bool:
        """a comparison of python names is made by these nodes (of function g), or by a function of the region they call"""
        for n in nodes:
            for x in ast.walk(n):
                if isinstance(x, ast.Compare) and any(isinstance(a, ast.Attribute) and a.attr == "python_name" for a in ast.walk(x)):
                    return True
                if isinstance(x, ast.Call) and depth > 0:
                    if any(compares_names(h, [h.node], depth - 1) for h in _callees(g, x, funcs)):
                        return True
        return False

    def checks(g: Any, depth: int = 1) -> list[ast.stmt]:
        """the statements of g that compare python names across everything collected so far: a loop over the mapping (all of it) whose body
        compares, a statement with such a comprehension, or the call of a function of the region that has one"""
        out: list[ast.stmt] = []
        lc = Locals(g.node)
        mapping = _seen_as(pp, g, storage)
        for n in _own_nodes(g.node):
            if isinstance(n, (ast.For, ast.AsyncFor)) and _unfiltered_sources(n.iter, lc) & mapping and compares_names(g, n.body):
                out.append(n)
            elif isinstance(n, (ast.ListComp, ast.SetComp, ast.GeneratorExp, ast.DictComp)) and \
                    any(_unfiltered_sources(c.iter, lc) & mapping for c in n.generators):
                st = stmt_of(g.node, n)
                if st is not None and compares_names(g, [n] + [x for x in walk_own(st) if isinstance(x, ast.Compare) and any(y is n for y in ast.walk(x))]):
                    out.append(st)
            elif isinstance(n, ast.Call) and depth > 0:
                if any(h.qual != g.qual and checks(h, depth - 1) for h in _callees(g, n, funcs)):
                    st = stmt_of(g.node, n)
                    if st is not None:
                        out.append(st)
        return out

    def unchecked(g: Any, at: ast.stmt, depth: int = 1) -> list[tuple[Any, ast.stmt]]:
        """where the statement (a store, or the call of the function that stores) is reached without a comparison before it"""
        cs = checks(g)
        if any(c is not at and cfg_of(g, cfgs).is_dominated_by(at, lambda n, c=c: n is c) for c in cs):
            return []
        calls = [(h, stmt_of(h.node, c)) for h in funcs if h.qual != g.qual for c in _own_nodes(h.node)
                 if isinstance(c, ast.Call) and _calls_fn(h, c, g)]
        if depth == 0 or not calls or g.qual == pp.qual:
            return [(g, at)]
        return [bad for h, st in calls if st is not None for bad in unchecked(h, st, depth - 1)] if not cs else [(g, at)]

    for g, st in stores:
        tg = st.targets if isinstance(st, ast.Assign) else [st.target]  # type: ignore[attr-defined]
        key = next((t.slice for t in tg if isinstance(t, ast.Subscript)), None)
        bad = unchecked(g, st)
        rep.check(not bad, "R15.9", f"{g.name}::python-name-compared-before-store[{anon(key, local_names(g.node)) if key is not None else ''}]",
                  "a property is stored in the composed model on a path on which it has not been compared by python name with the properties "
                  "collected so far: a redefined (merged) or inherited property may take the python name of another member's property, which "
                  "then is neither accepted nor emitted by the composed class", where(*bad[0]) if bad else where(g, st),
                  lhs=[f"{h.name}: {norm(x)[:60]}" for h, x in bad], rhs="dominated by a comparison with every collected property's python_name")
    rep.floor("stores_after_python_name_comparison", len(stores), 1)  # the stores that were judged (one that fails is a finding, not a missing anchor)


# ======================================================================================================================
# R15.8: the schema layer does not take a composition apart
# ======================================================================================================================

_TYPED_SHAPES = {"type is a string": ("str", "list"), "type is a list": ("list", "str")}


def _reachable_under(cfg: CFG, env: dict[str, bool], store: dict[str, ast.expr | None], follow: Follow | None = None) -> set[object]:
    """the statements that can be executed when the given atoms have the given truth values (other atoms are free): a decision whose test
    cannot have an outcome does not go that way, whatever the order or nesting of the decisions.  `follow`: the functions whose call in a
    test is decided by what they return under the same truth values"""
    seen: set[object] = {ENTRY}
    stack: list[object] = [ENTRY]
    while stack:
        n = stack.pop()
        closed: set[int] = set()
        if isinstance(n, ast.If):
            t_entry, f_entry = _arm_entries(cfg, n, True)
            if t_entry is not f_entry:
                possible = _values_of_test(n.test, env, store, follow)
                closed = {id(e) for v, e in ((True, t_entry), (False, f_entry)) if v not in possible}
        for nx in cfg.succ.get(n, ()):
            if id(nx) not in closed and nx not in seen:
                seen.add(nx)
                stack.append(nx)
    return seen


def _without_receiver(fn: ast.FunctionDef) -> ast.FunctionDef:
    """the method as the function of its remaining parameters that `<receiver>.<method>(...)` calls"""
    out = copy.copy(fn)
    out.args = copy.copy(fn.args)
    if fn.args.posonlyargs:
        out.args.posonlyargs = fn.args.posonlyargs[1:]
    else:
        out.args.args = fn.args.args[1:]
    return out


def _composed_schema_stays_whole(rep: Report, ctx: Any, cfgs: dict[str, CFG]) -> None:
    ix = ctx.py
    sch = ix.cls("Schema")
    # a method is judged together with the methods it calls on the same object: what such a method does happens where it is called (on
    # the paths on which it is called), and what it answers decides the test that asks it.  The verdict belongs to the methods nothing
    # else of the class calls - the validators pydantic runs.
    methods = {}
    for m in sch.methods.values():
        pos = [*m.node.args.posonlyargs, *m.node.args.args]
        if pos and m.kind not in ("staticmethod", "classmethod"):
            methods[m.name] = (m, pos[0].arg)

    def of_me(t: ast.AST, me: str) -> bool:
        return isinstance(t, ast.Attribute) and t.attr == "allOf" and isinstance(t.value, ast.Name) and t.value.id == me

    def moves_of(m: Any, me: str) -> list[ast.stmt]:
        moves: list[ast.stmt] = []
        for st in _own_nodes(m.node):
            if isinstance(st, (ast.Assign, ast.AugAssign, ast.AnnAssign, ast.Delete)):
                tg = st.targets if isinstance(st, (ast.Assign, ast.Delete)) else [st.target]
                if any(of_me(x, me) for t in tg for x in ast.walk(t) if isinstance(getattr(x, "ctx", None), (ast.Store, ast.Del))):
                    moves.append(st)
            elif isinstance(st, ast.Expr) and isinstance(st.value, ast.Call) and isinstance(st.value.func, ast.Attribute) and \
                    st.value.func.attr in ("clear", "pop", "remove") and of_me(st.value.func.value, me):
                moves.append(st)
        return moves

    def own_calls(m: Any, me: str, node: ast.stmt | None = None) -> list[tuple[ast.Call, str]]:
        """the calls `<me>.<method of the class>(...)` made by the method (by one of its statements)"""
        nodes = _own_nodes(m.node) if node is None else walk_own(node)
        return [(c, c.func.attr) for c in nodes if isinstance(c, ast.Call) and isinstance(c.func, ast.Attribute) and
                isinstance(c.func.value, ast.Name) and c.func.value.id == me and c.func.attr in methods]

    called = {h for m, me in methods.values() for _, h in own_calls(m, me) if h != m.name}
    roots = [(m, me) for m, me in methods.values() if m.name not in called or m.decorators]

    def shapes(m: Any, me: str, store: dict[str, ast.expr | None]) -> dict[str, dict[str, bool]]:
        """the truth values of the tests on `<me>.type` for a schema whose type is a string / a list / absent"""
        type_tests = [r for c in calls_in(m.node) if call_name(c) == "isinstance" and len(c.args) == 2
                      for r in [_resolve(c, _State(store))] if isinstance(r, ast.Call) and norm(r.args[0]) == f"{me}.type"]
        out: dict[str, dict[str, bool]] = {}
        for shape, (yes, no) in _TYPED_SHAPES.items():
            env = {f"isinstance({me}.type, {yes})": True, f"isinstance({me}.type, {no})": False, f"{me}.type is None": False,
                   f"{me}.type == None": False, f"{me}.type": True}
            for r in type_tests:  # whatever classes a test names, alone or in a tuple
                env[norm(r)] = yes in {norm(t) for t in (r.args[1].elts if isinstance(r.args[1], ast.Tuple) else [r.args[1]])}
            out[shape] = env
        env = {f"isinstance({me}.type, str)": False, f"isinstance({me}.type, list)": False, f"{me}.type is None": True,
               f"{me}.type == None": True, f"{me}.type": False}
        for r in type_tests:
            env[norm(r)] = False
        out["no type"] = env
        return out

    def taken(m: Any, me: str, shape: str | None, via: tuple[str, ...] = ()) -> list[tuple[Any, ast.stmt]]:
        """the statements that take allOf away when the method runs for a schema of that shape (None: whatever the schema), in the method or
        in a method it calls on the same object on such a path"""
        cfg = cfg_of(m, cfgs)
        lc = Locals(m.node)
        store: dict[str, ast.expr | None] = {n: ds[0][2] for n, ds in lc.defs.items()
                                              if len(ds) == 1 and ds[0][0] == "assign" and isinstance(ds[0][2], ast.expr)}
        if shape is None:
            can = set(cfg.reachable_from(ENTRY))
        else:
            env: dict[str, bool] = {}
            asked: dict[str, ast.FunctionDef] = {}
            for _, h in own_calls(m, me):  # a method that is asked in a test answers for a schema of the same shape
                hm, hme = methods[h]
                if h not in via and h != m.name and hme == me:
                    asked[f"{me}.{h}"] = _without_receiver(hm.node)
                    env.update(shapes(hm, hme, {})[shape])
            env.update(shapes(m, me, store)[shape])
            can = _reachable_under(cfg, env, store, Follow(test=asked))
        out = [(m, st) for st in moves_of(m, me) if st in can]
        for n in can:
            for _, h in (own_calls(m, me, n) if isinstance(n, ast.stmt) else []):
                if h not in via and h != m.name:
                    out += taken(*methods[h], shape, (*via, m.name))
        return out

    n_moves = 0
    for m, me in roots:
        anywhere = taken(m, me, None)
        if not anywhere:
            continue
        n_moves += len({id(st) for _, st in anywhere})
        typed = [(f"{shape}: {norm(st)[:50]}", g, st) for shape in _TYPED_SHAPES for g, st in taken(m, me, shape)]
        at = where(*anywhere[0])
        rep.check(not typed, "R15.8", f"Schema.{m.name}::allOf-stays-with-typed-schema",
                  "a schema that has a `type` loses its allOf to a nested schema: the properties and `required` written next to the allOf are "
                  "no longer part of the composition (they are silently dropped from the composed model)", where(*typed[0][1:]) if typed else at,
                  lhs=[t for t, _, _ in typed], rhs="allOf is never moved away from its sibling keywords")
        # the same question for a schema without `type`: the keywords written next to the allOf do not travel with it either
        untyped = [(f"no type: {norm(st)[:50]}", g, st) for g, st in taken(m, me, "no type")]
        rep.check(not untyped, "R15.8", f"Schema.{m.name}::allOf-stays-with-untyped-schema",
                  "a schema without `type` loses its allOf to a nested schema while `properties` / `required` written next to the allOf "
                  "stay behind on the outer schema: they are silently dropped from the composed model", where(*untyped[0][1:]) if untyped else at,
                  lhs=[t for t, _, _ in untyped], rhs="allOf is never moved away from its sibling keywords")
    rep.floor("allOf_moved_by_schema_validators", n_moves, 1)


# ======================================================================================================================
# R15.4: _process_models
# ======================================================================================================================

def _flows_into(fn: ast.AST, sinks: set[str]) -> set[str]:
    """local names whose contents end up in one of the sink names: x.extend(y), x += y, x = [*y, *z] / y + z / list(chain(y, z))"""
    feeds = set(sinks)
    changed = True
    while changed:
        changed = False
        new: set[str] = set()
        for n in ast.walk(fn):
            if isinstance(n, (ast.Assign, ast.AnnAssign)) and n.value is not None:
                tg = n.targets if isinstance(n, ast.Assign) else [n.target]
                if any(isinstance(t, ast.Name) and t.id in feeds for t in tg):
                    new |= names_in(n.value)
            elif isinstance(n, ast.AugAssign) and isinstance(n.target, ast.Name) and n.target.id in feeds:
                new |= names_in(n.value)
            elif isinstance(n, ast.Call) and isinstance(n.func, ast.Attribute) and n.func.attr in ("extend", "update") and norm(n.func.value) in feeds:
                new |= {x for a in n.args for x in names_in(a)}
        if not new <= feeds:
            feeds |= new
            changed = True
    return feeds


def _sep_anchored(e: ast.AST | None, fn: ast.AST) -> bool:
    """does the suffix start with the path separator (so that it can only match a whole last component)?"""
    if isinstance(e, ast.JoinedStr):
        return bool(e.values) and isinstance(e.values[0], ast.Constant) and str(e.values[0].value).startswith("/")
    if isinstance(e, ast.Constant):
        return str(e.value).startswith("/")
    if isinstance(e, ast.BinOp) and isinstance(e.op, ast.Add):
        return _sep_anchored(e.left, fn)
    if isinstance(e, ast.Name):
        vals = Locals(fn).values_of(e.id)
        return bool(vals) and all(_sep_anchored(v, fn) for v in vals)
    return False


def _with_record_methods(ix: Any, reg: list[Any]) -> list[Any]:
    """the functions of a region plus the methods of the private classes of their module that they make instances of (a record that
    carries part of the function's state together with the code that works on it is part of the function, like a private helper)"""
    out = list(reg)
    seen = {f.qual for f in out}
    frontier = list(reg)
    for _ in range(2):
        nxt = []
        for g in frontier:
            for c in calls_in(g.node):
                name = call_name(c)
                if name.startswith("_") and name.count(".") == 1:
                    name = name.split(".", 1)[0]  # `_Record.empty(...)`: a constructor of the record by another name
                r = ix.resolve(g.module, name) if name.startswith("_") and "." not in name else None
                if r and r[0] == "class" and r[1].module is g.module:
                    for m in r[1].methods.values():
                        if m.qual not in seen:
                            seen.add(m.qual)
                            out.append(m)
                            nxt.append(m)
        frontier = nxt
    return out


def _held(e: ast.expr, fn: ast.AST, keep: set[str], depth: int = 3) -> ast.expr:
    """e with the locals of fn that are bound once, by an assignment, replaced by what they are bound to (`keep`: names that stay)"""
    lc = Locals(fn)
    own = {n: [d for d in ds if not isinstance(d[1], ast.comprehension)] for n, ds in lc.defs.items()}  # a comprehension's variable is its own
    store: dict[str, ast.expr | None] = {n: ds[0][2] for n, ds in own.items() if n not in keep and len(ds) == 1 and ds[0][0] == "assign"
                                          and isinstance(ds[0][2], ast.expr)}
    for _ in range(depth):
        if not (names_in(e) & set(store)):
            break
        e = _Subst(store).visit(copy.deepcopy(e))
    return e


_UNK = object()
_PARENT_LISTS = ("required_properties", "optional_properties")


def _concrete(e: ast.AST, attrs: dict[str, Any]) -> Any:
    """the value of an expression over `<x>.required_properties` / `<x>.optional_properties` when these hold the given values (None, an
    empty list, a list with something in it); _UNK when it depends on anything else.  Elements of collections are opaque."""
    def truth(x: ast.AST) -> bool | None:
        return _truth3(x, attrs)

    if isinstance(e, ast.Attribute) and e.attr in attrs:
        return attrs[e.attr]
    if isinstance(e, ast.Constant):
        return e.value
    if isinstance(e, ast.NamedExpr):
        return _concrete(e.value, attrs)
    if isinstance(e, (ast.List, ast.Tuple, ast.Set)):
        out: list[Any] = []
        for x in e.elts:
            if isinstance(x, ast.Starred):
                v = _concrete(x.value, attrs)
                if v is _UNK or v is None or not isinstance(v, (list, tuple)):
                    return _UNK
                out += list(v)
            else:
                out.append(object())
        return tuple(out) if isinstance(e, ast.Tuple) else out
    if isinstance(e, ast.BoolOp):
        is_and = isinstance(e.op, ast.And)
        for x in e.values[:-1]:
            t = truth(x)
            if t is None:
                return _UNK
            if t != is_and:
                return _concrete(x, attrs)
        return _concrete(e.values[-1], attrs)
    if isinstance(e, ast.UnaryOp) and isinstance(e.op, ast.Not):
        t = truth(e.operand)
        return _UNK if t is None else not t
    if isinstance(e, ast.IfExp):
        t = truth(e.test)
        return _UNK if t is None else _concrete(e.body if t else e.orelse, attrs)
    if isinstance(e, ast.BinOp) and isinstance(e.op, ast.Add):
        a, b = _concrete(e.left, attrs), _concrete(e.right, attrs)
        if isinstance(a, (list, tuple)) and isinstance(b, (list, tuple)):
            return list(a) + list(b)
        return _UNK
    if isinstance(e, ast.Compare) and len(e.ops) == 1:
        a, b = _concrete(e.left, attrs), _concrete(e.comparators[0], attrs)
        if a is _UNK or b is _UNK:
            return _UNK
        op = e.ops[0]
        try:
            if isinstance(op, (ast.Is, ast.IsNot)):
                if a is None or b is None:
                    return (a is b) == isinstance(op, ast.Is)
                return _UNK
            if isinstance(op, (ast.Eq, ast.NotEq)):
                if any(isinstance(x, (list, tuple)) and x for x in (a, b)) and type(a) is type(b):
                    return _UNK  # opaque elements
                return (a == b) == isinstance(op, ast.Eq)
            if isinstance(op, (ast.Lt, ast.LtE, ast.Gt, ast.GtE)) and all(isinstance(x, (int, float)) for x in (a, b)):
                return {ast.Lt: a < b, ast.LtE: a <= b, ast.Gt: a > b, ast.GtE: a >= b}[type(op)]
        except Exception:
            return _UNK
        return _UNK
    if isinstance(e, ast.Call) and not e.keywords:
        fn = call_name(e).rsplit(".", 1)[-1]
        args = [_concrete(a, attrs) for a in e.args if not isinstance(a, ast.Starred)]
        if len(args) != len(e.args):
            return _UNK
        if fn == "isinstance" and len(args) == 2 and args[0] is not _UNK:
            classes = {norm(t).rsplit(".", 1)[-1] for t in (e.args[1].elts if isinstance(e.args[1], ast.Tuple) else [e.args[1]])}
            known = {"list": list, "tuple": tuple, "type(None)": type(None), "NoneType": type(None)}
            if any(c in known and isinstance(args[0], known[c]) for c in classes):
                return True
            if args[0] is None or classes <= set(known):
                return False  # None is an instance of nothing else a test would name
            return _UNK
        if any(a is _UNK for a in args):
            return _UNK
        try:
            if fn == "len" and len(args) == 1:
                return len(args[0])
            if fn == "bool" and len(args) == 1:
                return bool(args[0])
            if fn in ("list", "tuple", "sorted", "set", "frozenset", "reversed") and len(args) == 1:
                return list(args[0])
            if fn in ("chain", "from_iterable"):
                return [x for a in (args[0] if fn == "from_iterable" else args) for x in a]
        except TypeError:
            return _UNK  # len(None), list(None): the code would raise there; not this function's question
    return _UNK


def _truth3(e: ast.AST, attrs: dict[str, Any]) -> bool | None:
    """the truth value of the expression under the given values of the two lists (None: it depends on something else)"""
    if isinstance(e, ast.BoolOp):
        ts = [_truth3(x, attrs) for x in e.values]
        if isinstance(e.op, ast.And):
            return False if any(t is False for t in ts) else True if all(t is True for t in ts) else None
        return True if any(t is True for t in ts) else False if all(t is False for t in ts) else None
    if isinstance(e, ast.UnaryOp) and isinstance(e.op, ast.Not):
        t = _truth3(e.operand, attrs)
        return None if t is None else not t
    v = _concrete(e, attrs)
    return None if v is _UNK else bool(v)


def _inlined(e: ast.expr, g: Any, reg: list[Any], depth: int = 2) -> ast.expr:
    """e with the locals of g replaced by what they hold and the call of a function of the region that consists of one `return` replaced
    by what it returns for these arguments (a predicate that was given a name)"""
    e = _held(e, g.node, set())
    if depth == 0:
        return e

    class Inline(ast.NodeTransformer):
        def visit_Call(self, c: ast.Call) -> ast.AST:
            self.generic_visit(c)
            last = call_name(c).rsplit(".", 1)[-1]
            for h in reg:
                if h.name != last or h.qual == g.qual:
                    continue
                rets = [r for r in _own_nodes(h.node) if isinstance(r, ast.Return)]
                if len(rets) != 1 or rets[0].value is None:
                    continue
                fn, call = h.node, c
                if h.cls is not None and h.kind not in ("staticmethod", "classmethod") and isinstance(c.func, ast.Attribute):
                    fn = h.node  # <receiver>.<method>(...): the receiver is the first parameter
                    call = ast.Call(func=ast.Name(id=last, ctx=ast.Load()), args=[c.func.value, *c.args], keywords=c.keywords)
                bound = _bind_args(fn, call)
                if bound is not None:
                    return _Subst(bound).visit(copy.deepcopy(_inlined(rets[0].value, h, reg, depth - 1)))  # type: ignore[arg-type]
            return c

    return Inline().visit(copy.deepcopy(e))


def _converted_exceptions(reg: list[Any]) -> set[str]:
    """the exception classes that a function of the region catches and answers with a return: raising one of them below that function is
    how the region returns (an error) from anywhere in it"""
    out: set[str] = set()
    for g in reg:
        for h in ast.walk(g.node):
            if isinstance(h, ast.ExceptHandler) and h.type is not None and any(isinstance(x, ast.Return) and x.value is not None for b in h.body for x in ast.walk(b)):
                out |= {norm(t).rsplit(".", 1)[-1] for t in (h.type.elts if isinstance(h.type, ast.Tuple) else [h.type])}
    return out - {"Exception", "BaseException"}


def _raises_into(n: object, converted: set[str]) -> bool:
    """statement n raises an exception of a class that the region converts into what it returns"""
    if not isinstance(n, ast.Raise) or n.exc is None:
        return False
    e = n.exc
    return (call_name(e) if isinstance(e, ast.Call) else norm(e)).rsplit(".", 1)[-1] in converted


def _parents_first(rep: Report, ctx: Any, cfgs: dict[str, CFG]) -> None:
    ix = ctx.py
    pm = ix.func("properties._process_models")
    reg = _with_record_methods(ix, region(ix, pm))
    helpers = {g.name: g for g in reg if g is not pm}
    cfg = cfg_of(pm, cfgs)
    # roles: the work list is what the loop calling process_model iterates; the next round is what is assigned to it at the end of a
    # pass, computed from a list the model is put into during the pass (that list itself, or the models of the records in it); a recorded
    # error is something that holds the model and the outcome of process_model (a tuple, a record) appended to a list whose contents
    # reach _process_model_errors
    ploops = [n for n in ast.walk(pm.node) if isinstance(n, ast.For) and any(call_name(c) == "process_model" for c in calls_in(n))]
    rep.require(ploops, "loop calling process_model")
    pl = ploops[0]
    model, work = norm(pl.target), norm(pl.iter)
    rounds = [w for w in ast.walk(pm.node) if isinstance(w, ast.While) and any(x is pl for x in ast.walk(w))]
    rep.require(rounds, "the loop that repeats the pass over the models")
    reset_each_round = {t.id for w in rounds for a in ast.walk(w) if isinstance(a, (ast.Assign, ast.AnnAssign)) for t in
                        (a.targets if isinstance(a, ast.Assign) else [a.target]) if isinstance(t, ast.Name)}
    lc = Locals(pm.node)
    outcomes = set(lc.bound_from(lambda v: v.startswith("process_model("), "assign"))
    puts = [(r, c, _held(c.args[0], pm.node, outcomes | {model})) for r, c in receivers(pl, "append") if len(c.args) == 1]
    puts = [(r, c, x) for r, c, x in puts if model in names_in(x)]  # what is put there holds the model

    def resets(n: object, lst: str) -> bool:
        if isinstance(n, (ast.Assign, ast.AnnAssign)) and n.value is not None:
            tg = n.targets if isinstance(n, ast.Assign) else [n.target]
            if any(norm(t) == lst for t in tg) and lst not in names_in(n.value):
                return True  # bound to something that does not contain what it held
            return any(isinstance(t, ast.Subscript) and norm(t.value) == lst and isinstance(t.slice, ast.Slice) and
                       t.slice.lower is None and t.slice.upper is None for t in tg) and isinstance(n.value, (ast.List, ast.Tuple)) and not n.value.elts
        if isinstance(n, ast.Expr) and isinstance(n.value, ast.Call) and isinstance(n.value.func, ast.Attribute):
            return n.value.func.attr == "clear" and norm(n.value.func.value) == lst
        if isinstance(n, ast.Delete):
            return any(isinstance(t, ast.Subscript) and norm(t.value) == lst for t in n.targets)
        return False

    # the lists the next round is made of: assigned to the work list after the pass, while they still hold what the pass put there
    nxt: set[str] = set()
    for a in ast.walk(pm.node):
        if isinstance(a, ast.Assign) and norm(a.targets[0]) == work and not any(x is a for x in ast.walk(pl)):
            for r in {r for r, _, _ in puts} & names_in(a.value):
                if a in cfg.reachable_from(pl, avoid=lambda n, r=r: resets(n, r)):
                    nxt.add(r)
    requeues = [c for r, c, _ in puts if r in nxt]
    records = [(r, c) for r, c, x in puts if names_in(x) & outcomes]
    sink = [c for c in calls_in(pm.node) if call_name(c) == "_process_model_errors"]
    rep.require(sink, "call of _process_model_errors")
    feeds = _flows_into(pm.node, {x for c in sink for a in c.args for x in names_in(a)})
    recorded = {r for r, _ in records}
    # every model of a round is accounted for: processed (the schemas it produced are kept), queued for the next round, or reported
    kept = [a for a in ast.walk(pl) if isinstance(a, ast.Assign) and isinstance(a.value, ast.Name) and a.value.id in outcomes and norm(a.targets[0]) == "schemas"]
    req_st = [stmt_of(pm.node, c) for c in requeues]
    final_st = [stmt_of(pm.node, c) for r, c in records if r in feeds and r not in reset_each_round]
    accounted = kept + req_st + final_st
    every = bool(pl.body) and (pl.body[0] in accounted or cfg.every_path_passes(pl.body[0], pl, lambda n: n in accounted))
    rep.check(bool(requeues) and bool(recorded) and recorded <= feeds and every, "R15.4", "_process_models::requeue",
              "a model whose parent is not processed yet is not re-queued (or its error of the last round is not reported)", where(pm, pl),
              lhs={"requeue": [norm(c) for c in requeues], "recorded_in": sorted(recorded), "reported": sorted(feeds), "every_model_accounted_for": every},
              rhs="<model> put into what the next round is made of and <model> with its error recorded in a list that reaches _process_model_errors, on every path")

    # an error recorded for a model that is also queued for the next round is provisional: the next round decides anew.  The list it is
    # recorded in starts every round empty (else a model that succeeds when it is retried is still reported - and removed), and is not
    # emptied between the last round and the report
    inside = {id(x) for x in ast.walk(pl)}
    round_ends = [n for n in cfg.nodes if isinstance(n, ast.stmt) and id(n) not in inside and
                  any(p_ is pl or id(p_) in inside for p_ in cfg.pred.get(n, ()))]
    sink_st = [stmt_of(pm.node, c) for c in sink]
    provisional = sorted({r for r, c in records if any(
        q is not None and st is not None and (q in cfg.reachable_from(st, avoid=lambda n: n is pl) or st in cfg.reachable_from(q, avoid=lambda n: n is pl))
        for st in [stmt_of(pm.node, c)] for q in req_st)})
    stale, lost = [], []
    for lst in provisional:
        for e_ in round_ends:
            if not resets(e_, lst) and pl in cfg.reachable_from(e_) and not cfg.every_path_passes(e_, pl, lambda n, lst=lst: resets(n, lst)):
                stale.append(lst)
            after_last = cfg.reachable_from(e_, avoid=lambda n: n is pl)
            if any(resets(n, lst) and any(s_ in cfg.reachable_from(n, avoid=lambda m: m is pl) for s_ in sink_st) for n in after_last):
                lost.append(lst)
    rep.check(not stale and not lost, "R15.4", "_process_models::retried-model-error-is-provisional",
              "the error of a model that is queued for another round is kept beyond that round (the list it is recorded in is not emptied on "
              "every path from the end of one round to the start of the next): a child declared before its parent is processed when it is "
              "retried and is reported and removed all the same - or the list is emptied before the last round's errors are reported",
              where(pm, pl), lhs={"recorded_with_requeue": provisional, "kept_across_rounds": sorted(set(stale)), "emptied_before_report": sorted(set(lost))},
              rhs="emptied between two rounds on every path, never between the last round and _process_model_errors")

    # the self-reference decision: the test (here or in a helper it calls) that looks at the end of the reference
    def ends_calls(e: ast.AST) -> list[tuple[Any, ast.Call]]:
        out = [(pm, c) for c in calls_in(e) if isinstance(c.func, ast.Attribute) and c.func.attr == "endswith"]
        for c in calls_in(e):
            h = helpers.get(call_name(c).rsplit(".", 1)[-1])
            if h is not None:
                out += [(h, x) for x in calls_in(h.node) if isinstance(x.func, ast.Attribute) and x.func.attr == "endswith"]
        return out

    def is_selfref(e: ast.AST) -> bool:
        return not isinstance(e, (ast.BoolOp, ast.UnaryOp)) and bool(ends_calls(e))

    decisions = [(s, _polarity(s.test, is_selfref)) for s in ast.walk(pl) if isinstance(s, ast.If)]
    decisions = [(s, p_) for s, p_ in decisions if p_ is not None]
    rep.require(decisions, "the test for a reference of a model to itself (endswith)")
    final_ok = True
    facts = []
    for s, pol in decisions:
        entry, _ = _arm_entries(cfg, s, pol)
        arm = cfg.reachable_from(entry, avoid=lambda n: n is pl) if entry is not pl else set()
        ok = bool(final_st) and entry is not pl and (entry in final_st or cfg.every_path_passes(entry, pl, lambda n: n in final_st)) and \
            not any(q in arm for q in req_st)
        facts.append({"test": norm(s.test)[:60], "recorded_for_good": ok})
        final_ok = final_ok and ok
    rep.check(final_ok, "R15.4", "_process_models::self-reference-final",
              "a self-referential allOf is not diverted to the final errors", where(pm, pm.node), lhs=facts,
              rhs="recorded in a list that survives all rounds and reaches _process_model_errors; not re-queued")
    for s, _ in decisions:
        for g, n in ends_calls(s.test):
            a = n.args[0] if n.args else None
            rep.check(_sep_anchored(a, g.node), "R15.4", "_process_models::self-reference-test-anchored",
                      "self reference is detected by a bare name suffix: a child whose name is a suffix of its parent's is never retried",
                      where(g, n), lhs=norm(n)[:80], rhs="endswith(f\"/{name}\")")
    # a parent that is not processed yet is an error of the child (which is what sends it into the next round) - and only such a parent:
    # the decision is whatever test, read with what its locals hold, looks at the two property lists of the parent and has an outcome
    # that ends in an error.  It is evaluated for the lists as they can be: None before the parent is processed, lists - empty ones
    # too - afterwards.
    _, pp, preg, _ = _composition(ix)
    converted = _converted_exceptions(preg)
    unprocessed = {a: None for a in _PARENT_LISTS}
    processed = [dict(zip(_PARENT_LISTS, v)) for v in itertools.product([[], [object()]], repeat=2)]
    found, reported, refused = False, False, []
    at = where(pp, pp.node)
    for g in _unique(preg):
        gcfg = cfg_of(g, cfgs)
        for s in _own_nodes(g.node):
            if not isinstance(s, ast.If):
                continue
            test = _inlined(s.test, g, preg)
            if not any(isinstance(a, ast.Attribute) and a.attr in _PARENT_LISTS for a in ast.walk(test)):
                continue
            is_err = lambda n: (isinstance(n, ast.Return) and constructs_error(n.value)) or _raises_into(n, converted)  # noqa: E731
            err_on = [v for v in (True, False) for entry in [_arm_entries(gcfg, s, v)[0]]
                      if is_err(entry) or EXIT not in gcfg.reachable_from(entry, avoid=is_err)]
            if len(err_on) != 1:
                continue
            found = True
            at = where(g, s)
            reported = reported or _truth3(test, unprocessed) is err_on[0]
            refused += [f"{norm(test)[:80]} when the lists are {sorted((k, len(v)) for k, v in sc.items())}" for sc in processed
                        if _truth3(test, sc) is err_on[0]]
    rep.require(found, "the test whether a referenced parent has been processed (decides on required_properties / optional_properties, one outcome is an error)")
    rep.check(reported, "R15.4", "_process_properties::unprocessed-parent-error", "a not-yet-processed parent is not reported (so never retried)", at)
    rep.check(not refused, "R15.4", "_process_properties::processed-parent-accepted",
              "a parent that has been processed is taken for one that has not (its property lists are there, but the test asks for more - "
              "for something in them): a child of a parent without properties of its own is sent into the next round again and again, "
              "and in the end reported and removed with everything composed from it", at, lhs=refused[:3],
              rhs="`not processed yet` holds only while the lists are None")


def _values_of_test(test: ast.expr, env: dict[str, bool], store: dict[str, ast.expr | None] | None = None,
                    follow: Follow | None = None) -> set[bool]:
    """the truth values a test can take when the given atoms have the given values (other atoms are free; `store`: what locals hold;
    `follow`: predicates that are decided by executing them under the same values)"""
    ex = SymExec(ast.parse("def _():\n    pass").body[0], env, follow)  # type: ignore[arg-type]
    return {v for v, _ in ex._truth(test, _State(store))}
