"""C15 - allOf composition is the conjunction of its members."""
from __future__ import annotations

import ast
import re
from typing import Any

from ..astutil import Locals, call_name, cfg_of, constructs_error, names_in, norm, receivers, short, stmt_calls, stmt_of, where
from ..cfg import CFG
from ..core import Report
from .siblings import enum_merge_parity

LEVEL = ("structural clauses on merge_properties / _process_properties / _process_models: every type-pair branch has its mirror "
         "selecting the same base class (order symmetry), the enum narrowing depends on member values, the final fall-through "
         "is an error; requiredness is a disjunction, inline members' `required` lists are unioned on every path, and must reach "
         "every inserted property; all members contribute (Reference and inline); parent properties are not mutated; the "
         "unprocessed-parent error re-queues, self-reference is diverted (separator-anchored test).")


def run(rep: Report, ctx: Any) -> str:
    ix = ctx.py
    it, _ = ctx.flow
    cfgs: dict[str, CFG] = {}
    rep.rule("R15.1", "merge is order-symmetric: each isinstance(prop1, A) and isinstance(prop2, B) branch has the mirrored branch "
                      "with the same base; enum narrowing compares (name, value) pairs; the fall-through of merge_properties is an error")
    rep.rule("R15.2", "requiredness only grows: `required` of a merge is a disjunction; inline members' required lists are unioned on "
                      "every path; every property inserted into the composed model takes its requiredness from required_set")
    rep.rule("R15.3", "all members contribute: data.properties and every element of data.allOf, Reference and inline Schema")
    rep.rule("R15.4", "parents first: the unprocessed-parent error re-queues the model; self reference is diverted to final errors")
    rep.rule("R15.5", "properties inherited from a referenced parent are shared objects and are not mutated while composing a child")

    mp = ix.func("merge_properties.merge_properties")
    # ---- R15.1 mirrors -----------------------------------------------------------------------------------------------
    n_pairs = 0
    for fname in ("_merge_string_with_format", "_merge_numeric"):
        f = ix.func(f"merge_properties.{fname}")
        branches = []
        for n in ast.walk(f.node):
            if isinstance(n, ast.If):
                cur: ast.stmt | None = n
                while isinstance(cur, ast.If):
                    branches.append(cur)
                    cur = cur.orelse[0] if len(cur.orelse) == 1 and isinstance(cur.orelse[0], ast.If) else None
                break
        pairs = []
        for b in branches:
            m = re.fullmatch(r"isinstance\((prop[12]), (.+?)\) and isinstance\((prop[12]), (.+)\)", norm(b.test))
            ret = next((r for r in b.body if isinstance(r, ast.Return)), None)
            if m and ret is not None and isinstance(ret.value, ast.Call):
                base = norm(ret.value.args[0]) if ret.value.args else ""
                pairs.append((m.group(1), m.group(2), m.group(3), m.group(4), base, b))
        n_pairs += len(pairs)
        rep.check(len(pairs) == 2, "R15.1", f"{fname}::two-mirrored-branches", "expected a branch and its mirror", where(f, f.node),
                  lhs=[norm(b.test)[:60] for b in branches], rhs="A/B and B/A")
        if len(pairs) == 2:
            (v1, t1, v2, t2, base1, b1), (w1, u1, w2, u2, base2, b2) = pairs
            mirrored = {v1: t1, v2: t2} == {w2: u2, w1: u1} or ({t1, t2} == {u1, u2} and v1 != w1)
            # the base (first positional argument of _merge_common_attributes) must be the more specific side in both
            spec1 = base1 == v1 if _more_specific(t1, t2) else base1 == v2
            spec2 = base2 == w1 if _more_specific(u1, u2) else base2 == w2
            rep.check(mirrored and spec1 and spec2, "R15.1", f"{fname}::symmetric",
                      "the two orders of the same type pair do not select the same (more specific) base class", where(f, f.node),
                      lhs=[norm(b1.test), base1], rhs=[norm(b2.test), base2])
    rep.floor("mirrored_type_pairs", n_pairs, 4)
    # Any on either side; enum on either side
    txt = norm(mp.node)
    for a, b in (("isinstance(prop2, AnyProperty)", "isinstance(prop1, AnyProperty)"),):
        rep.check(a in txt and b in txt, "R15.1", "merge_properties::any-both-sides", "AnyProperty is handled on one side only", where(mp, mp.node))
    for kind in ("EnumProperty", "LiteralEnumProperty"):
        rep.check(f"isinstance(prop1, {kind}) or isinstance(prop2, {kind})" in txt, "R15.1", f"merge_properties::{kind}-either-side",
                  f"{kind} is not dispatched symmetrically", where(mp, mp.node))
    body = [s for s in mp.node.body if not (isinstance(s, ast.Expr) and isinstance(s.value, ast.Constant))]
    rep.check(isinstance(body[-1], ast.Return) and constructs_error(body[-1].value), "R15.1", "merge_properties::fallthrough-error",
              "incompatible types are no longer a diagnostic", where(mp, body[-1]))
    enum_merge_parity(rep, ctx, "R15.1p")
    # the subset decision depends on values (wire values), not only on member names
    vs = ix.func("merge_properties._values_are_subset")
    cmp_ = [n for n in ast.walk(vs.node) if isinstance(n, ast.Compare) and isinstance(n.ops[0], (ast.LtE, ast.Lt))]
    rep.require(cmp_, "subset comparison in _values_are_subset")
    for n in cmp_:
        ok = True
        for side in (n.left, n.comparators[0]):
            av = it.node_av.get(id(side))
            el = av.elem if av is not None else None
            # elements must carry the member's value: (name, value) pairs or the values themselves
            has_value = el is not None and ((el.tup is not None and len(el.tup) == 2) or ".values()" in norm(side))
            ok = ok and has_value
        rep.check(ok, "R15.1", "_values_are_subset::compares-values",
                  "the narrowing decision between two enums looks at member names only: enums with different wire values that happen "
                  "to share generated names are treated as compatible", where(vs, n), lhs=norm(n)[:90], rhs="sets of (name, value) pairs")
    # both subset directions tried, else error
    me = ix.func("merge_properties._merge_with_enum")
    t2 = norm(me.node)
    rep.check("_values_are_subset(prop1, prop2)" in t2 and "_values_are_subset(prop2, prop1)" in t2, "R15.1", "_merge_with_enum::both-directions",
              "only one subset direction is tried", where(me, me.node))

    # ---- R15.2 -----------------------------------------------------------------------------------------------------------
    mca = ix.func("merge_properties._merge_common_attributes")
    ev_calls = [n for n in ast.walk(mca.node) if isinstance(n, ast.Call) and call_name(n).endswith("evolve") and any(kw.arg == "required" for kw in n.keywords)]
    rep.require(ev_calls, "required= in _merge_common_attributes")
    over = {norm(lp.target) for lp in ast.walk(mca.node) if isinstance(lp, ast.For) and norm(lp.iter) == "extend_with"}
    for c in ev_calls:
        kw = next(k for k in c.keywords if k.arg == "required")
        acc = norm(c.args[0]) if c.args else ""
        want = {f"{acc}.required"} | {f"{o}.required" for o in over}
        ok = isinstance(kw.value, ast.BoolOp) and isinstance(kw.value.op, ast.Or) and {norm(v) for v in kw.value.values} == want and len(want) == 2
        rep.check(ok, "R15.2", "_merge_common_attributes::required-disjunction", "merged requiredness is not `current.required or override.required`",
                  where(mca, kw.value), lhs=norm(kw.value), rhs=" or ".join(sorted(want)))
    pp = ix.func("model_property._process_properties")
    cfg = cfg_of(pp, cfgs)
    loop, branch = allof_branch(rep, pp)
    rep.require(branch.orelse, "inline branch in the allOf loop")
    member = norm(loop.target)
    # roles (locals are found by what they hold, never by their spelling):
    #   required set  = receiver of .update(<member>.required ...) in the inline branch / the set tested by the final partition
    #   pending props = the sequence iterated by the loop that calls property_from_data
    upd_calls = receivers(pp.node, "update", lambda a: f"{member}.required" in a)
    upd = [stmt_of(pp.node, c) for _, c in upd_calls]
    req_sets = {r for r, _ in upd_calls} | set(Locals(pp.node).bound_from(lambda v: "data.required" in v, "assign"))
    inline_first = branch.orelse[0]
    ok = bool(upd) and cfg.every_path_passes(inline_first, loop, lambda n: n in upd) or (inline_first in upd)
    rep.check(ok, "R15.2", "_process_properties::inline-required-unioned",
              "the `required` list of an inline allOf member is not added to required_set on every path (e.g. members without "
              "`properties`)", where(pp, inline_first), lhs=[norm(u)[:60] for u in upd], rhs="on every path through the inline branch")
    build_loops = [n for n in ast.walk(pp.node) if isinstance(n, ast.For) and any(call_name(c) == "property_from_data" for c in ast.walk(n)
                                                                                    if isinstance(c, ast.Call))]
    rep.require(build_loops, "loop that builds the collected properties (property_from_data)")
    pending = norm(build_loops[0].iter)
    props_ext = [stmt_of(pp.node, c) for r, c in receivers(pp.node, "extend", lambda a: f"{member}.properties" in a) if r == pending]
    rep.check(bool(props_ext) and (cfg.every_path_passes(inline_first, loop, lambda n: n in props_ext) or inline_first in props_ext),
              "R15.3", "_process_properties::inline-properties-collected", "inline member properties are not collected on every path",
              where(pp, inline_first), lhs=[norm(x)[:70] for x in props_ext], rhs=f"{pending}.extend({member}.properties...) on every inline path")
    # the required set reaches every property of the composed model: either each insertion consults it, or the final partition
    # promotes every property named in it (on a copy) before splitting into required / optional
    adds = [n for n in ast.walk(pp.node) if isinstance(n, ast.Call) and call_name(n) == "_add_if_no_conflict"]
    rep.floor("property_insertions", len(adds), 2)

    def in_req(e: ast.AST) -> bool:
        return any(isinstance(c_, ast.Compare) and isinstance(c_.ops[0], ast.In) and norm(c_.comparators[0]) in req_sets for c_ in ast.walk(e))

    promoted = False
    for lp in [n for n in ast.walk(pp.node) if isinstance(n, ast.For)]:
        split = next((s for s in lp.body if isinstance(s, ast.If) and norm(s.test) == f"{norm(lp.target)}.required"), None)
        for s in lp.body:
            if isinstance(s, ast.If) and in_req(s.test) and split is not None and lp.body.index(s) < lp.body.index(split):
                for a in s.body:
                    if isinstance(a, ast.Assign) and norm(a.targets[0]) == norm(lp.target) and "evolve(" in norm(a.value) and \
                            "required=True" in norm(a.value):
                        promoted = True
    for a in adds:
        arg = norm(a.args[0]) if a.args else ""
        in_ref_branch = any(x is a for s in branch.body for x in ast.walk(s))
        if in_ref_branch:
            rep.check(promoted, "R15.2", "_process_properties::reference-member-bypasses-required_set",
                      "properties taken from a referenced allOf member are inserted with the parent's requiredness and nothing promotes "
                      "them later: a sibling member's `required: [name]` does not make them mandatory", where(pp, a), lhs=arg,
                      rhs="required depends on required_set (at insertion or in the final partition)")
        else:
            dep = any(isinstance(s, ast.Assign) and in_req(s.value) for s in ast.walk(pp.node))
            rep.check(dep or promoted, "R15.2", "_process_properties::inline-insert-uses-required_set", "inserted property ignores required_set", where(pp, a))
    # ---- R15.3 ---------------------------------------------------------------------------------------------------------------
    rep.check("data.properties.items()" in norm(pp.node), "R15.3", "_process_properties::own-properties", "the schema's own properties are not collected",
              where(pp, pp.node))
    rep.check(isinstance(branch.test, ast.Call) and bool(branch.body) and bool(branch.orelse), "R15.3", "_process_properties::reference-and-inline",
              "allOf members of one kind are ignored", where(pp, branch))
    # ---- R15.5 -----------------------------------------------------------------------------------------------------------------
    check_no_parent_mutation(rep, ctx, "R15.5")
    # ---- R15.4 -------------------------------------------------------------------------------------------------------------------
    pm = ix.func("properties._process_models")
    t3 = norm(pm.node)
    # roles: the work list is what the loop calling process_model iterates; the next round is what is assigned to it at the end of a
    # pass; a recorded error is a (model, error) tuple appended to a list that reaches _process_model_errors
    ploops = [n for n in ast.walk(pm.node) if isinstance(n, ast.For) and any(call_name(c) == "process_model" for c in ast.walk(n) if isinstance(c, ast.Call))]
    rep.require(ploops, "loop calling process_model")
    pl = ploops[0]
    model, work = norm(pl.target), norm(pl.iter)
    nxt = {norm(a.value) for a in ast.walk(pm.node) if isinstance(a, ast.Assign) and norm(a.targets[0]) == work and isinstance(a.value, ast.Name)}
    requeues = [c for r, c in receivers(pl, "append", lambda a: a == model) if r in nxt]
    recorded = {r for r, _ in receivers(pl, "append", lambda a: a.startswith(f"({model},"))}
    sink = [c for c in ast.walk(pm.node) if isinstance(c, ast.Call) and call_name(c) == "_process_model_errors"]
    sink_args = {norm(a) for c in sink for a in c.args}
    feeds = sink_args | {norm(c.args[0]) for r, c in receivers(pm.node, "extend") if r in sink_args and c.args}
    rep.check(bool(requeues) and bool(recorded) and recorded <= feeds, "R15.4", "_process_models::requeue",
              "a model whose parent is not processed yet is not re-queued (or its error of the last round is not reported)", where(pm, pl),
              lhs={"requeue": [norm(c) for c in requeues], "recorded_in": sorted(recorded), "reported": sorted(feeds)},
              rhs="<next round>.append(<model>) and (<model>, <error>) recorded in a list that reaches _process_model_errors")
    rec_blocks = [s for s in ast.walk(pl) if isinstance(s, ast.If) and "Recursive allOf reference found" in norm(s)]
    final_ok = False
    for b in rec_blocks:
        inner = [x for x in b.body if "Recursive allOf reference found" in norm(x)]
        if inner and not isinstance(inner[0], ast.If):
            rec = {r for st in b.body for r, _ in receivers(st, "append", lambda a: a.startswith(f"({model},"))}
            final_ok = final_ok or (bool(rec) and rec <= sink_args and not any(r in nxt for st in b.body for r, _ in receivers(st, "append"))
                                    and isinstance(b.body[-1], ast.Continue))
    rep.check(final_ok, "R15.4", "_process_models::self-reference-final",
              "a self-referential allOf is not diverted to the final errors", where(pm, pm.node))
    ends = [n for n in ast.walk(pm.node) if isinstance(n, ast.Call) and isinstance(n.func, ast.Attribute) and n.func.attr == "endswith"]
    for n in ends:
        a = n.args[0] if n.args else None
        ok = isinstance(a, ast.JoinedStr) and a.values and isinstance(a.values[0], ast.Constant) and str(a.values[0].value).startswith("/")
        rep.check(ok, "R15.4", "_process_models::self-reference-test-anchored",
                  "self reference is detected by a bare name suffix: a child whose name is a suffix of its parent's is never retried",
                  where(pm, n), lhs=norm(n)[:80], rhs="endswith(f\"/{name}\")")
    unproc = [n for n in ast.walk(pp.node) if isinstance(n, ast.Return) and "was not processed" in norm(n)]
    rep.check(bool(unproc), "R15.4", "_process_properties::unprocessed-parent-error", "a not-yet-processed parent is not reported (so never retried)",
              where(pp, pp.node))
    return LEVEL


def check_no_parent_mutation(rep: Report, ctx: Any, rid: str) -> None:
    """property objects inherited from a referenced parent are shared: never mutated while composing a child (C15 / C02)"""
    ix = ctx.py
    pp = ix.func("model_property._process_properties")
    _, branch = allof_branch(rep, pp)
    muts = []
    loop_vars = {norm(n.target) for n in ast.walk(pp.node) if isinstance(n, ast.For)}
    for n in ast.walk(pp.node):
        if isinstance(n, ast.Call) and call_name(n) in ("object.__setattr__", "setattr") and n.args and norm(n.args[0]) in loop_vars:
            muts.append(n)
        if isinstance(n, (ast.Assign, ast.AugAssign)):
            tg = n.targets if isinstance(n, ast.Assign) else [n.target]
            if any(isinstance(t, ast.Attribute) and norm(t.value) in loop_vars for t in tg):
                muts.append(n)
        if isinstance(n, ast.Call) and isinstance(n.func, ast.Attribute) and n.func.attr.startswith("set_") and norm(n.func.value) in loop_vars:
            muts.append(n)
    rep.check(not muts, rid, "_process_properties::parent-properties-not-mutated",
              f"a property object shared with the referenced parent model is mutated while composing the child ({[norm(m)[:60] for m in muts]}): "
              "the change leaks into the parent class", where(pp, muts[0]) if muts else where(pp, branch),
              lhs=[norm(m)[:60] for m in muts], rhs="no mutation of inherited property objects")


def allof_branch(rep: Report, pp: Any) -> tuple[ast.For, ast.If]:
    """the loop over data.allOf and its `isinstance(<member>, oai.Reference)` statement (the member variable may have any name)"""
    loops = [n for n in ast.walk(pp.node) if isinstance(n, ast.For) and "data.allOf" in norm(n.iter)]
    rep.require(loops, "loop over data.allOf")
    loop = loops[0]
    member = norm(loop.target)
    branch = next((s for s in loop.body if isinstance(s, ast.If) and f"isinstance({member}, oai.Reference)" in norm(s.test)), None)
    rep.require(branch is not None, "allOf reference branch")
    return loop, branch


def _more_specific(t1: str, t2: str) -> bool:
    """is the first isinstance type the more specific one (IntProperty over Int/Float, formatted string over StringProperty)?"""
    if "StringProperty" in t1 and "STRING_WITH_FORMAT" in t2:
        return False
    if "STRING_WITH_FORMAT" in t1 and "StringProperty" in t2:
        return True
    if t1.strip() == "IntProperty":
        return True
    if t2.strip() == "IntProperty":
        return False
    return True
