"""R20.13 - the document model does not look inside a position that may hold a reference (rule-private helper of c20.py).

While the document is validated no reference is resolved yet: what stands in a position declared `ReferenceOr[X]` is either an X written
in place or a Reference whose component cannot be seen from there.  Code of the document model (validators, their helpers, methods of
the document classes - whatever runs before the parser's resolvers) that looks INSIDE one member of such a position - reads an attribute
of it, asks for its class, subscripts it, stores into it - can therefore only ever act on members written inline: whatever it decides or
changes, the same component used through `$ref` is not decided / changed, and the two no longer generate the same code.  (A validator of
the component class itself is not concerned: it runs for the component wherever it is written.)  Acting on the position as a whole
(moving the list, adding a member, asking whether it is empty or absent) is indifferent to how the members are written and is allowed.

Stated on value flow, not on shapes: the values are found by where they come from (a read of a field whose declared type mentions
Reference / ReferenceOr - through module-level aliases -, the value parameter of a field validator of such a field, the raw mapping of a
before-validator subscripted by the field's name or alias, a function named in an Annotated[...] validator of the field), followed
through locals, `or` / conditional arms, copies (list(), [*..], sorted(), .copy(), slices), views (.values(), .items(), .get(), [..],
enumerate), loops and comprehensions (which take one container layer off), lambdas handed to filter / map / key=, parameters and results
of the functions they are handed to (anywhere in the package).  How deep the members sit is read off the declared type.
"""
from __future__ import annotations

import ast
from typing import Any, Iterable

from ..astutil import Locals, call_name, norm, where
from ..pyindex import FuncInfo, dotted

SEQ = {"list", "List", "set", "Set", "frozenset", "FrozenSet", "tuple", "Tuple", "Sequence", "MutableSequence", "Iterable", "Iterator",
       "Collection", "AbstractSet", "MutableSet", "deque"}
MAP = {"dict", "Dict", "Mapping", "MutableMapping", "OrderedDict", "defaultdict"}
TYPE_VALIDATORS = {"BeforeValidator", "AfterValidator", "PlainValidator", "WrapValidator"}
METHOD_VALIDATORS = {"field_validator", "validator"}
SAME_SHAPE = {"list", "tuple", "sorted", "reversed", "set", "frozenset", "iter", "copy", "deepcopy"}
KIND_QUESTIONS = {"isinstance", "type", "hasattr", "getattr", "vars", "dir", "id"}
Shape = tuple  # container layers above the member, outermost first: "seq" | "map" | "pairs" (iterable of (key, x)) | "pair" ((key, x))
Taint = frozenset  # of (Shape, origin "<Class>.<field>")
EMPTY: Taint = frozenset()


def _last(e: ast.AST) -> str:
    return (dotted(e) or "").rsplit(".", 1)[-1]


class _Types:
    """shapes of the declared types of the document model: where, under how many container layers, a Reference may stand"""

    def __init__(self, doc_modules: list[Any]):
        self.aliases: dict[str, set[Shape]] = {}
        self.type_validators: list[tuple[Any, ast.AST, set[Shape], str]] = []   # (module, function expression, shapes of what it gets, origin)
        self._defs: list[tuple[Any, str, ast.AST]] = []
        for m in doc_modules:
            for st in m.tree.body:
                if isinstance(st, ast.AnnAssign) and isinstance(st.target, ast.Name) and st.value is not None:
                    self._defs.append((m, st.target.id, st.value))
                elif isinstance(st, ast.Assign) and len(st.targets) == 1 and isinstance(st.targets[0], ast.Name) and isinstance(st.value, (ast.Subscript, ast.BinOp)):
                    self._defs.append((m, st.targets[0].id, st.value))
        grown = True
        while grown:
            grown = False
            for _, name, value in self._defs:
                if name in ("ReferenceOr",):
                    continue
                got = self.shapes(value)
                if got - self.aliases.get(name, set()):
                    self.aliases.setdefault(name, set()).update(got)
                    grown = True

    def shapes(self, ann: "ast.AST | None", note: "tuple[Any, str] | None" = None) -> set[Shape]:
        if ann is None:
            return set()
        if isinstance(ann, ast.Constant) and isinstance(ann.value, str):
            try:
                return self.shapes(ast.parse(ann.value, mode="eval").body, note)
            except SyntaxError:
                return set()
        if isinstance(ann, (ast.Name, ast.Attribute)):
            last = _last(ann)
            if last == "Reference":
                return {()}
            return set(self.aliases.get(last, ()))
        if isinstance(ann, ast.BinOp) and isinstance(ann.op, ast.BitOr):
            return self.shapes(ann.left, note) | self.shapes(ann.right, note)
        if isinstance(ann, ast.Subscript):
            head = _last(ann.value)
            parts = list(ann.slice.elts) if isinstance(ann.slice, ast.Tuple) else [ann.slice]
            if head == "ReferenceOr":
                return {()}
            if head == "Annotated":
                inner = self.shapes(parts[0], note) if parts else set()
                if note is not None and inner:
                    for x in parts[1:]:
                        for c in ast.walk(x):
                            if isinstance(c, ast.Call) and _last(c.func) in TYPE_VALIDATORS and c.args:
                                self.type_validators.append((note[0], c.args[0], inner, note[1]))
                return inner
            if head in SEQ:
                return {("seq", *s) for p in parts for s in self.shapes(p, note)}
            if head in MAP:
                return {("map", *s) for s in self.shapes(parts[-1], note)} if parts else set()
            if head in ("Literal", "Callable"):
                return set()
            if head in self.aliases and head not in ("Optional", "Union"):
                return set(self.aliases[head]) | {s for p in parts for s in self.shapes(p, note)}
            return {s for p in parts for s in self.shapes(p, note)}
        return set()


def _strip(t: Iterable[tuple[Shape, str]], how: str, index: "int | None" = None) -> Taint:
    """what one gets out of the containers: by iterating them (`iter`), by subscripting / .get() / .pop() / next() (`item`), by
    `.values()`, `.items()`, `enumerate()`, by taking the index-th of an unpacked item (`unpack`)"""
    out = set()
    for s, o in t:
        if not s:
            continue
        k, rest = s[0], tuple(s[1:])
        if how == "iter":
            if k == "seq":
                out.add((rest, o))
            elif k == "pairs":
                out.add((("pair", *rest), o))
        elif how == "item":
            if k in ("seq", "map"):
                out.add((rest, o))
            elif k == "pair" and index in (1, None):
                out.add((rest, o))
            elif k == "pairs":
                out.add((("pair", *rest), o))
        elif how == "values" and k == "map":
            out.add((("seq", *rest), o))
        elif how == "items" and k == "map":
            out.add((("pairs", *rest), o))
        elif how == "enumerate" and k == "seq":
            out.add((("pairs", *rest), o))
        elif how == "unpack":
            if k == "pair":
                if index == 1:
                    out.add((rest, o))
            elif k in ("seq",):
                out.add((rest, o))
    return frozenset(out)


def _no_keys(t: Taint) -> Taint:
    """list(d) / sorted(d) of a mapping are its keys"""
    return frozenset((s, o) for s, o in t if not (s and s[0] == "map"))


class Positions:
    def __init__(self, ix: Any, it: Any, doc_modules: list[Any]):
        self.ix, self.it = ix, it
        self.doc_names = {m.name for m in doc_modules}
        self.types = _Types(doc_modules)
        self.doc_classes = [c for c in ix.classes.values() if c.module.name in self.doc_names]
        self.by_qual = {c.qual: c for c in self.doc_classes}
        self.by_name: dict[str, list[Any]] = {}
        for c in self.doc_classes:
            self.by_name.setdefault(c.name, []).append(c)
        self.ref_fields: dict[str, dict[str, set[Shape]]] = {}
        self.raw_keys: dict[str, dict[str, str]] = {}
        for c in self.doc_classes:
            for fld, ann in c.fields.items():
                sh = self.types.shapes(ann, note=(c.module, f"{c.name}.{fld}"))
                if not sh:
                    continue
                self.ref_fields.setdefault(c.qual, {})[fld] = sh
                keys = self.raw_keys.setdefault(c.qual, {})
                keys[fld] = fld
                d = c.field_defaults.get(fld)
                if isinstance(d, ast.Call):
                    for k in d.keywords:
                        if k.arg in ("alias", "validation_alias") and isinstance(k.value, ast.Constant) and isinstance(k.value.value, str):
                            keys[k.value.value] = fld
        self.seeds: dict[tuple[str, str], set[tuple[Shape, str]]] = {}
        self.returns: dict[str, set[tuple[Shape, str]]] = {}
        self.inspections: dict[str, set[tuple[str, str]]] = {}
        self.read: set[str] = set()
        self.funcs = {f.qual: f for f in ix.all_functions}

    # -- classes ---------------------------------------------------------------------------------------------------------
    def _mro(self, c: Any) -> list[Any]:
        return [k for k in self.ix.mro(c) if k.qual in self.by_qual] or [c]

    def field_taint(self, c: Any, fld: str) -> Taint:
        for k in self._mro(c):
            sh = self.ref_fields.get(k.qual, {}).get(fld)
            if sh:
                return frozenset((s, f"{k.name}.{fld}") for s in sh)
        return EMPTY

    def key_taint(self, c: Any, key: str) -> Taint:
        for k in self._mro(c):
            fld = self.raw_keys.get(k.qual, {}).get(key)
            if fld:
                return self.field_taint(k, fld)
        return EMPTY

    # -- the run ---------------------------------------------------------------------------------------------------------
    def run(self) -> None:
        for m, fn_expr, shapes, origin in self.types.type_validators:
            g = self._resolve(m, fn_expr)
            if g is not None and g.params:
                first = [a.arg for a in g.params if a.arg not in ("cls", "self")][:1]
                for p in first:
                    self.seeds.setdefault((g.qual, p), set()).update((s, origin) for s in shapes)
        doc_funcs = [f for f in self.ix.all_functions if f.module.name in self.doc_names]
        for f in doc_funcs:
            self._decorator_seeds(f)
        for _ in range(6):
            before = (sum(len(v) for v in self.seeds.values()), sum(len(v) for v in self.returns.values()))
            todo = {f.qual: f for f in doc_funcs}
            for (q, _), v in self.seeds.items():
                if v and q in self.funcs:
                    todo[q] = self.funcs[q]
            self.inspections.clear()
            for f in todo.values():
                _Func(self, f).analyse()
            if before == (sum(len(v) for v in self.seeds.values()), sum(len(v) for v in self.returns.values())):
                break

    def _decorator_seeds(self, f: FuncInfo) -> None:
        if f.cls is None or f.cls.qual not in self.by_qual:
            return
        value_params = [a.arg for a in f.params if a.arg not in ("cls", "self")]
        for d in f.node.decorator_list:
            if not (isinstance(d, ast.Call) and _last(d.func) in METHOD_VALIDATORS and value_params):
                continue
            names = [a.value for a in d.args if isinstance(a, ast.Constant) and isinstance(a.value, str)]
            if "*" in names:
                names = [fld for k in self._mro(f.cls) for fld in self.ref_fields.get(k.qual, {})]
            each = any(k.arg == "each_item" and isinstance(k.value, ast.Constant) and k.value.value is True for k in d.keywords)
            for nm in names:
                t = self.field_taint(f.cls, nm)
                if each:
                    t = _strip(t, "item")
                self.seeds.setdefault((f.qual, value_params[0]), set()).update(t)

    def _resolve(self, m: Any, e: ast.AST, f: "FuncInfo | None" = None) -> "FuncInfo | None":
        d = dotted(e)
        if d is None:
            return None
        head, _, rest = d.partition(".")
        if f is not None and f.cls is not None and head in ("self", "cls") and rest and "." not in rest:
            return self.ix.find_method(f.cls, rest)
        try:
            r = self.ix.resolve(m, d)
        except Exception:       # noqa: BLE001 - a name the index cannot follow is not a callee
            r = None
        if r is not None and r[0] == "func":
            return r[1]
        return None


class _Func:
    def __init__(self, P: Positions, f: FuncInfo):
        self.P, self.f = P, f
        self.lc = Locals(f.node)
        self.params = {a.arg for a in f.params} | ({f.node.args.vararg.arg} if f.node.args.vararg else set()) | \
                      ({f.node.args.kwarg.arg} if f.node.args.kwarg else set())
        self.lambda_names: dict[str, set[tuple[Shape, str]]] = {}
        self.memo: dict[str, Taint] = {}
        self.busy: set[str] = set()
        first = f.params[0].arg if f.params else None
        self.self_name = first if f.cls is not None and f.kind in ("method", "property") and first is not None else None
        self.in_doc_class = f.cls is not None and f.cls.qual in P.by_qual

    # -- which document classes an expression may be -------------------------------------------------------------------------
    def classes_of(self, e: ast.AST) -> list[Any]:
        P = self.P
        out: list[Any] = []
        if isinstance(e, ast.Name):
            if self.in_doc_class and e.id == self.self_name:
                out.append(self.f.cls)
            for a in self.f.params:
                if a.arg == e.id and a.annotation is not None and not P.types.shapes(a.annotation):
                    ann = _parse(a.annotation.value) if isinstance(a.annotation, ast.Constant) and isinstance(a.annotation.value, str) else a.annotation
                    for x in ast.walk(ann):
                        if isinstance(x, (ast.Name, ast.Attribute)):
                            out += P.by_name.get(_last(x), [])
        av = P.it.node_av.get(id(e)) if P.it is not None else None
        for t in sorted(getattr(av, "types", ()) or ()):
            if t in P.by_qual:
                out.append(P.by_qual[t])
        return out

    # -- taint of an expression ----------------------------------------------------------------------------------------------
    def tv(self, e: "ast.AST | None", depth: int = 0) -> Taint:
        if e is None or depth > 14:
            return EMPTY
        P = self.P
        if isinstance(e, ast.Name):
            return self.name_tv(e.id, depth)
        if isinstance(e, ast.Attribute):
            out: set[tuple[Shape, str]] = set()
            for c in self.classes_of(e.value):
                out |= P.field_taint(c, e.attr)
            return frozenset(out)
        if isinstance(e, (ast.NamedExpr, ast.Starred, ast.Await)):
            return self.tv(e.value, depth + 1)
        if isinstance(e, ast.BoolOp):
            return frozenset(x for v in e.values for x in self.tv(v, depth + 1))
        if isinstance(e, ast.IfExp):
            return self.tv(e.body, depth + 1) | self.tv(e.orelse, depth + 1)
        if isinstance(e, (ast.List, ast.Tuple, ast.Set)):
            out = set()
            for x in e.elts:
                t = self.tv(x, depth + 1)
                out |= t if isinstance(x, ast.Starred) else {(("seq", *s), o) for s, o in t}
            return _no_keys(frozenset(out))
        if isinstance(e, (ast.ListComp, ast.SetComp, ast.GeneratorExp)):
            return frozenset((("seq", *s), o) for s, o in self.tv(e.elt, depth + 1))
        if isinstance(e, ast.DictComp):
            return frozenset((("map", *s), o) for s, o in self.tv(e.value, depth + 1))
        if isinstance(e, ast.Dict):
            out = set()
            for k, v in zip(e.keys, e.values):
                t = self.tv(v, depth + 1)
                out |= t if k is None else {(("map", *s), o) for s, o in t}
            return frozenset(out)
        if isinstance(e, ast.Subscript):
            if isinstance(e.slice, ast.Slice):
                return self.tv(e.value, depth + 1)
            raw = self.raw_access(e.value, e.slice)
            if raw:
                return raw
            idx = e.slice.value if isinstance(e.slice, ast.Constant) and isinstance(e.slice.value, int) else None
            return _strip(self.tv(e.value, depth + 1), "item", idx)
        if isinstance(e, ast.Call):
            return self.call_tv(e, depth)
        return EMPTY

    def call_tv(self, e: ast.Call, depth: int) -> Taint:
        fn = e.func
        if isinstance(fn, ast.Attribute):
            if fn.attr in ("get", "pop", "setdefault") and e.args:
                raw = self.raw_access(fn.value, e.args[0])
                if raw:
                    return raw
            base = self.tv(fn.value, depth + 1)
            if base:
                if fn.attr in ("copy", "__copy__", "__deepcopy__"):
                    return base
                if fn.attr in ("values", "items"):
                    return _strip(base, fn.attr)
                if fn.attr in ("get", "pop", "setdefault", "popitem", "__getitem__", "popleft"):
                    return _strip(base, "item")
                return EMPTY
        last = _last(fn)
        args = list(e.args)
        if last in SAME_SHAPE and args:
            return _no_keys(self.tv(args[0], depth + 1))
        if last == "dict" and args:
            return self.tv(args[0], depth + 1)
        if last == "cast" and len(args) == 2:
            return self.tv(args[1], depth + 1)
        if last == "filter" and len(args) == 2:
            return _no_keys(self.tv(args[1], depth + 1))
        if last == "enumerate" and args:
            return _strip(self.tv(args[0], depth + 1), "enumerate")
        if last in ("next", "min", "max") and args:
            return _strip(_no_keys(self.tv(args[0], depth + 1)), "item")
        g = self.P._resolve(self.f.module, fn, self.f)
        if g is not None:
            return frozenset(self.P.returns.get(g.qual, ()))
        return EMPTY

    def raw_access(self, recv: ast.AST, key: "ast.AST | None") -> Taint:
        """`<parameter>["<field or alias>"]` in a method of a document class: the raw mapping the object is validated from"""
        if not (self.in_doc_class and isinstance(recv, ast.Name) and recv.id in self.params and recv.id != self.self_name):
            return EMPTY
        if not (isinstance(key, ast.Constant) and isinstance(key.value, str)):
            return EMPTY
        return self.P.key_taint(self.f.cls, key.value)

    def name_tv(self, name: str, depth: int) -> Taint:
        if name in self.memo:
            return self.memo[name]
        if name in self.busy:
            return EMPTY
        self.busy.add(name)
        out: set[tuple[Shape, str]] = set(self.P.seeds.get((self.f.qual, name), ())) | self.lambda_names.get(name, set())
        for kind, _, v in self.lc.defs.get(name, []):
            base = self.tv(v, depth + 1)
            if not base:
                continue
            head, _, idx = kind.partition("[")
            index = int(idx.split("]")[0]) if idx and idx.split("]")[0].isdigit() else None
            if head == "for":
                base = _strip(base, "iter")
            if idx:
                base = _strip(base, "unpack", index)
            out |= base
        self.busy.discard(name)
        res = frozenset(out)
        if not self.busy:
            self.memo[name] = res
        return res

    # -- the pass ------------------------------------------------------------------------------------------------------------
    def analyse(self) -> None:
        P, f = self.P, self.f
        nodes = list(ast.walk(f.node))
        for _ in range(2):      # lambdas handed to filter / map / key= get the members of what is iterated
            self.memo.clear()
            for c in nodes:
                if not isinstance(c, ast.Call):
                    continue
                last = _last(c.func)
                fns: list[tuple[ast.AST, Taint]] = []
                if last in ("filter", "map") and len(c.args) >= 2:
                    fns.append((c.args[0], _strip(_no_keys(self.tv(c.args[1])), "iter")))
                key = next((k.value for k in c.keywords if k.arg == "key"), None)
                if key is not None and last in ("sorted", "min", "max") and c.args:
                    fns.append((key, _strip(_no_keys(self.tv(c.args[0])), "iter")))
                if key is not None and isinstance(c.func, ast.Attribute) and c.func.attr == "sort":
                    fns.append((key, _strip(self.tv(c.func.value), "iter")))
                for fx, t in fns:
                    if not t:
                        continue
                    if isinstance(fx, ast.Lambda) and fx.args.args:
                        self.lambda_names.setdefault(fx.args.args[0].arg, set()).update(t)
                    else:
                        g = P._resolve(f.module, fx, f)
                        first = [a.arg for a in g.params if a.arg not in ("cls", "self")][:1] if g is not None else []
                        for p in first:
                            P.seeds.setdefault((g.qual, p), set()).update(t)
        self.memo.clear()
        in_doc = f.module.name in P.doc_names

        def member(e: ast.AST) -> list[str]:
            return sorted({o for s, o in self.tv(e) if s == ()})

        def note(origins: list[str], at: ast.AST, what: str) -> None:
            for o in origins:
                P.inspections.setdefault(o, set()).add((where(f, at), what[:90]))

        for n in nodes:
            if isinstance(n, (ast.Attribute, ast.Name, ast.Subscript, ast.Call)) and in_doc:
                P.read |= {o for _, o in self.tv(n)}
            if isinstance(n, ast.Attribute):
                note(member(n.value), n, norm(n))
            elif isinstance(n, ast.Subscript) and not isinstance(n.slice, ast.Slice):
                note(member(n.value), n, norm(n))
            elif isinstance(n, ast.Compare):
                for op, c in zip(n.ops, n.comparators):
                    if isinstance(op, (ast.In, ast.NotIn)):
                        note(member(c), n, norm(n))
            elif isinstance(n, ast.Match):
                note(member(n.subject), n, f"match {norm(n.subject)}")
            elif isinstance(n, ast.Return) and n.value is not None:
                t = self.tv(n.value)
                if t:
                    P.returns.setdefault(f.qual, set()).update(t)
            elif isinstance(n, ast.Call):
                last = _last(n.func)
                if isinstance(n.func, ast.Name) and last in KIND_QUESTIONS and n.args:
                    note(member(n.args[0]), n, norm(n))
                    continue
                g = P._resolve(f.module, n.func, f)
                if g is None:
                    continue
                pos = [a.arg for a in [*g.node.args.posonlyargs, *g.node.args.args]]
                if g.kind in ("method", "classmethod", "property") and pos and not (isinstance(n.func, ast.Attribute) and _last(n.func.value) == (g.cls.name if g.cls else "")
                                                                                  and g.kind == "method"):
                    pos = pos[1:]
                for i, a in enumerate(n.args):
                    if i < len(pos) and not isinstance(a, ast.Starred):
                        t = self.tv(a)
                        if t:
                            P.seeds.setdefault((g.qual, pos[i]), set()).update(t)
                for k in n.keywords:
                    if k.arg is not None:
                        t = self.tv(k.value)
                        if t:
                            P.seeds.setdefault((g.qual, k.arg), set()).update(t)


def _parse(text: str) -> ast.AST:
    try:
        return ast.parse(text, mode="eval").body
    except SyntaxError:
        return ast.Constant(value=None)
