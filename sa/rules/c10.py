"""C10 - absent, null and present stay three distinct states."""
from __future__ import annotations

import ast
import re
from typing import Any, Iterator

from jinja2 import nodes

from .. import tplq
from ..astutil import Locals, call_name, calls_in, constructs_error, error_names, norm, returns_error, short, where
from ..cfg import CFG, ENTRY, own_exprs, walk_own
from ..core import PKG, Report
from ..jinja_interp import expr_text
from .siblings import Path as SimPath
from .siblings import PathSim, _Inliner, _returns_in, error_locals, path_returns_error

LEVEL = ("sibling / guard rules: (1) every get_type_string implementation evaluates an Unset-mentioning constant exactly when `not "
         "no_optional and not required` (path simulation over the boolean atoms, all overrides); to_string emits a default iff the "
         "truth table says so; (2) every transform/construct macro of every property template handles Unset exactly on the "
         "non-required arm, and a guard may be skipped only under `property.required` (truth tables over the Jinja guard atoms, macro "
         "calls and call blocks - `caller()` is the block's body - followed into the macro's body, also into constant-named imported "
         "templates, `set` blocks read as the text they hold; constants, comparisons of truth values, "
         "loops over literal sequences and selectattr/rejectattr chains are read as the decisions they are); (3) model I/O: "
         "unconditional key writes imply `required`, optional pops carry the UNSET default (loop filters count as guards); (4) null: "
         "union parser, handle_nullable adds null on every path of every schema shape, enum builder facts; (5) query filter tests "
         "identity with UNSET/None, cookie and header writes outside the block of an UNSET test imply `required`, optional path "
         "parameters rejected on every path; (6) mandatory attributes are declared before defaulted ones (passes in execution order); "
         "(7) required/default are never changed in place; (8) every function that hands on the requiredness of the declaration it was "
         "given does so on every path to a successful return (path simulation; a return is an error return by what the returned local "
         "holds on that path: error constructor, or the arm of an isinstance test for an error class - also one that binds it; keyword, "
         "position, keyword dictionary, alias local, or the declaration itself handed to a forwarder); (10) merge_properties, private "
         "helpers written out in place and loops over constant tables unrolled: every path to a result hands both declarations to the "
         "one function that ORs their `required`, or returns under equality of the two; (9) decode direction: the Python code each kind's construct macro generates "
         "for a non-required property (per valuation of the template conditions, macro calls followed, placeholders for destination / "
         "source / unknown) is parsed and run abstractly on the path where the source is UNSET: the destination ends as the source / "
         "UNSET, never as a fresh value, and (13) on the path where the source is anything but the sentinel (truth value unknown) it never ends as UNSET; (11) the `required` lists of the document reach the builders whole (no in-place rewrite, no "
         "filter over a collection made of them); (12) two declarations' `required` are combined only by the merge module and the "
         "function that walks allOf.")

TEMPLATE_DIR = "property_templates/"
GUARD_RE = re.compile(r"isinstance\([^)]*,\s*Unset\)|\bis (not )?UNSET\b")   # generated code that asks whether a value is the sentinel


def run(rep: Report, ctx: Any) -> str:
    ix = ctx.py
    jx = ctx.jinja
    BOOL_ATTRS.clear()
    BOOL_ATTRS.update(_bool_attrs(ix))
    rep.rule("R10.1", "type strings mention Unset iff (not no_optional and not required), in every override; to_string emits "
                      "`= UNSET` iff not required and no default, and nothing iff required without default")
    rep.rule("R10.2", "every transform/transform_multipart/transform_multipart_body/construct_template macro: the arm emitted "
                      "for required properties never mentions Unset/UNSET; the arm for optional properties assigns UNSET only "
                      "under an isinstance(..., Unset) test; for a property that is not required a test for Unset is emitted under every valuation of the "
                      "conditions the Unset-handling pieces sit under (skipped only when `property.required`)")
    rep.rule("R10.3", "to_dict writes a key unconditionally only if the property is required, otherwise under `is not UNSET`; "
                      "from_dict pops optional keys with the UNSET default and required keys without default")
    rep.rule("R10.6", "the model class declares every mandatory attribute (required, no default) before every attribute that carries a "
                      "default: each declaration pass is guarded so that it emits one kind only, and no defaulted pass precedes a "
                      "mandatory one")
    rep.rule("R10.7", "`required` and `default` of a property are never changed in place (attribute store, setattr, object.__setattr__): "
                      "property objects are shared between models and endpoints, a changed value needs a copy")
    rep.rule("R10.8", "a function that passes on the requiredness of the declaration it was given (its parameter `required`, or "
                      "`<parameter>.required`) does so on every path: no return of a value that is not an error is reached without "
                      "a call / keyword dictionary that receives it - a result taken from a cache or registry, or built with a "
                      "constant, carries some other declaration's requiredness")
    rep.rule("R10.9", "decoding keeps 'absent' absent: in the code a kind's `construct` macro (and from_dict's own fallback) generates for "
                      "a property that is not required, on the path where the popped source is the UNSET sentinel the local handed to "
                      "`cls(...)` ends up as the source / UNSET itself - never as a fresh value (a literal, a constant, the result of a "
                      "call); decided on the generated text per valuation of the template conditions, macro calls followed")
    rep.rule("R10.13", "decoding keeps 'present' present: in the same generated code, on the path where the popped source is NOT the UNSET "
                       "sentinel (whatever else it is: null, empty, zero - its truth value is not known) the local handed to `cls(...)` never "
                       "ends up as UNSET; only a test for the sentinel itself (isinstance(..., Unset) / `is UNSET`) may select UNSET")
    rep.rule("R10.4", "the union parser returns None before trying any member exactly when None is among its JSON types; "
                      "handle_nullable covers type scalar / type list / oneOf / anyOf / allOf")
    rep.rule("R10.5", "query parameters are dropped only by identity with UNSET or None; a cookie or header is written outside the block "
                      "of a generated `if` that tests for UNSET only when the parameter is required, and inside one only when it is not")

    # ---- R10.1 ----------------------------------------------------------------------------------------------------
    pe = _Mentions(ix)
    proto = ix.cls("PropertyProtocol")
    n_impl = 0
    for c in [proto] + ix.property_classes():
        m = c.methods.get("get_type_string")
        if m is None:
            continue
        n_impl += 1
        for no_opt in (False, True):
            for req in (False, True):
                res = pe.outcomes(m, c, {"no_optional": no_opt, "self.required": req}, "Unset")
                want = (not no_opt) and (not req)
                rep.check(res == {want}, "R10.1", f"{short(m)}[no_optional={no_opt},required={req}]",
                          f"type string {'must' if want else 'must not'} mention Unset here; paths give {sorted(res)}",
                          where(m, m.node), lhs=sorted(res), rhs=[want])
    rep.floor("get_type_string_implementations", n_impl, 2)
    ts = proto.methods.get("to_string")
    rep.require(ts, "PropertyProtocol.to_string")
    for has_default in (False, True):
        for req in (False, True):
            env = {"self.default is None": not has_default, "self.required": req}
            unset = pe.outcomes(ts, proto, env, "UNSET")
            eq = pe.outcomes(ts, proto, {**env}, " = ")
            want_unset = (not has_default) and (not req)
            want_eq = has_default or not req
            rep.check(unset == {want_unset} and eq == {want_eq}, "R10.1", f"{short(ts)}[default={has_default},required={req}]",
                      "declaration default is wrong for this combination", where(ts, ts.node), lhs=[sorted(unset), sorted(eq)],
                      rhs=[want_unset, want_eq])
    overrides = [c.name for c in ix.property_classes() if "to_string" in c.methods]
    rep.check(not overrides, "R10.1", "to_string::overrides", f"to_string overridden in {overrides} (not covered)", "")

    # ---- R10.2 -------------------------------------------------------------------------------------------------------
    n_macros = 0
    macro_names = ("transform", "transform_multipart", "transform_multipart_body", "construct_template", "guarded_statement")
    for tn, ti in sorted(jx.templates.items()):
        if not tn.startswith(TEMPLATE_DIR):
            continue
        for mn in macro_names:
            m = ti.macros.get(mn)
            if m is None:
                continue
            n_macros += 1
            tests: list[nodes.Node] = []
            frs = list(_frags(m.body, ti, jx, tests=tests, sets=True))
            tev2 = _TplEval(frs)
            key = f"{tn}::{mn}"
            req_atom = "property.required"
            texts_req: list[str] = []
            texts_opt: list[str] = []
            unguarded_unset = []
            guard_frs: list[tuple[int, tplq.Frag, list[str]]] = []   # the pieces that mention the sentinel or its class for optional properties
            for i_fr, fr in enumerate(frs):
                # what the fragment contributes to the generated code: template text as it stands; of an output expression the
                # string constants it evaluates (a conditional expression selects one arm, a `set` variable reads as its
                # definition) - `{% if c %}text{% endif %}` and `{{ "text" if c else "" }}` are the same decision
                if fr.kind == "data":
                    names = _guard_atoms(fr)
                elif fr.kind == "expr":
                    names = list(dict.fromkeys(_guard_atoms(fr) + tev2.atoms(fr.expr, i_fr)))
                else:
                    continue
                rep.require(len(names) <= 14, f"a fragment of {key} that depends on at most 14 conditions (line {fr.line})")
                for env in tplq.assignments(names):
                    if not _guard_holds(fr, env):
                        continue
                    txt = fr.text if fr.kind == "data" else "".join(tev2.consts(fr.expr, env, i_fr))
                    on_req = env[req_atom] if req_atom in names else True
                    on_opt = not env[req_atom] if req_atom in names else True
                    if on_opt and re.search(r"\bUNSET\b|\bUnset\b", txt) and not any(x[1] is fr for x in guard_frs):
                        guard_frs.append((i_fr, fr, names))
                    if on_req and txt not in texts_req[-1:]:
                        texts_req.append(txt)
                        if re.search(r"\bUNSET\b|\bUnset\b", txt):
                            unguarded_unset.append((fr.line, txt.strip()[:60]))
                    if on_opt and txt not in texts_opt[-1:]:
                        texts_opt.append(txt)
            rep.check(not unguarded_unset, "R10.2", key + "::required-arm",
                      f"text emitted for required properties mentions Unset/UNSET: {unguarded_unset[:2]}",
                      where=f"{PKG}/templates/{tn}:{m.lineno}", lhs=unguarded_unset[:2], rhs="no Unset handling when required")
            opt = "".join(texts_opt)
            # (an identity test with the singleton asks the same as the instance test of its class)
            has_guard = bool(GUARD_RE.search(opt)) or "isinstance(" in opt and "Unset" in opt
            if mn == "guarded_statement":
                rep.check(has_guard, "R10.2", key + "::optional-arm", "optional arm has no isinstance(..., Unset) guard",
                          where=f"{PKG}/templates/{tn}:{m.lineno}", lhs=opt.strip()[:80], rhs="isinstance(source, Unset)")
            else:
                assigns_unset = "UNSET" in opt or "isinstance" in opt
                rep.check(has_guard and assigns_unset, "R10.2", key + "::optional-arm",
                          "the arm emitted for optional properties does not test isinstance(..., Unset) (a truthiness or equality "
                          "test would confuse falsy values with absence)", where=f"{PKG}/templates/{tn}:{m.lineno}",
                          lhs=opt.strip()[:100], rhs="isinstance(<source>, Unset) guard")
            # a guard is skipped only under property.required: whatever else the template asks, for a property that is not
            # required some piece that tests for Unset is emitted - a truth table over the conditions those pieces sit under
            # (which other decisions a condition is mixed with - `if` vs `elif` of the generated chain, the last member of a
            # union - is not asked)
            if has_guard:
                gnames = list(dict.fromkeys([req_atom] + [a for _, _, ns_ in guard_frs for a in ns_]))
                rep.require(len(gnames) <= 14, f"Unset tests of {key} that depend on at most 14 conditions")
                decided = [(i_, fr) for i_, fr in enumerate(frs) if fr.kind in ("data", "expr") and
                           set(_guard_atoms(fr) + (tev2.atoms(fr.expr, i_) if fr.kind == "expr" else [])) <= set(gnames)]
                for env in tplq.assignments(gnames):
                    if env[req_atom]:
                        continue
                    gen = "".join(fr.text if fr.kind == "data" else "".join(tev2.consts(fr.expr, env, i_))
                                  for i_, fr in decided if _guard_holds(fr, env))
                    if not (GUARD_RE.search(gen) or "isinstance(" in gen and "Unset" in gen):
                        holds = sorted(a for a, v in env.items() if v)
                        rep.fail("R10.2", key + f"::guard-skipped({' and '.join(holds)[:50]})",
                                 f"no Unset test is emitted for a property that is not required when {holds or 'nothing else'} holds "
                                 f"(valuation {env})", where=f"{PKG}/templates/{tn}:{m.lineno}", lhs=env,
                                 rhs="skipped only when property.required")
                        break
    rep.floor("unset_handling_macros", n_macros, 13)

    # ---- R10.3 -------------------------------------------------------------------------------------------------------
    mt = jx.templates.get("model.py.jinja")
    rep.require(mt, "model.py.jinja")
    td = mt.macros.get("_to_dict")
    rep.require(td, "_to_dict macro")
    n_w = 0
    tdf = list(_frags(td.body, mt, jx))
    for i_fr, fr in enumerate(tdf):
        if fr.kind != "expr":
            continue
        # "<name>": <python_name>   inside field_dict.update({...})  and  field_dict["<name>"] = <python_name>
        # (the property loop variable is canonical: `ITER[*]`)
        if fr.loops and fr.text == f"{fr.loops[-1]}[*].name":
            pv = f"{fr.loops[-1]}[*]"
            n_w += 1
            # is this write under a python-level `if ... is not UNSET:` ?
            py_guarded = _under_unset_test(tdf, i_fr)
            if not py_guarded:
                ok = _implies(fr, f"{pv}.required", True)
                rep.check(ok, "R10.3", f"model.py.jinja::_to_dict::unconditional-write#{n_w}",
                          "a key is written without an `is not UNSET` test under a condition that does not imply property.required",
                          where=f"{PKG}/templates/model.py.jinja:{fr.line}", lhs=[g for g, _ in fr.guards], rhs="implies property.required")
            else:
                ok = _implies(fr, f"{pv}.required", False)
                rep.check(ok, "R10.3", f"model.py.jinja::_to_dict::guarded-write#{n_w}",
                          "the UNSET-guarded write is not restricted to non-required properties (a required key could be omitted)",
                          where=f"{PKG}/templates/model.py.jinja:{fr.line}", lhs=[g for g, _ in fr.guards], rhs="implies not property.required")
    rep.floor("to_dict_key_writes", n_w, 1)
    # every property is covered by one of the two writes: required -> update, not required -> guarded
    # from_dict pops
    # a pop site is an expression (of a `set` or of an output) that spells the text `d.pop(`; what it evaluates to is decided
    # by the conditions it sits under AND the conditional expressions inside it (`'")' if required else '", UNSET)'` is the same
    # decision as an if/else around two `set`s): every valuation of those conditions gives one *form* of the pop, and the form
    # with the UNSET default must be the one of the non-required properties, whatever construct takes the decision.
    allfr = list(_frags(mt.tree.body, mt, jx, sets=True))
    tev = _TplEval(allfr)
    forms: list[tuple[int, bool, bool, tplq.Frag, str]] = []   # (site, property.required, UNSET default, fragment, text)
    named: dict[int, bool] = {}
    for i, fr in enumerate(allfr):
        if fr.kind not in ("set", "expr") or not fr.loops or not _spells(fr.expr, "d.pop("):
            continue
        pv = f"{fr.loops[-1]}[*]"
        rq = f"{pv}.required"
        names = list(dict.fromkeys(_guard_atoms(fr) + tev.atoms(fr.expr, i) + [rq]))
        rep.require(len(names) <= 12, f"a pop expression of from_dict that depends on at most 12 conditions (line {fr.line})")
        named[i] = f"{pv}.name" in tev.reads(fr.expr, i)
        for env in tplq.assignments(names):
            if _guard_holds(fr, env):
                txt = "".join(tev.consts(fr.expr, env, i))
                forms.append((i, env[rq], bool(re.search(r"\bUNSET\b", txt)), fr, txt))
    for required, kind in ((True, "required"), (False, "optional")):
        mine = [f_ for f_ in forms if f_[1] == required]
        bad = [f_ for f_ in mine if f_[2] == required or not named[f_[0]]]
        at_line = (bad or mine)[0][3].line if (bad or mine) else 0
        rep.check(bool(mine) and not bad, "R10.3", f"model.py.jinja::from_dict::pop[{kind}]",
                  "pop form does not match requiredness (optional keys need the UNSET default, required keys none)",
                  where=f"{PKG}/templates/model.py.jinja:{at_line}",
                  lhs=[[f_[4], [g for g, _ in f_[3].guards]] for f_ in (bad or mine)[:2]], rhs="d.pop(name, UNSET) iff not required")
    kinds_seen = {"optional" if d_ else "required" for _, _, d_, _, _ in forms}
    rep.check(kinds_seen == {"optional", "required"}, "R10.3", "model.py.jinja::from_dict::pop-forms", "from_dict no longer has one pop form "
              "for required and one for optional keys", where=f"{PKG}/templates/model.py.jinja", lhs=sorted(kinds_seen), rhs=["optional", "required"])
    rep.floor("from_dict_pop_forms", len({(i, d_) for i, _, d_, _, _ in forms}), 1)

    # ---- R10.6 declaration order -------------------------------------------------------------------------------------------
    # the class body declares its attributes in passes (loops); a declaration is mandatory when the property is required and has no
    # default (to_string emits no `= ...`, R10.1).  Whatever the passes iterate over, their guards must make sure that no
    # declaration that carries a default can come before a mandatory one.
    # A pass is one execution of a loop whose body declares attributes (`<loop variable>.to_string()`): a loop over a literal
    # sequence is the sequence of its rounds, a macro that holds the loop is one pass per call.
    decls = [fr for fr in _frags(mt.tree.body, mt, jx) if fr.kind == "expr" and fr.loops and fr.text == f"{fr.loops[-1]}[*].to_string()"]
    passes: list[list[tplq.Frag]] = []
    for fr in decls:
        mine_ = next((p_ for p_ in passes if p_[0].insts[-1] is fr.insts[-1]), None)
        if mine_ is None:
            passes.append([fr])
        else:
            mine_.append(fr)
    rep.floor("declaration_passes", len(passes), 1)

    def kind_atoms(fr: tplq.Frag) -> tuple[str, str]:
        pv_ = f"{fr.loops[-1]}[*]"
        return f"{pv_}.default is none", f"{pv_}.required"

    def emitting(fr: tplq.Frag) -> list[dict[str, bool]]:
        """the valuations of the conditions around a declaration under which it is emitted"""
        names_ = list(dict.fromkeys(_guard_atoms(fr) + list(kind_atoms(fr))))
        rep.require(len(names_) <= 14, f"an attribute declaration that depends on at most 14 conditions (line {fr.line})")
        return [e for e in tplq.assignments(names_) if _guard_holds(fr, e)]

    can: list[tuple[bool, bool]] = []
    for i, frs_ in enumerate(passes):
        mand = dflt = False
        for fr in frs_:
            dn, rq = kind_atoms(fr)
            envs = emitting(fr)
            mand = mand or any(e[dn] and e[rq] for e in envs)
            dflt = dflt or any(not (e[dn] and e[rq]) for e in envs)
        can.append((mand, dflt))
        rep.check(not (mand and dflt), "R10.6", f"model.py.jinja::declarations::pass#{i + 1}",
                  "one pass over the properties declares mandatory attributes and attributes with a default in document order (a "
                  "required property with a default may precede one without)", where=f"{PKG}/templates/model.py.jinja:{frs_[0].line}",
                  lhs=[[g for g, _ in fr.guards] for fr in frs_][:2], rhs="guard decides `default is none and required`")
    # when all passes run over the same collection, each property is declared exactly once, whatever else the template asks
    same_iter = len({fr.loops[-1] for fr in decls}) == 1
    counts: dict[str, list[int]] = {}
    if same_iter and decls:
        names = list(dict.fromkeys([a for fr in decls for a in _guard_atoms(fr)] + list(kind_atoms(decls[0]))))
        rep.require(len(names) <= 14, "attribute declarations that depend on at most 14 conditions")
        dn, rq = kind_atoms(decls[0])
        for env in tplq.assignments(names):
            n_ = sum(_guard_holds(fr, env) for fr in decls)
            seen_ = counts.setdefault(f"default-none={env[dn]},required={env[rq]}", [])
            if n_ not in seen_:
                seen_.append(n_)
    rep.check(not same_iter or all(v == [1] for v in counts.values()), "R10.6", "model.py.jinja::declarations::each-once",
              f"a property is declared by no pass or by several: {counts}", where=f"{PKG}/templates/model.py.jinja", lhs=counts, rhs="1 each")

    def before(i: int, j: int) -> bool:
        """pass i can run before pass j: it comes first, or both sit in a loop that runs them again"""
        a_, b_ = passes[i][0].insts[:-1], passes[j][0].insts[:-1]
        return i < j or (i != j and any(x is y for x in a_ for y in b_))

    bad_order = [(i + 1, j + 1) for i in range(len(can)) for j in range(len(can)) if before(i, j) and can[i][1] and can[j][0]]
    rep.check(not bad_order, "R10.6", "model.py.jinja::declarations::order", "a pass that can declare an attribute with a default comes before "
              f"a pass that can declare a mandatory attribute: passes {bad_order}", where=f"{PKG}/templates/model.py.jinja", lhs=bad_order, rhs=[])

    # ---- R10.7 requiredness is decided at construction ------------------------------------------------------------------------
    # property objects are shared (a model inherits the very objects of the model it references through allOf; parameters are
    # shared between endpoints) and every template keys the three states on property.required / property.default: changing
    # either in place changes another owner's declaration.  A new value needs a new object (evolve).
    n_stores = 0
    doc_required_stores: list[tuple[Any, ast.AST]] = []
    for f in ix.all_functions:
        for n in ast.walk(f.node):
            attr = obj = None
            if isinstance(n, ast.Call) and norm(n.func) in ("object.__setattr__", "setattr") and len(n.args) == 3:
                obj, attr = norm(n.args[0]), (n.args[1].value if isinstance(n.args[1], ast.Constant) else None)
                n_stores += 1
            elif isinstance(n, (ast.Assign, ast.AugAssign, ast.AnnAssign)):
                for t in (n.targets if isinstance(n, ast.Assign) else [n.target]):
                    if isinstance(t, ast.Attribute):
                        obj, attr = norm(t.value), t.attr
                        n_stores += 1
            if attr in ("required", "default") and not (obj == "self" and f.name in ("__init__", "__attrs_post_init__")):
                # stores into the pydantic document model (schema classes) are normalisation of the input, not of a property
                if f.cls is not None and not any(k.name == "PropertyProtocol" for k in ix.mro(f.cls)) and obj == "self":
                    if attr == "required":
                        doc_required_stores.append((f, n))   # the document's own `required`: R10.11
                    continue
                # an object this function has just constructed is not shared with anybody yet
                made = Locals(f.node).defs.get(obj or "", [])
                class_names = {c.name for c in ix.classes.values()} | {"cls"}
                if made and all(isinstance(v, ast.Call) and norm(v.func) in class_names for _, _, v in made):
                    continue
                rep.fail("R10.7", f"{short(f)}::{attr}-set-in-place", f"`{attr}` of an existing object is changed in place ({norm(n)[:70]}): the "
                         "object may be shared with another model or endpoint, whose declaration changes with it", where(f, n),
                         lhs=norm(n)[:80], rhs=f"evolve(<prop>, {attr}=...)")
    rep.floor("attribute_stores_scanned", n_stores, 32)
    rep.ok("R10.7", "package::no-in-place-requiredness", n_stores, "no store to .required / .default")

    # ---- R10.8 requiredness is forwarded on every path -------------------------------------------------------------------------
    # R10.7 says an object's requiredness is given when it is made; this says that what is given is the declaration's.  The
    # builders (property_from_data and its helpers, every `build`, parameter_from_data, ...) are found by what they do: somewhere
    # they hand `required` / `<parameter>.required` on.  Each of them must do so before every successful return - by keyword, by
    # position into a parameter called `required`, through a keyword dictionary, through a local that holds nothing else, or by
    # handing the declaration itself to a function that forwards its `.required`.
    fw = _Forwarding(ix)
    n_fw = 0
    for f in ix.all_functions:
        if not fw.sources(f):
            continue
        n_fw += 1
        # path by path (PathSim explores every decision both ways): a path that ends in `return <value>` either returns an error -
        # what it returns constructs one, or is a local that on THIS path holds one (bound to an error constructor, or narrowed by the
        # arm of an isinstance(<local>, <error class>) test the path took) - or has handed the requiredness on before / in the return
        errs = error_locals(f.node)
        bad_returns: list[ast.Return] = []
        for p in PathSim(f.node).paths():
            r = p.end
            if not isinstance(r, ast.Return) or r.value is None or (isinstance(r.value, ast.Constant) and r.value.value is None):
                continue
            if any((fw.in_stmt(f, ev.node) if ev.kind == "stmt" else bool(fw.in_expr(f, ev.node))) for ev in p.events):
                continue
            if path_returns_error(p, errs) or any(r is x for x in bad_returns):
                continue
            if fw.holds_no_declaration(f, PathSim(f.node).resolve(r.value, p.end_state)):
                continue
            bad_returns.append(r)
        rep.check(not bad_returns, "R10.8", f"{short(f)}::requiredness-forwarded",
                  f"a path returns `{norm(bad_returns[0].value)[:60] if bad_returns else ''}` without having passed on the requiredness of the "
                  f"declaration ({', '.join(sorted(fw.sources(f)))}): the result carries whatever requiredness it was made with elsewhere",
                  where(f, bad_returns[0] if bad_returns else f.node), lhs=[f"line {r.lineno}: {norm(r)[:70]}" for r in bad_returns][:3],
                  rhs="required=<the declaration's> on every path to a successful return")
    rep.floor("requiredness_forwarders", n_fw, 10)

    # ---- R10.10 requiredness survives a merge ------------------------------------------------------------------------------------
    _merge_keeps_required(rep, ix)

    # ---- R10.11 the document's `required` list is handed on whole ---------------------------------------------------------------
    _required_list_whole(rep, ix, doc_required_stores)

    # ---- R10.12 two requirednesses are combined by allOf only -------------------------------------------------------------------
    _combination_is_allof_only(rep, ix)

    # ---- R10.9 the UNSET source passes through the decoder ------------------------------------------------------------------------
    # from_dict pops an optional key with the UNSET default (R10.3) and hands `<python_name>` to cls(...).  What lies between is the
    # kind's `construct` macro, or a plain assignment when the kind has none.  For every valuation of the template conditions with
    # `property.required` false the generated statements are put together (the destination, the source and everything unknown
    # as placeholders), parsed as Python and run abstractly on the path on which the source is UNSET: isinstance(..., Unset) /
    # `is UNSET` tests are decided, UNSET is falsy, cast() is the identity, a function the fragment defines is entered.
    types_t = jx.templates.get("types.py.jinja")
    unset_falsy = bool(types_t and re.search(r"class Unset\b[^\n]*:\s*\n(?:\s+[^\n]*\n)*?\s+def __bool__\(self\)[^\n]*:\s*\n\s+return False\b", types_t.src))
    n_dec = 0

    def unset_atom(atom: str, required_atom: str) -> "bool | None":
        """`'Unset' in <property>.<method>(...)` for a property that is not required, as far as the method's paths say"""
        m_ = re.match(r"^'Unset' in " + re.escape(required_atom[: -len(".required")]) + r"\.(\w+)\((.*)\)$", atom)
        if not m_ or re.search(r"no_optional=(?!False)", m_.group(2)):
            return None
        impls = [(c_, c_.methods[m_.group(1)]) for c_ in [proto] + ix.property_classes() if m_.group(1) in c_.methods]
        got = {v for c_, f_ in impls for v in pe.outcomes(f_, c_, {"no_optional": False, "self.required": False}, "Unset")}
        return True if impls and got == {True} else None

    def decode_check(key: str, frs_: list[tuple[int, tplq.Frag]], tev_: "_TplEval", role: Any, required_atom: str, at_: str) -> None:
        nonlocal n_dec
        names_: list[str] = [required_atom]
        for i_, fr in frs_:
            for a in _guard_atoms(fr) + (tev_.atoms(fr.expr, i_) if fr.kind == "expr" else []):
                if a not in names_:
                    names_.append(a)
        fixed = {required_atom: False}
        for a in names_:
            v = unset_atom(a, required_atom)
            if v is not None:
                fixed[a] = v
        free = [a for a in names_ if a not in fixed]
        rep.require(len(free) <= 12, f"a decoder that depends on at most 12 conditions ({key})")
        fresh: list[str] = []
        lost: list[dict[str, bool]] = []
        assigned = parsed = 0
        for env0 in tplq.assignments(free):
            env = {**env0, **fixed}
            text = _compose([(fr, _gen_text(fr, i_, env, tev_, role)) for i_, fr in frs_ if fr.kind != "set" and _guard_holds(fr, env)])
            try:
                import textwrap

                tree_ = ast.parse(textwrap.dedent(text))
            except SyntaxError:
                continue
            parsed += 1
            vals = _GenRun(unset_falsy).result(tree_, DEST)
            assigned += bool(vals)
            for v in sorted(vals):
                if v.startswith("FRESH:") and v[6:] not in fresh:
                    fresh.append(v[6:])
            if vals and "SENT" in _GenRun(unset_falsy, present=True).result(tree_, DEST):
                lost.append({a: v for a, v in env.items() if v})
        rep.require(parsed, f"generated code of {key} that parses as Python for some valuation")
        if not assigned:
            return   # nothing is assigned here: the decoder is elsewhere
        n_dec += 1
        rep.check(not fresh, "R10.9", key, f"for a property that is not required, an absent key (source UNSET) is decoded to a fresh value "
                  f"({', '.join(fresh[:3])}) instead of UNSET: 'absent' reads back as 'present'", where=at_, lhs=fresh[:3],
                  rhs="the source / UNSET itself on the UNSET path")
        rep.check(not lost, "R10.13", key.replace("unset-passes-through", "present-stays-present"),
                  "for a property that is not required, a key that is there can be decoded to UNSET: on the path where the source is "
                  "not the sentinel the destination may still end as UNSET (a test of the source other than for the sentinel - its "
                  "truth value, say - decides): 'present' (empty, zero, null) reads back as 'absent' and is not sent again"
                  f"{' (when ' + ' and '.join(sorted(lost[0]))[:80] + ')' if lost and lost[0] else ''}", where=at_, lhs=lost[:1],
                  rhs="UNSET only under isinstance(<source>, Unset) / `is UNSET`")

    for tn, ti in sorted(jx.templates.items()):
        m = ti.macros.get("construct") if tn.startswith(TEMPLATE_DIR) else None
        if m is None:
            continue
        cfr = list(enumerate(_frags(m.body, ti, jx, sets=True)))
        decode_check(f"{tn}::construct::unset-passes-through", cfr, _TplEval([fr for _, fr in cfr]),
                     lambda e, t, i_, tev_: DEST if t == "property.python_name" else SOURCE if t == "source" else None,
                     "property.required", f"{PKG}/templates/{tn}:{m.lineno}")
    # from_dict itself: the loop that pops the keys
    for inst in list(dict.fromkeys(id(f_[3].insts[-1]) for f_ in forms)):
        lfr = [(i, fr) for i, fr in enumerate(allfr) if fr.insts and any(id(x) == inst for x in fr.insts)]
        pv = f"{lfr[0][1].loops[-1]}[*]"
        decode_check("model.py.jinja::from_dict::unset-passes-through", lfr, tev,
                     lambda e, t, i_, tev_, pv=pv: DEST if t == f"{pv}.python_name" else SOURCE if "d.pop(" in tev_.reads(e, i_) else None,
                     f"{pv}.required", f"{PKG}/templates/model.py.jinja:{lfr[0][1].line}")
    rep.floor("decoders_checked", n_dec, 5)

    # ---- R10.4 ---------------------------------------------------------------------------------------------------------
    ut = jx.templates.get(TEMPLATE_DIR + "union_property.py.jinja")
    rep.require(ut, "union template")
    cons = ut.macros.get("construct")
    rep.require(cons, "union construct")
    # The generated parser, put together per valuation of the template conditions (macro calls and call blocks followed, loops
    # over written-out tables unrolled, `set` variables and table entries read as the text they hold): the statement
    # `if data is None: return data` is part of it exactly when "None" is among the JSON type strings - whatever else is asked -
    # and stands before everything the loop over the members emits.
    ufr = list(enumerate(_frags(cons.body, ut, jx, sets=True)))
    utev = _TplEval([fr for _, fr in ufr])
    unames: list[str] = []
    for i_, fr in ufr:
        for a in _guard_atoms(fr) + (utev.atoms(fr.expr, i_) if fr.kind == "expr" else []):
            if a not in unames:
                unames.append(a)
    rep.require(len(unames) <= 14, "a union parser that depends on at most 14 conditions")
    none_atoms = [a for a in unames if a.startswith("'None' in ") and "type_strings" in a]
    none_re = re.compile(r"\bif data is None:\s*\n\s*return (data|None)\b")
    ok = len(none_atoms) == 1
    n_with = 0
    bad_env: "dict[str, bool] | None" = None
    for env in tplq.assignments(unames) if ok else ():
        head: list[tuple[tplq.Frag, str]] = []
        tail: list[tuple[tplq.Frag, str]] = []
        for i_, fr in ufr:
            if fr.kind == "set" or not _guard_holds(fr, env):
                continue
            (tail if fr.loops or tail else head).append((fr, _gen_text(fr, i_, env, utev, lambda *_: None)))
        before, after = _compose(head), _compose(tail)
        found = none_re.search(before)
        n_with += bool(found)
        if bool(found) != env[none_atoms[0]] or none_re.search(after):
            ok, bad_env = False, env
            break
    ok = ok and n_with > 0
    rep.check(ok, "R10.4", "union_property.py.jinja::construct::none-short-circuit",
              "the union parser does not return None (before trying members) exactly when None is among its JSON types",
              where=f"{PKG}/templates/{ut.name}:{cons.lineno}", lhs=bad_env or none_atoms, rhs="guarded by 'None' in type strings, before the member loop")
    sch = ix.cls("Schema")
    hn = sch.methods.get("handle_nullable")
    rep.require(hn, "Schema.handle_nullable")
    # a nullable schema of each shape gets a null alternative on every path; a schema that is not nullable never does
    # (the private helpers of the method written out in place, loops over a written-out table of fields unrolled: where the cases
    # are told apart - one elif chain, phases in helpers, a loop over the composition keywords - is not what is asked)
    hn_flat = _FlatInliner(ix, hn, depth=3).run()
    for field_ in ("type scalar", "type list", "oneOf", "anyOf", "allOf"):
        paths = [p for p in _nullable_paths(hn_flat, True, field_) if not isinstance(p.end, ast.Raise)]
        rep.check(bool(paths) and all(_adds_null(p) for p in paths), "R10.4", f"Schema.handle_nullable::{field_}",
                  f"nullable is not normalised for schemas using {field_}", where(hn, hn.node),
                  lhs=[norm(p.end)[:60] if p.end is not None else "<end>" for p in paths if not _adds_null(p)][:2], rhs="a path that adds DataType.NULL")
    paths = [p for f_ in ("type scalar", "oneOf") for p in _nullable_paths(hn_flat, False, f_)]
    rep.check(bool(paths) and not any(_adds_null(p) for p in paths), "R10.4", "Schema.handle_nullable::not-nullable",
              "a schema that is not nullable gets a null alternative", where(hn, hn.node))
    comp_fields = [f for f in ix.all_fields(sch) if f in ("allOf", "oneOf", "anyOf")]
    rep.check(len(comp_fields) == 3, "R10.4", "Schema::composition-fields", "composition keywords changed", where(hn, hn.node))
    # type: null maps to NoneProperty
    pfd = ix.func("properties.property_from_data")
    from ..astutil import region_walk

    ok = any(isinstance(n, ast.If) and "DataType.NULL" in norm(n.test) and "NoneProperty" in norm(n) for _, n in region_walk(ix, pfd))
    rep.check(ok, "R10.4", "property_from_data::null->NoneProperty", "type: null no longer maps to NoneProperty", where(pfd, pfd.node))

    from .siblings import enum_builder_parity

    enum_builder_parity(rep, ctx, "R10.4e")

    # ---- R10.5 ---------------------------------------------------------------------------------------------------------
    em = jx.templates.get("endpoint_macros.py.jinja")
    rep.require(em, "endpoint_macros.py.jinja")
    qp = em.macros.get("query_params")
    rep.require(qp, "query_params macro")
    # the statement of the generated code that drops entries of `params`: a comprehension that rebuilds it from its own items, or
    # a loop over its items that deletes some (whatever the loop variables are called).  What it keeps, as a function of
    # "the value is UNSET" / "the value is None", must be: exactly the values that are neither.
    filt = []
    line = ""
    keeps: "list[bool | None] | None" = None
    for f in _frags(qp.body, em, jx):
        if f.kind != "data":
            continue
        for tree in _py_blocks(f.text):
            for n in ast.walk(tree):
                got = _params_filter(n, "params")
                if got is not None:
                    filt, line, keeps = [f], norm(n).splitlines()[0], got
    rep.require(filt and keeps is not None, "the statement of query_params that filters params by value")
    # (UNSET, None) = (False, False) is kept, (True, False) and (False, True) are dropped
    ok = keeps == [True, False, False]
    rep.check(ok, "R10.5", "endpoint_macros.py.jinja::query_params::filter",
              "query parameters are filtered by something other than identity with UNSET / None (a present falsy value would be dropped)",
              where=f"{PKG}/templates/{em.name}:{filt[0].line}", lhs=line, rhs="if v is not UNSET and v is not None")
    rep.check(not filt[0].guards or all(g == "endpoint.query_parameters" for g, _ in filt[0].guards), "R10.5",
              "endpoint_macros.py.jinja::query_params::filter-unconditional", "the filter is not emitted whenever params is",
              where=f"{PKG}/templates/{em.name}:{filt[0].line}", lhs=filt[0].guards, rhs="same guard as `params = {}`")
    # cookies and headers: the generated code collects them in a dict (`cookies[...] = `, `headers[...] = `).  Wherever the loop
    # over the parameters emits such a write - as template text, through a `set` variable or inside a macro it calls - the write
    # of an optional parameter sits in the block of a generated `if` that tests for the UNSET sentinel; a write outside such a
    # block is emitted for required parameters only
    for mname, label, target in (("cookie_params", "cookie", "cookies"), ("header_params", "header", "headers")):
        pm = em.macros.get(mname)
        rep.require(pm, f"{mname} macro")
        pfr = list(_frags(pm.body, em, jx, sets=True))
        ptev = _TplEval(pfr)
        writes_to = re.compile(r"\b" + target + r"\[")
        n_pw = 0
        for i_fr, fr in enumerate(pfr):
            if not fr.loops or fr.kind == "set":
                continue
            offsets = [m_.start() for m_ in writes_to.finditer(fr.text)] if fr.kind == "data" else \
                [0] if writes_to.search(ptev.reads(fr.expr, i_fr)) else []
            req = f"{fr.loops[-1]}[*].required"
            for off in offsets:
                n_pw += 1
                if _under_unset_test(pfr, i_fr, off):
                    rep.check(_implies(fr, req, False), "R10.5", f"{mname}::guarded", "guard misplaced",
                              where=f"{PKG}/templates/{em.name}:{fr.line}")
                else:
                    rep.check(_implies(fr, req, True), "R10.5", f"{mname}::unguarded",
                              f"an optional {label} is sent without an UNSET test", where=f"{PKG}/templates/{em.name}:{fr.line}",
                              lhs=fr.guards, rhs="implies parameter.required")
        rep.floor(f"{label}_writes", n_pw, 1)
    # path parameters must be required
    vl = proto.methods.get("validate_location")
    rep.require(vl, "validate_location")
    # an allowed location PATH with required=False: every path returns an error; with required=True some path accepts
    # (the methods it calls on `self` written out in place: whether the requiredness is read where it is tested or handed to
    # another method of the class as an argument is the same decision)
    vl_flat = _SelfInliner(ix, vl, depth=2).run()

    def vl_paths(required: bool) -> list[SimPath]:
        def leaf(e: ast.expr, st: dict, sim: PathSim) -> "bool | None":
            if isinstance(e, ast.Compare) and len(e.ops) == 1:
                if isinstance(e.ops[0], (ast.In, ast.NotIn)) and "_allowed_locations" in norm(e.comparators[0]):
                    return isinstance(e.ops[0], ast.In)
                if isinstance(e.ops[0], (ast.Eq, ast.NotEq, ast.Is, ast.IsNot)) and any(norm(x).endswith("ParameterLocation.PATH") for x in (e.left, e.comparators[0])):
                    return isinstance(e.ops[0], (ast.Eq, ast.Is))
            return required if norm(e) == "self.required" else None

        return PathSim(vl_flat, leaf).paths()

    def rejects(p: SimPath) -> bool:
        return isinstance(p.end, ast.Raise) or (isinstance(p.end, ast.Return) and constructs_error(p.end.value))

    opt, req_ = vl_paths(False), vl_paths(True)
    ok = bool(opt) and all(rejects(p) for p in opt) and any(not rejects(p) for p in req_)
    rep.check(ok, "R10.5", "validate_location::path-required", "an optional path parameter is no longer rejected", where(vl, vl.node))
    rep.not_decided.append("run-time values of attributes; nullable without type or composition falls through handle_nullable (observation)")
    rep.observe("Schema.handle_nullable: `nullable: true` on a schema without type/oneOf/anyOf/allOf is ignored")
    return LEVEL


def _merge_keeps_required(rep: Report, ix: Any) -> None:
    """allOf merges two declarations of one property into one (merge_properties); the merged declaration is required when either
    was.  The OR is taken in one place - the function that receives both declarations and builds the result with
    `required=<a>.required or <b>.required` - so every way out of merge_properties that is not an error must go through it with
    BOTH declarations; returning one of them as it stands is right only when the two are equal."""
    from .siblings import _Inliner, implied_atoms

    rep.rule("R10.10", "merging two declarations keeps `required` if either has it: every path of merge_properties (private helpers "
                       "written out in place) that returns a result hands BOTH declarations (or copies made of them) to one call - the "
                       "combining function, which builds the result with `required=<one>.required or <other>.required` - or returns "
                       "under `<first> == <second>`; a shortcut that returns one declaration as it stands drops the other's `required`")
    f = ix.func("merge_properties.merge_properties")
    ps = [p.arg for p in f.params]
    rep.require(len(ps) == 2, "the two declarations merged by merge_properties")
    fn = _Inliner(ix, f, depth=3).run()
    errs = error_locals(fn)
    sim = PathSim(fn)
    side = {ps[0]: 1, ps[1]: 2}

    def base_side(e: ast.expr, st: dict, depth: int = 0) -> "int | None":
        """1 / 2: the expression is the first / second declaration, or a copy made of it"""
        e = sim.resolve(e, st)
        if isinstance(e, ast.Name):
            return side.get(e.id)
        if isinstance(e, ast.Call) and e.args and depth < 3 and call_name(e).rsplit(".", 1)[-1] in ("evolve", "replace", "copy", "deepcopy"):
            return base_side(e.args[0], st, depth + 1)
        return None

    def equal_taken(p: SimPath) -> bool:
        for ev in p.events:
            if ev.kind != "test" or ev.taken is None or not isinstance(ev.node, ast.expr):
                continue
            for t, val in implied_atoms(ev.node, ev.taken):
                if isinstance(t, ast.Compare) and len(t.ops) == 1 and isinstance(t.ops[0], (ast.Eq, ast.NotEq)) and \
                        {base_side(t.left, ev.state), base_side(t.comparators[0], ev.state)} == {1, 2} and val == isinstance(t.ops[0], ast.Eq):
                    return True
        return False

    combiners: set[str] = set()
    bad: list[ast.Return] = []
    good: set[tuple[int, str]] = set()
    for p in sim.paths():
        r = p.end
        if not isinstance(r, ast.Return) or r.value is None or path_returns_error(p, errs):
            continue
        v = sim.resolve(r.value, p.end_state)
        if isinstance(v, ast.Constant) and v.value is None:
            continue
        if isinstance(v, ast.Call) and {1, 2} <= {base_side(a, p.end_state) for a in [*v.args, *[k.value for k in v.keywords]]}:
            combiners.add(call_name(v).rsplit(".", 1)[-1])
            good.add((r.lineno, norm(r)))
            continue
        if equal_taken(p):
            good.add((r.lineno, norm(r)))
            continue
        if not any(x.lineno == r.lineno and norm(x) == norm(r) for x in bad):
            bad.append(r)
    rep.check(not bad, "R10.10", f"{short(f)}::both-declarations-combined",
              f"a path returns `{norm(bad[0].value)[:60] if bad else ''}` without handing both declarations to the combining function: a "
              "`required` that only the other declaration carries is lost (the property is generated as optional)",
              where(f, bad[0] if bad else f.node), lhs=[f"line {r.lineno}: {norm(r)[:70]}" for r in bad][:3],
              rhs="<combine>(<first>, <second>) on every path to a result, or `first == second`")
    rep.floor("merge_result_returns", len(good), 4)
    found = [g for g in ix.all_functions if g.module is f.module and g.name in combiners]
    rep.require(found or bad, "the function merge_properties hands both declarations to")
    for g in found:
        # the combining function together with the private functions of its module that it calls or hands on as a function value
        # (the step function of a fold, the callback of map / partial, ... is run by the function that receives it)
        ors = [kw.value for h in _private_closure(ix, g) for c in ast.walk(h.node) if isinstance(c, ast.Call)
               for kw in c.keywords if kw.arg == "required"]
        ok = any(isinstance(v, ast.BoolOp) and isinstance(v.op, ast.Or) and
                 len({norm(x.value) for x in v.values if isinstance(x, ast.Attribute) and x.attr == "required"}) >= 2 for v in ors)
        rep.check(ok, "R10.10", f"{short(g)}::required-or", "the function that combines two declarations does not build the result with "
                  "`required=<one>.required or <other>.required`", where(g, g.node), lhs=[norm(v)[:60] for v in ors][:2],
                  rhs="required=a.required or b.required")


def _private_closure(ix: Any, f: Any, depth: int = 3) -> list[Any]:
    """f and the private functions (`_name`) of its module or class that it reaches by name - called, or handed on as a function value
    (`reduce(_step, xs, x0)`, `map(_one, xs)`, `partial(_one, ...)`: whoever receives the function runs it) - transitively"""
    out = [f]
    frontier = [f]
    for _ in range(depth):
        nxt: list[Any] = []
        for g in frontier:
            names = {n.id for n in ast.walk(g.node) if isinstance(n, ast.Name) and isinstance(n.ctx, ast.Load)} | \
                    {n.attr for n in ast.walk(g.node) if isinstance(n, ast.Attribute) and isinstance(n.value, ast.Name)
                     and (n.value.id in ("self", "cls") or (g.cls is not None and n.value.id == g.cls.name))}
            bound = set(Locals(g.node).defs) | {a.arg for a in g.params}
            for h in ix.all_functions:
                if h.name in names and h.name not in bound and h.name.startswith("_") and not h.name.startswith("__") \
                        and h.module is g.module and h.parent is None and not any(h is x for x in out):
                    out.append(h)
                    nxt.append(h)
        frontier = nxt
    return out


_EMPTY = (ast.List, ast.Tuple, ast.Set, ast.Dict)


def _required_list_read(e: ast.AST) -> bool:
    """`<x>.required`, `<x>.required or []`, or a set / list / tuple / sorted / frozenset made of one: the names a document object
    lists as required (a property's own `required` is a bool and is never iterated)"""
    if isinstance(e, ast.BoolOp) and isinstance(e.op, ast.Or) and len(e.values) == 2 and isinstance(e.values[1], (*_EMPTY, ast.Call)) and \
            not getattr(e.values[1], "elts", None) and not getattr(e.values[1], "args", None):
        e = e.values[0]
    if isinstance(e, ast.Attribute) and e.attr == "required" and not (isinstance(e.value, ast.Name) and e.value.id == "cls"):
        return True
    if isinstance(e, ast.Call) and norm(e.func) in ("set", "frozenset", "list", "tuple", "sorted") and len(e.args) == 1:
        return _required_list_read(e.args[0])
    if isinstance(e, ast.Starred):
        return _required_list_read(e.value)
    if isinstance(e, (ast.Set, ast.List, ast.Tuple)) and len(e.elts) == 1 and isinstance(e.elts[0], ast.Starred):
        return _required_list_read(e.elts[0])
    return False


def _required_list_whole(rep: Report, ix: Any, stores: list[tuple[Any, ast.AST]]) -> None:
    """Which properties are mandatory is said by the `required` lists of the document (of the schema itself and of every allOf member),
    by name - also names of properties that another member declares.  Every name has to reach the place where a property's
    `required` is decided: the list is not rewritten on the document object and nothing is taken out of it on the way."""
    rep.rule("R10.11", "the names a document object lists under `required` reach the builders whole: the field is not rewritten in place "
                       "(store, del, mutating call - also by a validator of the document class), and a collection made of it is never "
                       "filtered (a comprehension / filter() / loop with a condition over it, set difference or intersection, "
                       "remove / discard / pop / clear): a name dropped there - e.g. because the object does not declare the property "
                       "itself - makes an inherited property optional")
    n_reads = 0
    bad: list[tuple[Any, ast.AST, str]] = [(f, n, "the field is rewritten in place") for f, n in stores]
    lossy = {"remove", "discard", "pop", "clear", "difference", "difference_update", "intersection", "intersection_update",
             "symmetric_difference", "symmetric_difference_update"}
    for f in ix.all_functions:
        if f.parent is not None:
            continue   # closures are walked with the function that holds them
        lc = Locals(f.node)
        # locals that hold (a collection made of) a required list
        held = {nm for nm, ds in lc.defs.items() if any(v is not None and k.startswith("assign") and _required_list_read(v) for k, _, v in ds)}

        def is_rl(e: ast.AST) -> bool:
            return _required_list_read(e) and not (isinstance(e, ast.Attribute)) or (isinstance(e, ast.Name) and e.id in held)

        def iterated(e: ast.AST) -> bool:
            """e in a position where it is iterated: the list itself counts here too"""
            return is_rl(e) or (_required_list_read(e) and isinstance(e, (ast.Attribute, ast.BoolOp)))

        for n in ast.walk(f.node):
            if isinstance(n, (ast.ListComp, ast.SetComp, ast.GeneratorExp, ast.DictComp)):
                for g in n.generators:
                    if iterated(g.iter):
                        n_reads += 1
                        if g.ifs:
                            bad.append((f, n, "a comprehension over it keeps only some names"))
            elif isinstance(n, ast.Call):
                fn = norm(n.func)
                if fn in ("filter", "itertools.filterfalse", "filterfalse") and len(n.args) == 2 and iterated(n.args[1]):
                    bad.append((f, n, "filter() over it keeps only some names"))
                elif fn in ("set", "frozenset", "list", "tuple", "sorted") and len(n.args) == 1 and iterated(n.args[0]):
                    n_reads += 1
                elif isinstance(n.func, ast.Attribute):
                    recv = n.func.value
                    on_field = isinstance(recv, ast.Attribute) and recv.attr == "required"
                    if n.func.attr in lossy and (is_rl(recv) or on_field):
                        bad.append((f, n, f"`.{n.func.attr}(...)` takes names out of it"))
                    elif on_field and n.func.attr in ("append", "extend", "insert", "sort", "reverse", "__delitem__", "__setitem__"):
                        bad.append((f, n, "the field is changed in place"))
                    elif n.func.attr in ("update", "union", "extend") and any(iterated(a) for a in n.args):
                        n_reads += 1
            elif isinstance(n, ast.Starred) and iterated(n.value):
                n_reads += 1
            elif isinstance(n, ast.BinOp) and isinstance(n.op, (ast.Sub, ast.BitAnd, ast.BitXor)) and (is_rl(n.left) or is_rl(n.right)):
                bad.append((f, n, "a set difference / intersection takes names out of it"))
            elif isinstance(n, ast.AugAssign) and isinstance(n.op, (ast.Sub, ast.BitAnd, ast.BitXor)) and (is_rl(n.target) or is_rl(n.value)):
                bad.append((f, n, "a set difference / intersection takes names out of it"))
            elif isinstance(n, ast.Delete) and any(isinstance(t, ast.Subscript) and isinstance(t.value, ast.Attribute) and t.value.attr == "required"
                                                   or isinstance(t, ast.Attribute) and t.attr == "required" for t in n.targets):
                bad.append((f, n, "the field is changed in place"))
            elif isinstance(n, (ast.For, ast.AsyncFor)) and iterated(n.iter) and isinstance(n.target, ast.Name):
                n_reads += 1
                v = n.target.id
                skips = any(isinstance(x, ast.Continue) for x in ast.walk(n))
                cond = any(isinstance(i_, ast.If) and any(isinstance(c, ast.Call) and isinstance(c.func, ast.Attribute) and
                                                          c.func.attr in ("add", "append") and any(norm(a) == v for a in c.args)
                                                          for b_ in (i_.body, i_.orelse) for st in b_ for c in ast.walk(st))
                           for i_ in ast.walk(n))
                if skips or cond:
                    bad.append((f, n, "a loop over it hands on only some names"))
    seen: set[str] = set()
    for f, n, why in bad:
        k = f"{short(f)}::required-list-not-whole"
        if k in seen:
            continue
        seen.add(k)
        rep.fail("R10.11", k, f"the document's `required` list does not reach the builders whole: {why} ({norm(n)[:70]}); a required name "
                 "that is dropped (one the object does not declare itself, but another allOf member does) makes that property optional",
                 where(f, n), lhs=norm(n)[:80], rhs="set(<schema>.required or []) handed on as it is")
    rep.floor("required_list_reads", n_reads, 1)
    if not bad:
        rep.ok("R10.11", "package::required-lists-whole", n_reads, "no rewrite, no filter")


def _combination_is_allof_only(rep: Report, ix: Any) -> None:
    """`required` is sticky and a missing default is inherited when one property is declared twice in an allOf composition - and nowhere
    else: an operation's parameter replaces the path item's, a referenced schema's property is the referenced one.  The functions
    that compute a `required` from two declarations' (`a.required or b.required`), and everything that reaches them, therefore
    belong to the merge machinery or to the allOf composition."""
    from ..astutil import region

    rep.rule("R10.12", "the requiredness of two declarations is combined (`required=<a>.required or <b>.required` and the like) only for "
                       "allOf: every function from which such a combination is reached lies in the module of merge_properties, or "
                       "is a private helper (or a method of a private class) all of whose callers (users) qualify, or is (with its private helpers and closures) the "
                       "function that walks `<schema>.allOf`; anywhere else - parameters of an operation over those of its path item, "
                       "a reference over its target - one declaration replaces the other and keeps its own `required`")
    mp = ix.func("merge_properties.merge_properties")
    home = mp.module

    def two_required(v: ast.AST) -> bool:
        reads = {norm(x.value) for x in ast.walk(v) if isinstance(x, ast.Attribute) and x.attr == "required"}
        combining = isinstance(v, (ast.BoolOp, ast.BinOp)) or (isinstance(v, ast.Call) and norm(v.func) in ("any", "all", "max", "min", "bool"))
        return combining and len(reads) >= 2

    def outer(g: Any) -> Any:
        while g.parent is not None:
            g = g.parent
        return g

    combiners = []
    for g in ix.all_functions:
        for c in ast.walk(g.node):
            vals = [kw.value for kw in c.keywords if kw.arg == "required"] if isinstance(c, ast.Call) else \
                [c.value] if isinstance(c, ast.Assign) and any(isinstance(t, ast.Attribute) and t.attr == "required" for t in c.targets) else []
            if any(two_required(v) for v in vals) and outer(g) not in combiners:
                combiners.append(outer(g))
    rep.floor("requiredness_combiners", len(combiners), 1)
    by_name: dict[str, list[Any]] = {}
    for g in ix.all_functions:
        by_name.setdefault(g.name, []).append(g)

    def callers(h: Any) -> list[Any]:
        out = []
        for g in ix.all_functions:
            if g.parent is not None:
                continue
            if outer(g) is not h and any(call_name(c).rsplit(".", 1)[-1] == h.name for c in calls_in(g.node)) and g not in out:
                out.append(g)
        return out

    def users(k: Any) -> list[Any]:
        out = []
        for g in ix.all_functions:
            if g.parent is None and g.cls is not k and any(isinstance(x, ast.Name) and x.id == k.name for x in ast.walk(g.node)) and g not in out:
                out.append(g)
        return out

    def walks_allof(g: Any) -> bool:
        return any(isinstance(x, ast.Attribute) and x.attr == "allOf" for h in region(ix, g) for x in ast.walk(h.node))

    bad: list[tuple[Any, Any]] = []
    seen = {g.qual for g in combiners}
    todo = [(g, g) for g in combiners]
    n_checked = 0
    while todo:
        g, via = todo.pop()
        n_checked += 1
        if g.module is home:
            nxt = callers(g)
        elif walks_allof(g):
            continue
        elif g.name.startswith("_") and not g.name.startswith("__") and callers(g):
            nxt = callers(g)
        elif g.cls is not None and g.cls.name.startswith("_") and users(g.cls):
            nxt = users(g.cls)     # a method of a private class: the functions that use the class
        else:
            bad.append((g, via))
            continue
        for c in nxt:
            if c.qual not in seen:
                seen.add(c.qual)
                todo.append((c, g))
    for g, via in bad:
        rep.fail("R10.12", f"{short(g)}::combines-requiredness-outside-allOf",
                 f"{short(g)} reaches the combination of two declarations' `required` (through {short(via)}) but is neither part of the "
                 "merge machinery nor the allOf composition: what it builds is required as soon as either declaration is - a "
                 "parameter or property re-declared as optional stays mandatory (and inherits the other declaration's default)",
                 where(g, g.node), lhs=short(via), rhs="one declaration replaces the other")
    if not bad:
        rep.ok("R10.12", "package::combination-allOf-only", n_checked, "only the merge module and the allOf walk reach a combination")


def _py_blocks(text: str) -> Iterator[ast.Module]:
    """the statements of generated Python code that a piece of template text contains completely: for every line, the line together
    with the deeper indented lines that follow it, if that parses"""
    import textwrap

    lines = text.split("\n")
    ind = lambda l: len(l) - len(l.lstrip(" "))
    for i, l in enumerate(lines):
        if not l.strip():
            continue
        j = i + 1
        while j < len(lines) and (not lines[j].strip() or ind(lines[j]) > ind(l)):
            j += 1
        try:
            yield ast.parse(textwrap.dedent("\n".join(lines[i:j])))
        except SyntaxError:
            continue


def _params_filter(n: ast.AST, var: str) -> "list[bool | None] | None":
    """n drops entries of the dict `var` by their value: [is a value kept that is neither UNSET nor None, one that is UNSET, one
    that is None] (None: the condition asks something else, e.g. truthiness); None if n is no such statement"""
    def items_of(e: ast.expr) -> bool:
        while isinstance(e, ast.Call) and norm(e.func) in ("list", "tuple") and len(e.args) == 1:
            e = e.args[0]
        return isinstance(e, ast.Call) and isinstance(e.func, ast.Attribute) and e.func.attr == "items" and not e.args \
            and norm(e.func.value) in (var, f"{var}.copy()", f"dict({var})")

    def value_var(t: ast.expr) -> "str | None":
        return t.elts[1].id if isinstance(t, ast.Tuple) and len(t.elts) == 2 and isinstance(t.elts[1], ast.Name) else None

    def ev(e: ast.expr, v: str, unset: bool, none: bool) -> "bool | None":
        if isinstance(e, ast.BoolOp):
            xs = [ev(x, v, unset, none) for x in e.values]
            if isinstance(e.op, ast.And):
                return False if any(x is False for x in xs) else None if any(x is None for x in xs) else True
            return True if any(x is True for x in xs) else None if any(x is None for x in xs) else False
        if isinstance(e, ast.UnaryOp) and isinstance(e.op, ast.Not):
            x = ev(e.operand, v, unset, none)
            return None if x is None else not x
        if isinstance(e, ast.Compare) and len(e.ops) == 1 and isinstance(e.ops[0], (ast.Is, ast.IsNot)) and norm(e.left) == v \
                and norm(e.comparators[0]) in ("UNSET", "None"):
            x = unset if norm(e.comparators[0]) == "UNSET" else none
            return x if isinstance(e.ops[0], ast.Is) else not x
        if isinstance(e, ast.Call) and norm(e.func) == "isinstance" and len(e.args) == 2 and norm(e.args[0]) == v and norm(e.args[1]) == "Unset":
            return unset
        return None

    cases = [(False, False), (True, False), (False, True)]
    if isinstance(n, (ast.DictComp, ast.GeneratorExp, ast.ListComp)) and len(n.generators) == 1 and items_of(n.generators[0].iter):
        g = n.generators[0]
        v = value_var(g.target)
        if v is None:
            return None
        if not g.ifs:
            return None
        cond: ast.expr = g.ifs[0] if len(g.ifs) == 1 else ast.BoolOp(op=ast.And(), values=list(g.ifs))
        return [ev(cond, v, u, nn) for u, nn in cases]
    if isinstance(n, ast.For) and items_of(n.iter) and value_var(n.target) is not None and len(n.body) == 1 and isinstance(n.body[0], ast.If) \
            and not n.body[0].orelse:
        k, v = n.target.elts[0], value_var(n.target)   # type: ignore[attr-defined]
        body = n.body[0].body
        deletes = len(body) == 1 and (
            (isinstance(body[0], ast.Delete) and [norm(t) for t in body[0].targets] == [f"{var}[{norm(k)}]"])
            or (isinstance(body[0], ast.Expr) and isinstance(body[0].value, ast.Call) and norm(body[0].value.func) == f"{var}.pop"
                and body[0].value.args and norm(body[0].value.args[0]) == norm(k)))
        if deletes:
            out: "list[bool | None]" = []
            for u, nn in cases:
                x = ev(n.body[0].test, v, u, nn)
                out.append(None if x is None else not x)
            return out
    return None


def _tests_unset(text: str) -> bool:
    """the generated line opens a block that runs only for a value that is not the UNSET sentinel (identity with the singleton or
    an instance test of its class - both are how the generated code asks)"""
    return bool(re.search(r"\bis not UNSET\b|\bnot isinstance\([^()]*,\s*Unset\)", text))


def _nullable_paths(fn: ast.AST, nullable: bool, shape: str) -> list[SimPath]:
    """paths of Schema.handle_nullable for a schema of the given shape: `type` a scalar / a list (without null) / absent with one of
    the composition keywords non-empty"""
    from .siblings import _chain

    def field_of(e: ast.expr, st: dict, sim: PathSim) -> str:
        """`self.<field>` when the expression is that field of the schema: read directly, through a local that holds it, or by
        `getattr(self, "<field>")` with the name written out or held by a local"""
        e = sim.resolve(e, st)
        if isinstance(e, ast.Call) and norm(e.func) == "getattr" and len(e.args) in (2, 3) and norm(e.args[0]) == "self":
            k = sim.resolve(e.args[1], st)
            if isinstance(k, ast.Constant) and isinstance(k.value, str):
                return "self." + k.value
        return norm(e)

    def leaf(e: ast.expr, st: dict, sim: PathSim) -> "bool | None":
        def size(x: ast.expr) -> "int | None":
            if isinstance(x, ast.Constant) and isinstance(x.value, int) and not isinstance(x.value, bool):
                return x.value
            if isinstance(x, ast.Call) and norm(x.func) == "len" and len(x.args) == 1 and \
                    field_of(x.args[0], st, sim) in ("self.oneOf", "self.anyOf", "self.allOf"):
                return 1 if field_of(x.args[0], st, sim) == "self." + shape else 0
            return None

        t = field_of(e, st, sim) if isinstance(e, (ast.Name, ast.Call)) else norm(e)
        if t == "self.nullable":
            return nullable
        if t in ("self.oneOf", "self.anyOf", "self.allOf"):
            return t == "self." + shape
        if t == "self.type":
            return shape.startswith("type")
        if isinstance(e, ast.Call) and norm(e.func) == "isinstance" and len(e.args) == 2 and field_of(e.args[0], st, sim) == "self.type":
            kinds = [norm(x) for x in (e.args[1].elts if isinstance(e.args[1], ast.Tuple) else [e.args[1]])]
            have = {"type scalar": "str", "type list": "list"}.get(shape)
            return have in kinds if have else False
        if isinstance(e, ast.Compare):
            if len(e.ops) == 1 and isinstance(e.ops[0], (ast.In, ast.NotIn)) and field_of(e.comparators[0], st, sim) == "self.type" and norm(e.left).endswith("NULL"):
                return isinstance(e.ops[0], ast.NotIn)  # the list does not contain null yet
            return _chain(e, size)
        return None

    def none_of(e: ast.expr, st: dict, sim: PathSim) -> "bool | None":
        return (not shape.startswith("type")) if field_of(e, st, sim) == "self.type" else None

    return PathSim(fn, leaf, none_of).paths()


class _FlatInliner(_Inliner):
    """_Inliner, also for helpers that are called where the inliner leaves them alone although writing them out is exact:

    * a helper call in a later operand of the `and` / `or` an `if` tests: `if a and h(): B else: E` is `if a: (if h(): B else: E)
      else: E` (and `if a or h(): B else: E` is `if a: B else: (if h(): B else: E)`), where the call is evaluated
      unconditionally in the test of the inner `if`;
    * a helper that returns from inside a loop over a written-out table: the loop is unrolled first, the returns are then
      returns of straight-line code."""

    def _calls_helper(self, e: ast.AST) -> bool:
        return any(isinstance(n, ast.Call) and self._helper_of(n) is not None for n in ast.walk(e))

    def _hoist(self, s: ast.stmt, stack: tuple) -> list:
        import copy

        if isinstance(s, ast.If) and isinstance(s.test, ast.BoolOp):
            vals = s.test.values
            k = next((i for i in range(1, len(vals)) if self._calls_helper(vals[i])), None)
            if k is not None:
                first = vals[0] if k == 1 else ast.copy_location(ast.BoolOp(op=s.test.op, values=vals[:k]), s.test)
                rest = vals[k] if k == len(vals) - 1 else ast.copy_location(ast.BoolOp(op=s.test.op, values=vals[k:]), s.test)
                if isinstance(s.test.op, ast.And):
                    inner = ast.copy_location(ast.If(test=rest, body=s.body, orelse=copy.deepcopy(s.orelse)), s)
                    s.test, s.body = first, [inner]
                else:
                    inner = ast.copy_location(ast.If(test=rest, body=copy.deepcopy(s.body), orelse=s.orelse), s)
                    s.test, s.orelse = first, [inner]
                self.n += 1
        return super()._hoist(s, stack)

    def _structured(self, stmts: list, res: str, budget: list) -> "list | None":
        flat: list = []
        for s in stmts:
            u = self._unrolled(s) if isinstance(s, ast.For) and _returns_in(s) else None
            flat += u if u is not None else [s]
        return super()._structured(flat, res, budget)


class _SelfInliner(_FlatInliner):
    """_FlatInliner, also for the methods a method calls on its own object (`self.m(...)` / `cls.m(...)`, public or private, as the
    class of the method provides them - its own or an inherited one): what the class's implementation does, whether it is written
    in one method or delegates to another with the decisive value as an argument.  (An override in a subclass is another
    implementation: it is looked at where the rule looks at the subclass.)"""

    def __init__(self, ix: Any, f: Any, depth: int = 2):
        super().__init__(ix, f, depth)
        self.own_methods: dict[str, Any] = {}
        frontier = [f] if f.cls is not None else []
        for _ in range(depth):
            nxt = []
            for g in frontier:
                for c in calls_in(g.node):
                    if isinstance(c.func, ast.Attribute) and isinstance(c.func.value, ast.Name) and c.func.value.id in ("self", "cls"):
                        m = ix.find_method(f.cls, c.func.attr)
                        if m is not None and m is not f and m.name not in self.helpers and m.name not in self.own_methods:
                            self.own_methods[m.name] = m
                            nxt.append(m)
            frontier = nxt

    def _helper_of(self, c: ast.Call) -> Any:
        h = super()._helper_of(c)
        if h is None and isinstance(c.func, ast.Attribute) and isinstance(c.func.value, ast.Name) and c.func.value.id in ("self", "cls"):
            h = self.own_methods.get(c.func.attr)
        return h


def _adds_null(p: SimPath) -> bool:
    return any(any(isinstance(n, ast.Attribute) and n.attr == "NULL" for n in walk_own(s)) for s in p.stmts())


def _code_before(frs: list[tplq.Frag], i: int, offset: int = 0) -> tuple[str, str]:
    """(the last complete non-blank line, the beginning of the current line) of the generated code at the point where fragment
    i is emitted (`offset` characters into it, for template text), read backwards from the fragments emitted before it; an
    output expression reads HOLE"""
    out = frs[i].text[:offset] if frs[i].kind == "data" else ""
    for fr in reversed(frs[:i]):
        if sum(1 for l in out.split("\n")[:-1] if l.strip()) >= 2:
            break
        if fr.kind == "set":
            continue
        out = (fr.text if fr.kind == "data" else HOLE) + out
    lines = out.split("\n")
    return next((l for l in reversed(lines[:-1]) if l.strip()), ""), lines[-1]


def _under_unset_test(frs: list[tplq.Frag], i: int, offset: int = 0) -> bool:
    """at this point the generated code starts the first statement of the block of an `if` that runs only for a value that is not
    the UNSET sentinel: the line before is such an `if` and the current line is indented deeper"""
    prev, cur = _code_before(frs, i, offset)
    ind = lambda l: len(l) - len(l.lstrip(" "))
    return bool(re.match(r"\s*(el)?if\b.*:\s*$", prev)) and _tests_unset(prev) and ind(cur) > ind(prev)


def _clone(n: Any, binding: dict[str, Any]) -> Any:
    """copy of a Jinja expression in which the macro parameters are replaced by the arguments of the call"""
    if isinstance(n, nodes.Name) and n.ctx == "load" and n.name in binding:
        return binding[n.name]
    if isinstance(n, nodes.Node):
        vals = []
        for fld in n.fields:
            v = getattr(n, fld)
            vals.append([_clone(x, binding) for x in v] if isinstance(v, list) else _clone(v, binding))
        return type(n)(*vals, lineno=n.lineno)
    return n


# ---- conditions ---------------------------------------------------------------------------------------------------------------
# tplq's truth tables read and / or / not over opaque atoms.  The same decision can be spelt with a constant (a macro called with
# `true`, one round of a loop over `(false, true)`), as a comparison of two truth values (`(a or b) == flag`), as a conditional
# expression or as `x == none`: these are taken apart as well, so that the atoms stay the questions asked of the *property*.

BOOL_ATTRS: set[str] = set()   # attributes of property objects that every property class which declares them annotates `bool`


def _bool_attrs(ix: Any) -> set[str]:
    anns: dict[str, list[Any]] = {}
    for c in [ix.cls("PropertyProtocol")] + ix.property_classes():
        for name, ann in c.fields.items():
            anns.setdefault(name, []).append(ann)
    return {name for name, xs in anns.items() if all(a is not None and norm(a) in ("bool", "ClassVar[bool]") for a in xs)}


def _strict_bool(n: Any) -> bool:
    """the expression evaluates to True or False themselves (not merely to something truthy or falsy)"""
    if isinstance(n, nodes.Const):
        return isinstance(n.value, bool)
    if isinstance(n, nodes.Getattr):
        return n.attr in BOOL_ATTRS
    if isinstance(n, (nodes.Not, nodes.Test, nodes.Compare)):
        return True
    if isinstance(n, (nodes.And, nodes.Or)):
        return _strict_bool(n.left) and _strict_bool(n.right)
    if isinstance(n, nodes.CondExpr):
        return n.expr2 is not None and _strict_bool(n.expr1) and _strict_bool(n.expr2)
    return False


def _is_none(n: Any) -> bool:
    return isinstance(n, nodes.Const) and n.value is None


def _eqne(t: Any) -> "tuple[Any, Any, bool] | None":
    """(left, right, is-equality) of a comparison `a == b` / `a != b`"""
    if isinstance(t, nodes.Compare) and len(t.ops) == 1 and t.ops[0].op in ("eq", "ne"):
        return t.expr, t.ops[0].expr, t.ops[0].op == "eq"
    return None


def _atoms(t: Any) -> list[str]:
    out: list[str] = []

    def add(xs: list[str]) -> None:
        for a in xs:
            if a not in out:
                out.append(a)

    if isinstance(t, (nodes.And, nodes.Or)):
        add(_atoms(t.left))
        add(_atoms(t.right))
    elif isinstance(t, nodes.Not):
        add(_atoms(t.node))
    elif isinstance(t, nodes.Const):
        pass
    elif isinstance(t, nodes.CondExpr) and t.expr2 is not None:
        add(_atoms(t.test))
        add(_atoms(t.expr1))
        add(_atoms(t.expr2))
    elif _eqne(t) is not None and _strict_bool(_eqne(t)[0]) and _strict_bool(_eqne(t)[1]):
        add(_atoms(_eqne(t)[0]))
        add(_atoms(_eqne(t)[1]))
    elif _eqne(t) is not None and (_is_none(_eqne(t)[0]) != _is_none(_eqne(t)[1])):
        l, r, _ = _eqne(t)
        add([f"{expr_text(l if _is_none(r) else r)} is none"])
    elif isinstance(t, nodes.Test) and t.name in ("true", "false") and not t.args and _strict_bool(t.node):
        add(_atoms(t.node))
    else:
        add([expr_text(t)])
    return out


def _eval(t: Any, env: dict[str, bool]) -> bool:
    if isinstance(t, nodes.And):
        return _eval(t.left, env) and _eval(t.right, env)
    if isinstance(t, nodes.Or):
        return _eval(t.left, env) or _eval(t.right, env)
    if isinstance(t, nodes.Not):
        return not _eval(t.node, env)
    if isinstance(t, nodes.Const):
        return bool(t.value)
    if isinstance(t, nodes.CondExpr) and t.expr2 is not None:
        return _eval(t.expr1 if _eval(t.test, env) else t.expr2, env)
    eq = _eqne(t)
    if eq is not None and _strict_bool(eq[0]) and _strict_bool(eq[1]):
        return (_eval(eq[0], env) == _eval(eq[1], env)) == eq[2]
    if eq is not None and (_is_none(eq[0]) != _is_none(eq[1])):
        return env[f"{expr_text(eq[0] if _is_none(eq[1]) else eq[1])} is none"] == eq[2]
    if isinstance(t, nodes.Test) and t.name in ("true", "false") and not t.args and _strict_bool(t.node):
        return _eval(t.node, env) == (t.name == "true")
    return env[expr_text(t)]


def _guard_atoms(fr: tplq.Frag) -> list[str]:
    out: list[str] = []
    for gn in fr.guard_nodes:
        for a in _atoms(gn):
            if a not in out:
                out.append(a)
    return out


def _guard_holds(fr: tplq.Frag, env: dict[str, bool]) -> bool:
    """is the fragment emitted under the assignment env of its guard atoms?"""
    return all(_eval(gn, env) == pol for gn, (_, pol) in zip(fr.guard_nodes, fr.guards))


def _implies(fr: tplq.Frag, atom: str, value: bool) -> bool:
    """whenever the fragment is emitted, `atom` has truth value `value` (truth table over the guard atoms)"""
    names = _guard_atoms(fr)
    if atom not in names:
        return False
    envs = [e for e in tplq.assignments(names) if _guard_holds(fr, e)]
    return bool(envs) and all(e[atom] == value for e in envs)


def _frag(kind: str, text: str, line: int, guards: tuple, gnodes: tuple, loops: tuple, node: Any, expr: Any = None,
          target: "str | None" = None, insts: tuple = ()) -> tplq.Frag:
    """a tplq.Frag that also carries the expression in the caller's terms (`expr`), for a `set` the canonical name of the
    variable it defines (`target`), and one token per enclosing loop that tells two executions of the same loop apart (`insts`)"""
    fr = tplq.Frag(kind, text, line, guards, gnodes, loops, node)
    fr.expr = expr          # type: ignore[attr-defined]
    fr.target = target      # type: ignore[attr-defined]
    fr.insts = insts        # type: ignore[attr-defined]
    fr.wraps = ()           # type: ignore[attr-defined]   # see _Walk.wrapped
    return fr


def _spells(e: Any, needle: str) -> bool:
    """the expression itself contains a string constant with this text"""
    if e is None:
        return False
    return any(isinstance(c, nodes.Const) and isinstance(c.value, str) and needle in c.value for c in [e, *e.find_all(nodes.Const)])


HOLE = "\u2039\u203a"  # stands for a part of a template expression that is not a string constant


class _TplEval:
    """What a template expression evaluates to, as far as its string constants go, under a valuation of the conditions it depends
    on: a conditional expression selects one arm; a `set` variable stands for its definition - the last one before the reading
    site whose guards hold (jinja_canon gives the variable one name in all its definitions and uses).  Writing a decision as
    `{% if %}` around two `set`s, as a conditional expression inside one, or through a helper variable is the same to this."""

    DEPTH = 3

    def __init__(self, frs: list[tplq.Frag]):
        self.defs: dict[str, list[tuple[int, tplq.Frag]]] = {}
        for i, fr in enumerate(frs):
            if fr.kind == "set" and getattr(fr, "target", None):
                self.defs.setdefault(fr.target, []).append((i, fr))  # type: ignore[attr-defined]

    def _reaching(self, name: str, at: int) -> list[tuple[int, tplq.Frag]]:
        return [(i, d) for i, d in self.defs.get(name, ()) if i < at]

    def atoms(self, e: nodes.Node, at: int, depth: int = 0) -> list[str]:
        """the conditions the value of e depends on (tests of conditional expressions, guards of the definitions it reads)"""
        out: list[str] = []
        for n in [e, *e.find_all((nodes.CondExpr, nodes.Name))]:
            if isinstance(n, nodes.CondExpr):
                out += _atoms(n.test)
            elif isinstance(n, nodes.Name) and depth < self.DEPTH:
                for i, d in self._reaching(n.name, at):
                    out += _guard_atoms(d) + self.atoms(d.expr, i, depth + 1)  # type: ignore[attr-defined]
        return list(dict.fromkeys(out))

    def consts(self, e: "nodes.Node | None", env: dict[str, bool], at: int, depth: int = 0) -> list[str]:
        """the string constants that make up the value of e under env, in source order, HOLE for everything else"""
        if e is None:
            return []
        if isinstance(e, nodes.Const):
            return [e.value if isinstance(e.value, str) else HOLE]
        if isinstance(e, nodes.TemplateData):
            return [e.data]
        if isinstance(e, nodes.CondExpr):
            return self.consts(e.expr1 if _eval(e.test, env) else e.expr2, env, at, depth)
        if isinstance(e, nodes.Name):
            live = [(i, d) for i, d in self._reaching(e.name, at) if _guard_holds(d, env)] if depth < self.DEPTH else []
            if live:
                return self.consts(live[-1][1].expr, env, live[-1][0], depth + 1)  # type: ignore[attr-defined]
            return [HOLE]
        out: list[str] = []
        for ch in e.iter_child_nodes():
            out += self.consts(ch, env, at, depth)
        return out or [HOLE]

    def reads(self, e: nodes.Node, at: int, depth: int = 0) -> str:
        """text of e and of the definitions it reads"""
        out = [expr_text(e)]
        if depth < self.DEPTH:
            for n in [e, *e.find_all(nodes.Name)]:
                if isinstance(n, nodes.Name):
                    out += [self.reads(d.expr, i, depth + 1) for i, d in self._reaching(n.name, at)]  # type: ignore[attr-defined]
        return " <- ".join(out)


UNROLL = 8
CALLER = "\0caller"   # key of a macro's bindings under which the body of the call block that invoked it is kept (no template name can collide)


def _frags(body: list[nodes.Node], ti: Any, jx: Any = None, tests: "list[nodes.Node] | None" = None, sets: bool = False) -> Iterator[tplq.Frag]:
    """tplq.frags in the order of execution, indifferent to how the template is cut into pieces:

    * the filter of a `for ... if cond` loop and a `selectattr` / `rejectattr` chain on the iterable are guards of the loop body
      (the same decision as an `if` around the body);
    * a call of a macro - of the same template, or imported by `{% from "T" import m %}` / `{% import "T" as ns %}` with a
      constant T - is replaced by the fragments of that macro, its conditions expressed in the caller's terms (parameters
      replaced by the arguments); `{% include "T" %}` likewise.  Extracting a shared body into a macro, here or in another file,
      changes nothing;
    * a loop over a literal sequence (`for flag in (false, true)`) is the sequence of its rounds, the loop variable replaced by
      the element;
    * a loop variable reads `<iterable>[*]` in the caller's terms.

    With sets=True `{% set x = e %}` statements are reported as fragments of kind "set".  `tests` collects every condition met on
    the way."""
    return _Walk(jx, tests, sets).walk(body, ti, (), (), (), (), {}, ())


class _Walk:
    def __init__(self, jx: Any, tests: "list[nodes.Node] | None", sets: bool):
        self.jx = jx
        self.tests = tests
        self.sets = sets
        self._imports: dict[str, tuple[dict, dict]] = {}
        self._defs: dict[str, list[nodes.Node]] = {}   # `set` variable -> the values it was given on the way, in the walker's terms

    # -- which macro does a call mean -----------------------------------------------------------------------------------------
    def imports(self, ti: Any) -> tuple[dict, dict]:
        """({name: (template, macro)}, {alias: template}) of the imports of ti whose template is a constant; a name that is also
        imported from a computed template means nothing here"""
        if ti.name not in self._imports:
            names: dict[str, Any] = {}
            spaces: dict[str, Any] = {}
            for n in ti.tree.find_all((nodes.FromImport, nodes.Import)):
                t = n.template.value if isinstance(n.template, nodes.Const) and isinstance(n.template.value, str) else None
                if isinstance(n, nodes.Import):
                    spaces[n.target] = t if spaces.get(n.target, t) == t else None
                else:
                    for x in n.names:
                        orig, alias = x if isinstance(x, tuple) else (x, x)
                        v = (t, orig) if t is not None else None
                        names[alias] = v if names.get(alias, v) == v else None
            self._imports[ti.name] = ({k: v for k, v in names.items() if v}, {k: v for k, v in spaces.items() if v})
        return self._imports[ti.name]

    def macro_of(self, c: nodes.Node, ti: Any, b: dict[str, Any]) -> "tuple[nodes.Macro, nodes.Call, Any] | None":
        """the macro that the output expression calls (possibly through filters: `{{ _m(...) | indent(4) }}`) and its template"""
        while isinstance(c, nodes.Filter) and c.node is not None:
            c = c.node
        if not isinstance(c, nodes.Call):
            return None
        f = c.node
        if isinstance(f, nodes.Name) and f.name not in b:
            if f.name in ti.macros:
                return ti.macros[f.name], c, ti
            tn, mn = self.imports(ti)[0].get(f.name, (None, None))
        elif isinstance(f, nodes.Getattr) and isinstance(f.node, nodes.Name) and f.node.name not in b:
            tn, mn = self.imports(ti)[1].get(f.node.name), f.attr
        else:
            return None
        t2 = self.jx.templates.get(tn) if self.jx is not None and tn else None
        if t2 is not None and mn in t2.macros:
            return t2.macros[mn], c, t2
        return None

    @staticmethod
    def bind_call(macro: nodes.Macro, call: nodes.Call, b: dict[str, Any]) -> dict[str, Any]:
        """the macro's parameters as the expressions the call hands over (in the caller's terms), defaults for the rest"""
        b2: dict[str, Any] = {}
        params = [a.name for a in macro.args]
        for a, d in zip(macro.args[len(macro.args) - len(macro.defaults):], macro.defaults):
            b2[a.name] = d
        for i, a in enumerate(call.args):
            if i < len(params):
                b2[params[i]] = _clone(a, b) if b else a
        for kw in call.kwargs:
            b2[kw.key] = _clone(kw.value, b) if b else kw.value
        return b2

    @staticmethod
    def caller_body(c: nodes.Node, b: dict[str, Any]) -> "tuple[list, Any, dict[str, Any]] | None":
        """the output expression is `caller()` of a macro that was invoked by a call block: (the block's body, its template, the
        bindings at the place where it is written)"""
        while isinstance(c, nodes.Filter) and c.node is not None:
            c = c.node
        if isinstance(c, nodes.Call) and isinstance(c.node, nodes.Name) and c.node.name == "caller" and "caller" not in b and CALLER in b:
            body, ti, b0, params = b[CALLER]
            if params:
                b0 = {**b0, **{p: (_clone(a, b) if b else a) for p, a in zip(params, c.args)}}
            return body, ti, b0
        return None

    @staticmethod
    def wrapped(c: nodes.Node, frs: Iterator[tplq.Frag]) -> Iterator[tplq.Frag]:
        """the fragments of a macro body written out in place of `{{ m(...) | indent(8) }}`: the filters apply to the text the
        whole call produces, so each fragment remembers (outermost first) the calls it was written out for and their text filters
        (`_compose` applies them when the pieces are put together); filters that do not change the layout of the text are not kept"""
        chain: list[tuple] = []
        while isinstance(c, nodes.Filter) and c.node is not None:
            if c.name == "trim" and not c.args and not c.kwargs:
                chain.append(("trim",))
            elif c.name == "indent" and c.dyn_args is None and c.dyn_kwargs is None and \
                    all(isinstance(a, nodes.Const) for a in [*c.args, *[k.value for k in c.kwargs]]):
                opts = dict(zip(("width", "first", "blank"), [a.value for a in c.args]))
                opts.update({k.key: k.value.value for k in c.kwargs})
                chain.append(("indent", opts.get("width", 4), bool(opts.get("first", False)), bool(opts.get("blank", False))))
            c = c.node
        if not chain:
            yield from frs
            return
        group = (object(), tuple(reversed(chain)))   # innermost filter first
        for fr in frs:
            fr.wraps = (group,) + fr.wraps   # type: ignore[attr-defined]
            yield fr

    # -- the walk -----------------------------------------------------------------------------------------------------------------
    def cond(self, t: nodes.Node, b: dict[str, Any]) -> nodes.Node:
        t2 = _clone(t, b) if b else t
        if self.tests is not None:
            self.tests.append(t2)
        return t2

    def walk(self, body: list[nodes.Node], ti: Any, guards: tuple, gnodes: tuple, loops: tuple, insts: tuple, b: dict[str, Any],
             stack: tuple) -> Iterator[tplq.Frag]:
        for n in body:
            if isinstance(n, nodes.Output):
                for c in n.nodes:
                    if isinstance(c, nodes.TemplateData):
                        yield _frag("data", c.data, c.lineno, guards, gnodes, loops, c, insts=insts)
                        continue
                    cb = self.caller_body(c, b)
                    if cb is not None and len(stack) < 6:
                        yield from self.wrapped(c, self.walk(cb[0], cb[1], guards, gnodes, loops, insts, cb[2],
                                                             stack + (("caller", str(id(cb[0]))),)))
                        continue
                    mc = self.macro_of(c, ti, b)
                    if mc is not None and (mc[2].name, mc[0].name) not in stack and len(stack) < 4:
                        macro, call, t2 = mc
                        yield from self.wrapped(c, self.walk(macro.body, t2, guards, gnodes, loops, insts, self.bind_call(macro, call, b),
                                                             stack + ((t2.name, macro.name),)))
                        continue
                    c2 = _clone(c, b) if b else c
                    yield _frag("expr", expr_text(c2), c.lineno, guards, gnodes, loops, c, expr=c2, insts=insts)
            elif isinstance(n, nodes.If):
                t0 = self.cond(n.test, b)
                t = expr_text(t0)
                yield from self.walk(n.body, ti, guards + ((t, True),), gnodes + (t0,), loops, insts, b, stack)
                neg = guards + ((t, False),)
                gn = gnodes + (t0,)
                for el in n.elif_:
                    t1 = self.cond(el.test, b)
                    t2_ = expr_text(t1)
                    yield from self.walk(el.body, ti, neg + ((t2_, True),), gn + (t1,), loops, insts, b, stack)
                    neg = neg + ((t2_, False),)
                    gn = gn + (t1,)
                if n.else_:
                    yield from self.walk(n.else_, ti, neg, gn, loops, insts, b, stack)
            elif isinstance(n, nodes.For):
                yield from self.loop(n, ti, guards, gnodes, loops, insts, b, stack)
            elif isinstance(n, nodes.Assign):
                v2 = _clone(n.node, b) if b else n.node
                if isinstance(n.target, nodes.Name):
                    self._defs.setdefault(n.target.name, []).append(v2)
                if self.sets:
                    yield _frag("set", expr_text(v2), n.lineno, guards, gnodes, loops, n, expr=v2,
                                target=n.target.name if isinstance(n.target, nodes.Name) else None, insts=insts)
            elif isinstance(n, nodes.Include):
                t2 = self.jx.templates.get(n.template.value) if self.jx is not None and isinstance(n.template, nodes.Const) else None
                if t2 is not None and ("include", t2.name) not in stack and len(stack) < 4:
                    yield from self.walk(t2.tree.body, t2, guards, gnodes, loops, insts, b, stack + (("include", t2.name),))
            elif isinstance(n, nodes.CallBlock):
                # `{% call m(args) %}body{% endcall %}` is a call of m in which `caller()` stands for the body (in the terms of
                # the place where the block is written)
                mc = self.macro_of(n.call, ti, b)
                if mc is not None and (mc[2].name, mc[0].name) not in stack and len(stack) < 4:
                    macro, call, t2 = mc
                    b2 = self.bind_call(macro, call, b)
                    b2[CALLER] = (n.body, ti, b, [a.name for a in n.args if isinstance(a, nodes.Name)])
                    yield from self.walk(macro.body, t2, guards, gnodes, loops, insts, b2, stack + ((t2.name, macro.name),))
                else:
                    yield from self.walk(n.body, ti, guards, gnodes, loops, insts, b, stack)
            elif isinstance(n, nodes.AssignBlock) and self.sets and isinstance(n.target, nodes.Name) and \
                    all(isinstance(x, nodes.Output) for x in n.body):
                # `{% set x %}text {{ e }}{% endset %}` defines x as the concatenation of its pieces: nothing is emitted here
                parts = [nodes.Const(c.data, lineno=c.lineno) if isinstance(c, nodes.TemplateData) else (_clone(c, b) if b else c)
                         for x in n.body for c in x.nodes]
                v2 = nodes.Concat(parts, lineno=n.lineno)
                yield _frag("set", expr_text(v2), n.lineno, guards, gnodes, loops, n, expr=v2, target=n.target.name, insts=insts)
            elif isinstance(n, (nodes.With, nodes.Scope, nodes.FilterBlock, nodes.AssignBlock)):
                yield from self.walk(getattr(n, "body", []), ti, guards, gnodes, loops, insts, b, stack)
            elif isinstance(n, nodes.Macro):
                continue

    def loop(self, n: nodes.For, ti: Any, guards: tuple, gnodes: tuple, loops: tuple, insts: tuple, b: dict[str, Any],
             stack: tuple) -> Iterator[tplq.Frag]:
        it_node = _clone(n.iter, b) if b else n.iter
        targets = [n.target.name] if isinstance(n.target, nodes.Name) else [t.name for t in n.target.find_all(nodes.Name)]
        # a `set` variable that holds a written-out table (its only definition in the template) is that table
        if isinstance(it_node, nodes.Name) and len(self._defs.get(it_node.name, ())) == 1 and \
                isinstance(self._defs[it_node.name][0], (nodes.Tuple, nodes.List)) and \
                sum(1 for a in ti.tree.find_all((nodes.Assign, nodes.AssignBlock)) if isinstance(a.target, nodes.Name) and a.target.name == it_node.name) == 1:
            it_node = self._defs[it_node.name][0]
        # a literal sequence: one round per element, in order
        if isinstance(it_node, (nodes.Tuple, nodes.List)) and len(it_node.items) <= UNROLL:
            rounds: "list[dict[str, Any]] | None" = []
            for item in it_node.items:
                if isinstance(n.target, nodes.Name):
                    rounds.append({**b, n.target.name: item})
                elif isinstance(item, (nodes.Tuple, nodes.List)) and len(item.items) == len(targets):
                    rounds.append({**b, **dict(zip(targets, item.items))})
                else:
                    rounds = None
                    break
            if rounds is not None:
                for b2 in rounds:
                    g2, gn2 = guards, gnodes
                    if n.test is not None:
                        t0 = self.cond(n.test, b2)
                        g2, gn2 = guards + ((expr_text(t0), True),), gnodes + (t0,)
                    yield from self.walk(n.body, ti, g2, gn2, loops, insts, b2, stack)
                if not rounds and n.else_:
                    yield from self.walk(n.else_, ti, guards, gnodes, loops, insts, b, stack)
                return
        base, picks = _peel_selection(it_node)
        it = expr_text(base)
        b2 = {k: v for k, v in b.items() if k not in targets}
        g2, gn2 = guards, gnodes
        if b or picks:
            # the loop variable in the caller's terms
            var = f"{it}[*]" + "'" * loops.count(it)
            if isinstance(n.target, nodes.Name):
                b2[n.target.name] = nodes.Name(var, "load")
            else:
                for i, t in enumerate(targets):
                    b2[t] = nodes.Name(f"{var}.{i}", "load")
            for attr, test, args, negate in picks:
                g: nodes.Node = nodes.Name(var, "load")
                for part in attr.split("."):
                    g = nodes.Getattr(g, part, "load")
                if test is not None:
                    g = nodes.Test(g, test, list(args), [], None, None)
                if self.tests is not None:
                    self.tests.append(g)
                g2, gn2 = g2 + ((expr_text(g), not negate),), gn2 + (g,)
        if n.test is not None:
            t0 = self.cond(n.test, b2)
            g2, gn2 = g2 + ((expr_text(t0), True),), gn2 + (t0,)
        yield from self.walk(n.body, ti, g2, gn2, loops + (it,), insts + (object(),), b2, stack)
        if n.else_:
            yield from self.walk(n.else_, ti, guards, gnodes, loops, insts, b, stack)


def _peel_selection(it: nodes.Node) -> "tuple[nodes.Node, list[tuple[str, str | None, list, bool]]]":
    """`xs | selectattr("a") | rejectattr("b", "none")` iterates over the elements of xs (in their order) for which `x.a` holds and
    `x.b is none` does not: (xs, [(attribute, test or None, test arguments, negated)])"""
    picks: list[tuple[str, "str | None", list, bool]] = []
    n = it
    while isinstance(n, nodes.Filter) and n.node is not None and not n.kwargs and n.dyn_args is None and n.dyn_kwargs is None:
        if n.name in ("selectattr", "rejectattr") and n.args and all(isinstance(a, nodes.Const) for a in n.args[:2]) \
                and all(isinstance(a.value, str) for a in n.args[:2]):
            picks.append((n.args[0].value, n.args[1].value if len(n.args) > 1 else None, n.args[2:], n.name == "rejectattr"))
            n = n.node
        elif n.name == "list" and not n.args and isinstance(n.node, nodes.Filter):
            n = n.node
        else:
            break
    if not picks:
        return it, []
    return n, picks[::-1]


DEST, SOURCE, UNKNOWN = "DEST_", "SOURCE_", "HOLE_"   # placeholders in the generated code: destination local, popped source, anything else


def _filtered(text: str, flt: tuple) -> str:
    """jinja's `trim` / `indent(width, first, blank)` applied to a text"""
    if flt[0] == "trim":
        return text.strip()
    _, width, first, blank = flt
    pad = width if isinstance(width, str) else " " * int(width)
    lines = (text + "\n").splitlines()
    if blank:
        out = ("\n" + pad).join(lines)
    else:
        out = lines.pop(0) if lines else ""
        if lines:
            out += "\n" + "\n".join(pad + l if l else l for l in lines)
    return pad + out if first else out


def _compose(pieces: "list[tuple[tplq.Frag, str]]") -> str:
    """the text that the pieces (fragment, its text) make up in this order: where a macro call was written out in place under text
    filters (`{{ m(...) | indent(8) }}`, _Walk.wrapped), the filters are applied to what the pieces of that call make up together -
    the same text whether the lines stand where they are used or in a macro that is called there"""
    def level(items: list, d: int) -> str:
        out = ""
        i = 0
        while i < len(items):
            ws = getattr(items[i][0], "wraps", ())
            if len(ws) <= d:
                out += items[i][1]
                i += 1
                continue
            j = i
            while j < len(items) and len(getattr(items[j][0], "wraps", ())) > d and items[j][0].wraps[d][0] is ws[d][0]:
                j += 1
            sub = level(items[i:j], d + 1)
            for flt in ws[d][1]:
                sub = _filtered(sub, flt)
            out += sub
            i = j
        return out

    return level(list(pieces), 0)


def _gen_text(fr: tplq.Frag, at: int, env: dict[str, bool], tev: "_TplEval", role: Any) -> str:
    """the generated code a fragment contributes under env: template text as it stands; an output expression as the placeholder of
    its role, else the text it is put together from (string constants, `~` / `+`, the selected arm of a conditional expression, a
    `set` variable as its definition), UNKNOWN for the rest"""
    if fr.kind == "data":
        return fr.text

    def rec(e: Any, at_: int, depth: int) -> str:
        r = role(e, expr_text(e), at_, tev)
        if r is not None:
            return r
        if isinstance(e, nodes.Const):
            return e.value if isinstance(e.value, str) else repr(e.value)
        if isinstance(e, nodes.TemplateData):
            return e.data
        if isinstance(e, nodes.CondExpr):
            if not all(a in env for a in _atoms(e.test)):
                return UNKNOWN
            arm = e.expr1 if _eval(e.test, env) else e.expr2
            return rec(arm, at_, depth) if arm is not None else ""
        if isinstance(e, nodes.Concat):
            return "".join(rec(x, at_, depth) for x in e.nodes)
        if isinstance(e, nodes.Add):
            return rec(e.left, at_, depth) + rec(e.right, at_, depth)
        if isinstance(e, nodes.Filter) and e.node is not None and e.name in ("indent", "trim", "safe", "string"):
            return rec(e.node, at_, depth)
        if isinstance(e, nodes.Name) and depth < _TplEval.DEPTH:
            live = [(i, d) for i, d in tev._reaching(e.name, at_) if all(a in env for a in _guard_atoms(d)) and _guard_holds(d, env)]
            if live:
                return rec(live[-1][1].expr, live[-1][0], depth + 1)   # type: ignore[attr-defined]
        return UNKNOWN

    return rec(fr.expr, at, 0)   # type: ignore[attr-defined]


def generated_variants(m: Any, ti: Any, jx: Any, role: Any, fixed: "dict[str, bool] | None" = None,
                       limit: int = 12) -> "list[tuple[dict[str, bool], str]] | None":
    """the code a macro generates, once per valuation of the template conditions it depends on (guards around its pieces, tests of
    conditional expressions, guards of the `set` definitions it reads): [(valuation, text)].  Macro calls and call blocks are
    followed, `set` variables read as their definitions, `role(expression, its text, position, definitions)` names the
    placeholders of the expressions the caller knows, everything else that is not text reads UNKNOWN.  None: more than `limit`
    conditions."""
    frs = list(enumerate(_frags(m.body, ti, jx, sets=True)))
    tev = _TplEval([fr for _, fr in frs])
    names: list[str] = []
    for i, fr in frs:
        for a in _guard_atoms(fr) + (tev.atoms(fr.expr, i) if fr.kind == "expr" else []):
            if a not in names:
                names.append(a)
    fixed = dict(fixed or {})
    free = [a for a in names if a not in fixed]
    if len(free) > limit:
        return None
    out = []
    for env0 in tplq.assignments(free):
        env = {**env0, **fixed}
        out.append((env, _compose([(fr, _gen_text(fr, i, env, tev, role)) for i, fr in frs if fr.kind != "set" and _guard_holds(fr, env)])))
    return out


class _GenRun:
    """Abstract run of a piece of generated Python on the path on which SOURCE is the UNSET sentinel.  A value is "SRC" (the source /
    UNSET itself), "FRESH:<text>" (made here: literal, constant, result of a call) or "UNK".  Tests that ask whether a value is
    the sentinel are decided, everything else goes both ways; loops run zero times or once; a function defined in the piece is
    entered when it is called."""

    LIMIT = 64

    def __init__(self, unset_falsy: bool, present: bool = False):
        self.unset_falsy = unset_falsy
        # present=True: the run on the other path - SOURCE is a value that was there (anything but the sentinel: possibly null,
        # empty, zero), "SRC" stands for it and the sentinel read from `UNSET` is a value of its own, "SENT"
        self.present = present
        self.funcs: dict[str, ast.FunctionDef] = {}

    def result(self, tree: ast.Module, var: str) -> set[str]:
        out: set[str] = set()
        for env in self.block(tree.body, [{}], [], 0):
            out |= env.get(var, set())
        return out

    # -- statements
    def block(self, stmts: list[ast.stmt], states: list[dict], rets: list[set], depth: int) -> list[dict]:
        for st in stmts:
            nxt: list[dict] = []
            for env in states:
                nxt += self.stmt(st, env, rets, depth)
            states = nxt[: self.LIMIT]
        return states

    def stmt(self, st: ast.stmt, env: dict, rets: list[set], depth: int) -> list[dict]:
        if isinstance(st, (ast.FunctionDef, ast.AsyncFunctionDef)):
            self.funcs[st.name] = st   # type: ignore[assignment]
            return [env]
        if isinstance(st, (ast.Assign, ast.AnnAssign)):
            if st.value is None:
                return [env]
            v = self.value(st.value, env, depth)
            env2 = dict(env)
            for t in (st.targets if isinstance(st, ast.Assign) else [st.target]):
                if isinstance(t, ast.Name):
                    env2[t.id] = v
                elif isinstance(t, (ast.Tuple, ast.List)):
                    for x in t.elts:
                        if isinstance(x, ast.Name):
                            env2[x.id] = {"UNK"}
            return [env2]
        if isinstance(st, ast.If):
            t_ = self.test(st.test, env, depth)
            out: list[dict] = []
            if t_ is not False:
                out += self.block(st.body, [env], rets, depth)
            if t_ is not True:
                out += self.block(st.orelse, [env], rets, depth)
            return out
        if isinstance(st, (ast.For, ast.AsyncFor, ast.While)):
            if isinstance(st, ast.While) and self.test(st.test, env, depth) is False:
                return [env]
            env2 = dict(env)
            if not isinstance(st, ast.While):
                for x in ast.walk(st.target):
                    if isinstance(x, ast.Name):
                        env2[x.id] = {"UNK"}
            return [env] + self.block(st.body, [env2], rets, depth)
        if isinstance(st, ast.Try):
            out = self.block(st.body, [env], rets, depth)
            if st.orelse:
                out = self.block(st.orelse, out, rets, depth)
            for h in st.handlers:
                out += self.block(h.body, [env], rets, depth)
            return self.block(st.finalbody, out, rets, depth) if st.finalbody else out
        if isinstance(st, (ast.With, ast.AsyncWith)):
            return self.block(st.body, [env], rets, depth)
        if isinstance(st, ast.Match):
            out = [env]
            for c in st.cases:
                out += self.block(c.body, [env], rets, depth)
            return out
        if isinstance(st, ast.Return):
            rets.append(self.value(st.value, env, depth) if st.value is not None else {"FRESH:None"})
            return []
        if isinstance(st, ast.Raise):
            return []
        return [env]

    # -- values
    def value(self, e: ast.expr, env: dict, depth: int) -> set[str]:
        if isinstance(e, ast.Name):
            if e.id in (SOURCE, "UNSET"):
                return {"SENT"} if self.present and e.id == "UNSET" else {"SRC"}
            if e.id == UNKNOWN:
                # a template expression in value position that is not the source (a default, a constant of the document, ...)
                return {"FRESH:<template expression>"}
            return set(env.get(e.id, {"UNK"}))
        if isinstance(e, ast.NamedExpr):
            return self.value(e.value, env, depth)
        if isinstance(e, ast.Call):
            fn = norm(e.func)
            if fn in ("cast", "typing.cast") and len(e.args) == 2:
                return self.value(e.args[1], env, depth)
            if isinstance(e.func, ast.Name) and e.func.id in self.funcs and depth < 3:
                f = self.funcs[e.func.id]
                env2 = dict(env)
                ps = [a.arg for a in [*f.args.posonlyargs, *f.args.args]]
                for p_, a in zip(ps, e.args):
                    env2[p_] = self.value(a, env, depth)
                for kw in e.keywords:
                    if kw.arg:
                        env2[kw.arg] = self.value(kw.value, env, depth)
                rets: list[set] = []
                ends = self.block(f.body, [env2], rets, depth + 1)
                out = set().union(*rets) if rets else set()
                return out | ({"FRESH:None"} if ends else set()) or {"UNK"}
            if UNKNOWN in fn:
                return {"UNK"}
            return {"FRESH:" + norm(e)[:40]}
        if isinstance(e, ast.Constant):
            return {"FRESH:" + repr(e.value)[:40]}
        if isinstance(e, (ast.List, ast.Tuple, ast.Dict, ast.Set, ast.ListComp, ast.DictComp, ast.SetComp, ast.GeneratorExp, ast.JoinedStr)):
            return {"FRESH:" + norm(e)[:40]}
        if isinstance(e, ast.IfExp):
            t_ = self.test(e.test, env, depth)
            out: set[str] = set()
            if t_ is not False:
                out |= self.value(e.body, env, depth)
            if t_ is not True:
                out |= self.value(e.orelse, env, depth)
            return out
        if isinstance(e, ast.BoolOp):
            vals = [self.value(v, env, depth) for v in e.values]
            if self.present:
                # whether the value that was there is truthy is not known; the sentinel is falsy
                falsy = {"SENT"} if self.unset_falsy else set()
                if isinstance(e.op, ast.Or):
                    return set(vals[-1]).union(*[v - falsy for v in vals[:-1]])
                if vals[0] and vals[0] <= falsy:
                    return set(vals[0])
                return set().union(*vals)
            if isinstance(e.op, ast.Or):
                # `a or b` is b when a is falsy - the sentinel is
                out = set(vals[-1])
                for v in vals[:-1]:
                    out |= (v - {"SRC"}) if self.unset_falsy else v
                return out
            if self.unset_falsy and vals[0] == {"SRC"}:
                return {"SRC"}
            return set().union(*vals)
        return {"UNK"}

    def test(self, e: ast.expr, env: dict, depth: int) -> "bool | None":
        def is_sentinel(x: ast.expr) -> "bool | None":
            vs = self.value(x, env, depth)
            if self.present:
                return True if vs == {"SENT"} else False if vs and all(v == "SRC" or v.startswith("FRESH:") for v in vs) else None
            return True if vs == {"SRC"} else False if vs and all(v.startswith("FRESH:") for v in vs) else None

        absent = {"SENT"} if self.present else {"SRC"}   # what the sentinel reads as in this run

        if isinstance(e, ast.UnaryOp) and isinstance(e.op, ast.Not):
            t_ = self.test(e.operand, env, depth)
            return None if t_ is None else not t_
        if isinstance(e, ast.BoolOp):
            ts = [self.test(v, env, depth) for v in e.values]
            if isinstance(e.op, ast.And):
                return False if any(t_ is False for t_ in ts) else None if any(t_ is None for t_ in ts) else True
            return True if any(t_ is True for t_ in ts) else None if any(t_ is None for t_ in ts) else False
        if isinstance(e, ast.Call) and norm(e.func) == "isinstance" and len(e.args) == 2:
            kinds = [norm(x) for x in (e.args[1].elts if isinstance(e.args[1], ast.Tuple) else [e.args[1]])]
            if kinds == ["Unset"]:
                return is_sentinel(e.args[0])
            if "Unset" not in kinds and self.value(e.args[0], env, depth) == absent:
                return False
            return None
        if isinstance(e, ast.Compare) and len(e.ops) == 1 and isinstance(e.ops[0], (ast.Is, ast.IsNot)):
            l, r = e.left, e.comparators[0]
            pos = isinstance(e.ops[0], ast.Is)
            for a, b in ((l, r), (r, l)):
                if norm(b) == "UNSET":
                    t_ = is_sentinel(a)
                    return None if t_ is None else (t_ == pos)
                if norm(b) == "None" and self.value(a, env, depth) == absent:
                    return not pos
            return None
        if isinstance(e, (ast.Name, ast.NamedExpr)) and self.unset_falsy and self.value(e, env, depth) == absent:
            return False
        return None


class _Forwarding:
    """Where a function hands on the requiredness of the declaration it was given.  A *source* is the parameter `required` or
    `<parameter>.required` (not self / cls), or a local that is only ever bound to a source.  It is handed on by a call that
    receives it as keyword `required=`, as the positional argument of a parameter called `required`, by a `dict(required=...)` /
    `{"required": ...}` (keyword dictionaries), or - for `<parameter>.required` - by passing the parameter itself to a function
    that forwards its `.required`."""

    def __init__(self, ix: Any):
        self.ix = ix
        self.by_name: dict[str, list[Any]] = {}
        for g in ix.all_functions:
            self.by_name.setdefault(g.name, []).append(g)
        self._params: dict[str, list[str]] = {}
        self._locals: dict[str, Locals] = {}
        self._src: dict[str, set[str]] = {}
        self._decl_types: "set[str] | None" = None
        # parameters whose `.required` a function forwards, directly; then through one and two levels of delegation
        self.decl_params: dict[str, set[str]] = {g.qual: set() for g in ix.all_functions}
        for _ in range(3):
            for g in ix.all_functions:
                self._src.pop(g.qual, None)
                for n in ast.walk(g.node):
                    if isinstance(n, ast.Call):
                        self.decl_params[g.qual] |= {s_.split(".")[0] for s_ in self._forwarded(g, n) if s_.endswith(".required")}

    def params(self, f: Any) -> list[str]:
        if f.qual not in self._params:
            self._params[f.qual] = [a.arg for a in f.params]
        return self._params[f.qual]

    def source(self, f: Any, e: ast.AST, depth: int = 0) -> "str | None":
        ps = self.params(f)
        if isinstance(e, ast.Name) and e.id == "required" and "required" in ps:
            return "required"
        if isinstance(e, ast.Attribute) and e.attr == "required" and isinstance(e.value, ast.Name) and e.value.id in ps \
                and e.value.id not in ("self", "cls"):
            return f"{e.value.id}.required"
        if isinstance(e, ast.Name) and e.id not in ps and depth < 2:
            if f.qual not in self._locals:
                self._locals[f.qual] = Locals(f.node)
            ds = self._locals[f.qual].defs.get(e.id, [])
            got = {self.source(f, v, depth + 1) if k == "assign" and v is not None else None for k, _, v in ds}
            if len(got) == 1 and None not in got:
                return next(iter(got))
        return None

    def _callee_params(self, c: ast.Call) -> list[tuple[Any, list[str]]]:
        """parameter lists (without self / cls) of the functions of the package the call may mean, by its last name; for a class,
        its fields"""
        last = call_name(c).rsplit(".", 1)[-1]
        out = []
        for g in self.by_name.get(last, []):
            ps = self.params(g)
            out.append((g, ps[1:] if ps[:1] in (["self"], ["cls"]) else ps))
        for k in self.ix.classes.values():
            if k.name == last:
                out.append((None, list(self.ix.all_fields(k))))
        return out

    def _forwarded(self, f: Any, c: ast.Call) -> set[str]:
        """the sources that call c receives"""
        out: set[str] = set()
        for kw in c.keywords:
            if kw.arg == "required":
                s_ = self.source(f, kw.value)
                if s_:
                    out.add(s_)
        callees = self._callee_params(c)
        for i, a in enumerate(c.args):
            s_ = self.source(f, a)
            if s_ and any(i < len(ps) and ps[i] == "required" for _, ps in callees):
                out.add(s_)
        # the declaration itself, handed to a function that forwards its `.required`
        ps_f = self.params(f)
        for g, ps in callees:
            if g is None:
                continue
            passed = [(ps[i], a) for i, a in enumerate(c.args) if i < len(ps)] + [(kw.arg, kw.value) for kw in c.keywords if kw.arg]
            for pn, a in passed:
                if pn in self.decl_params.get(g.qual, ()) and isinstance(a, ast.Name) and a.id in ps_f and a.id not in ("self", "cls"):
                    out.add(f"{a.id}.required")
        return out

    def _declaration_types(self) -> set[str]:
        """names under which a value that has a requiredness can be annotated: the classes of the package with a field `required`,
        their subclasses and bases, the module-level aliases made of them, and the types that admit anything"""
        if self._decl_types is None:
            ix = self.ix
            names = {"Any", "object"}
            for k in ix.classes.values():
                if "required" in ix.all_fields(k):
                    names |= {b.name for b in ix.mro(k)}
            for _ in range(2):
                for m in ix.modules.values():
                    for nm, v in m.variables.items():
                        if v is not None and self._ann_names(v) & names:
                            names.add(nm)
            self._decl_types = names
        return self._decl_types

    @staticmethod
    def _ann_names(a: "ast.AST | None") -> set[str]:
        out: set[str] = set()
        for n in ast.walk(a) if a is not None else ():
            if isinstance(n, ast.Name):
                out.add(n.id)
            elif isinstance(n, ast.Attribute):
                out.add(n.attr)
            elif isinstance(n, ast.Constant) and isinstance(n.value, str):
                out |= set(re.findall(r"[A-Za-z_]\w*", n.value))
        return out

    def holds_no_declaration(self, f: Any, v: "ast.AST | None") -> bool:
        """v builds a record that by its declared types cannot carry a requiredness: an instance of a class of the package that has
        no `required` itself, every field of which is annotated, none with a type that has one (or with Any / object).  Such a
        result - the findings of an analysis phase, say - is no declaration; what is made of it is the receiver's business"""
        if not isinstance(v, ast.Call):
            return False
        r = self.ix.resolve(f.module, call_name(v))
        if not r or r[0] != "class":
            return False
        k = r[1]
        fields = self.ix.all_fields(k)
        decl = self._declaration_types()
        if not fields or k.name in decl or len(v.args) + len(v.keywords) > len(fields) or any(kw.arg is None for kw in v.keywords) \
                or any(isinstance(a, ast.Starred) for a in v.args):
            return False
        return all(a is not None and not (self._ann_names(a) & decl) for a in fields.values())

    def in_expr(self, f: Any, e: ast.AST) -> set[str]:
        out: set[str] = set()
        for n in ast.walk(e):
            if isinstance(n, ast.Call):
                out |= self._forwarded(f, n)
            elif isinstance(n, ast.Dict):
                for k, v in zip(n.keys, n.values):
                    if isinstance(k, ast.Constant) and k.value == "required" and self.source(f, v):
                        out.add(self.source(f, v))
        return out

    def in_stmt(self, f: Any, st: ast.stmt) -> bool:
        return any(self.in_expr(f, e) for e in own_exprs(st))

    def sources(self, f: Any) -> set[str]:
        """the sources f hands on somewhere (empty: f is not a forwarder)"""
        if f.qual not in self._src:
            self._src[f.qual] = {s_ for st in ast.walk(f.node) if isinstance(st, ast.stmt) for e in own_exprs(st) for s_ in self.in_expr(f, e)}
        return self._src[f.qual]


class _Mentions:
    """Which string constants does a small method *evaluate* on the paths that are consistent with known boolean atoms?  The
    paths come from PathSim (indifferent to branch order, inverted guards, early return vs nested if, conditions held in
    locals); within an expression only the parts that are evaluated count (the arm of a conditional expression selected by the
    known condition, the operands of and / or up to the deciding one).  Calls of self.<method>(...) are followed with the
    arguments that are known."""

    def __init__(self, ix: Any):
        self.ix = ix

    def outcomes(self, f: Any, cls: Any, env: dict[str, bool], needle: str, depth: int = 0) -> set[bool]:
        """{True / False}: over the paths consistent with env, is a string constant containing `needle` evaluated?"""

        def leaf(e: ast.expr, st: dict, sim: PathSim) -> "bool | None":
            return env.get(norm(e))

        def none_of(e: ast.expr, st: dict, sim: PathSim) -> "bool | None":
            v = env.get(norm(e) + " is None")
            if v is None and isinstance(e, ast.Attribute):
                v = self._field_is_none(e.attr)
            return v

        sim = PathSim(f.node, leaf, none_of)
        res: set[bool] = set()
        for p in sim.paths():
            if isinstance(p.end, ast.Raise):
                continue
            acc = {False}
            for ev in p.events:
                parts = [ev.node] if ev.kind == "test" else [x for x in ast.iter_child_nodes(ev.node) if isinstance(x, ast.expr)]
                for part in parts:
                    got = self._expr(part, ev.state, sim, f, cls, env, needle, depth)
                    acc = {a or b for a in acc for b in got}
            res |= acc
        return res

    def _field_is_none(self, attr: str) -> "bool | None":
        """False when every class of the repository that declares a field of this name annotates it with a type that does not
        admit None"""
        anns = [c.fields[attr] for c in self.ix.classes.values() if attr in c.fields]
        if anns and all(a is not None and "None" not in norm(a) and "Optional" not in norm(a) and "Any" not in norm(a) for a in anns):
            return False
        return None

    def _expr(self, e: ast.AST, st: dict, sim: PathSim, f: Any, cls: Any, env: dict[str, bool], needle: str, depth: int) -> set[bool]:
        def rec(x: ast.AST) -> set[bool]:
            return self._expr(x, st, sim, f, cls, env, needle, depth)

        def both(a: set[bool], b: set[bool]) -> set[bool]:
            return {x or y for x in a for y in b}

        if isinstance(e, ast.Constant):
            return {isinstance(e.value, str) and needle in e.value}
        if isinstance(e, ast.IfExp):
            t = sim.truth(e.test, st)
            arms = rec(e.body) if t is True else rec(e.orelse) if t is False else rec(e.body) | rec(e.orelse)
            return both(rec(e.test), arms)
        if isinstance(e, ast.BoolOp):
            acc = rec(e.values[0])
            stop: set[bool] = set()
            for prev, v in zip(e.values, e.values[1:]):
                t = sim.truth(prev, st)
                decided = (t is False) if isinstance(e.op, ast.And) else (t is True)
                if decided:
                    break
                if t is None:
                    stop |= acc
                acc = both(acc, rec(v))
            return acc | stop
        out = {False}
        for ch in ast.iter_child_nodes(e):
            if isinstance(ch, (ast.expr_context, ast.operator, ast.unaryop, ast.cmpop, ast.boolop)):
                continue
            out = both(out, rec(ch))
        if isinstance(e, ast.Call) and isinstance(e.func, ast.Attribute) and isinstance(e.func.value, ast.Name) and e.func.value.id == "self" \
                and depth < 3:
            m = self.ix.find_method(cls, e.func.attr)
            if m is not None and m is not f:
                out = both(out, self.outcomes(m, cls, self._callee_env(m, e, st, sim, env), needle, depth + 1) or {False})
        return out

    @staticmethod
    def _callee_env(m: Any, c: ast.Call, st: dict, sim: PathSim, env: dict[str, bool]) -> dict[str, bool]:
        e2 = {k: v for k, v in env.items() if k.startswith("self.")}
        a = m.node.args
        allpos = [*a.posonlyargs, *a.args]
        pos = [p.arg for p in allpos if p.arg != "self"]
        bound: dict[str, ast.expr] = {}
        for p, d in zip(allpos[len(allpos) - len(a.defaults):], a.defaults):
            bound[p.arg] = d
        for p, d in zip(a.kwonlyargs, a.kw_defaults):
            if d is not None:
                bound[p.arg] = d
        for i, arg in enumerate(c.args):
            if i < len(pos):
                bound[pos[i]] = arg
        for kw in c.keywords:
            if kw.arg:
                bound[kw.arg] = kw.value
        for pn, v in bound.items():
            if isinstance(v, ast.Constant) and not isinstance(v.value, bool):
                continue
            t = sim.truth(v, st)
            if t is not None:
                e2[pn] = t
        return e2
