"""C10 - absent, null and present stay three distinct states."""
from __future__ import annotations

import ast
import re
from typing import Any, Iterator

from jinja2 import nodes

from .. import tplq
from ..astutil import Locals, constructs_error, norm, short, where
from ..cfg import walk_own
from ..core import PKG, Report
from ..jinja_interp import expr_text
from .siblings import Path as SimPath
from .siblings import PathSim

LEVEL = ("sibling / guard rules: (1) every get_type_string implementation evaluates an Unset-mentioning constant exactly when `not "
         "no_optional and not required` (path simulation over the boolean atoms, all overrides); to_string emits a default iff the "
         "truth table says so; (2) every transform/construct macro of every property template handles Unset exactly on the "
         "non-required arm, and a guard may be skipped only under `property.required` (truth tables over the Jinja guard atoms, macro "
         "calls within a template followed); (3) model I/O: unconditional key writes imply `required`, optional pops carry the UNSET "
         "default (loop filters count as guards); (4) null: union parser, handle_nullable adds null on every path of every schema "
         "shape, enum builder facts; (5) query filter tests identity with UNSET/None, optional path parameters rejected on every "
         "path; (6) mandatory attributes are declared before defaulted ones; (7) required/default are never changed in place.")

TEMPLATE_DIR = "property_templates/"


def run(rep: Report, ctx: Any) -> str:
    ix = ctx.py
    jx = ctx.jinja
    rep.rule("R10.1", "type strings mention Unset iff (not no_optional and not required), in every override; to_string emits "
                      "`= UNSET` iff not required and no default, and nothing iff required without default")
    rep.rule("R10.2", "every transform/transform_multipart/transform_multipart_body/construct_template macro: the arm emitted "
                      "for required properties never mentions Unset/UNSET; the arm for optional properties assigns UNSET only "
                      "under an isinstance(..., Unset) test; an Unset guard is skipped only when `property.required`")
    rep.rule("R10.3", "to_dict writes a key unconditionally only if the property is required, otherwise under `is not UNSET`; "
                      "from_dict pops optional keys with the UNSET default and required keys without default")
    rep.rule("R10.6", "the model class declares every mandatory attribute (required, no default) before every attribute that carries a "
                      "default: each declaration pass is guarded so that it emits one kind only, and no defaulted pass precedes a "
                      "mandatory one")
    rep.rule("R10.7", "`required` and `default` of a property are never changed in place (attribute store, setattr, object.__setattr__): "
                      "property objects are shared between models and endpoints, a changed value needs a copy")
    rep.rule("R10.4", "the union parser returns None before trying any member exactly when None is among its JSON types; "
                      "handle_nullable covers type scalar / type list / oneOf / anyOf / allOf")
    rep.rule("R10.5", "query parameters are dropped only by identity with UNSET or None; optional cookies/headers are guarded")

    # ---- R10.1 ----------------------------------------------------------------------------------------------------
    pe = _Mentions(ix)
    proto = ix.cls("PropertyProtocol")
    n_impl = 0
    for c in [proto] + ix.property_classes():
        m = c.methods.get("get_type_string")
        if m is None:
            continue
        n_impl += 1
        for no_opt in (False, True):
            for req in (False, True):
                res = pe.outcomes(m, c, {"no_optional": no_opt, "self.required": req}, "Unset")
                want = (not no_opt) and (not req)
                rep.check(res == {want}, "R10.1", f"{short(m)}[no_optional={no_opt},required={req}]",
                          f"type string {'must' if want else 'must not'} mention Unset here; paths give {sorted(res)}",
                          where(m, m.node), lhs=sorted(res), rhs=[want])
    rep.floor("get_type_string_implementations", n_impl, 2)
    ts = proto.methods.get("to_string")
    rep.require(ts, "PropertyProtocol.to_string")
    for has_default in (False, True):
        for req in (False, True):
            env = {"self.default is None": not has_default, "self.required": req}
            unset = pe.outcomes(ts, proto, env, "UNSET")
            eq = pe.outcomes(ts, proto, {**env}, " = ")
            want_unset = (not has_default) and (not req)
            want_eq = has_default or not req
            rep.check(unset == {want_unset} and eq == {want_eq}, "R10.1", f"{short(ts)}[default={has_default},required={req}]",
                      "declaration default is wrong for this combination", where(ts, ts.node), lhs=[sorted(unset), sorted(eq)],
                      rhs=[want_unset, want_eq])
    overrides = [c.name for c in ix.property_classes() if "to_string" in c.methods]
    rep.check(not overrides, "R10.1", "to_string::overrides", f"to_string overridden in {overrides} (not covered)", "")

    # ---- R10.2 -------------------------------------------------------------------------------------------------------
    n_macros = 0
    macro_names = ("transform", "transform_multipart", "transform_multipart_body", "construct_template", "guarded_statement")
    for tn, ti in sorted(jx.templates.items()):
        if not tn.startswith(TEMPLATE_DIR):
            continue
        for mn in macro_names:
            m = ti.macros.get(mn)
            if m is None:
                continue
            n_macros += 1
            tests: list[nodes.Node] = []
            frs = list(_frags(m.body, ti, tests=tests))
            key = f"{tn}::{mn}"
            req_atom = "property.required"
            texts_req: list[str] = []
            texts_opt: list[str] = []
            unguarded_unset = []
            for fr in frs:
                if fr.kind != "data":
                    continue
                names = tplq.guard_atoms(fr)
                if req_atom in names:
                    on_req = any(tplq.guard_holds(fr, e) for e in tplq.assignments(names) if e[req_atom])
                    on_opt = any(tplq.guard_holds(fr, e) for e in tplq.assignments(names) if not e[req_atom])
                else:
                    on_req = on_opt = True
                if on_req:
                    texts_req.append(fr.text)
                if on_opt:
                    texts_opt.append(fr.text)
                if on_req and re.search(r"\bUNSET\b|\bUnset\b", fr.text):
                    unguarded_unset.append((fr.line, fr.text.strip()[:60]))
            rep.check(not unguarded_unset, "R10.2", key + "::required-arm",
                      f"text emitted for required properties mentions Unset/UNSET: {unguarded_unset[:2]}",
                      where=f"{PKG}/templates/{tn}:{m.lineno}", lhs=unguarded_unset[:2], rhs="no Unset handling when required")
            opt = "".join(texts_opt)
            has_guard = bool(re.search(r"isinstance\([^)]*,\s*Unset\)", opt)) or "isinstance(" in opt and "Unset" in opt
            if mn == "guarded_statement":
                rep.check(has_guard, "R10.2", key + "::optional-arm", "optional arm has no isinstance(..., Unset) guard",
                          where=f"{PKG}/templates/{tn}:{m.lineno}", lhs=opt.strip()[:80], rhs="isinstance(source, Unset)")
            else:
                assigns_unset = "UNSET" in opt or "isinstance" in opt
                rep.check(has_guard and assigns_unset, "R10.2", key + "::optional-arm",
                          "the arm emitted for optional properties does not test isinstance(..., Unset) (a truthiness or equality "
                          "test would confuse falsy values with absence)", where=f"{PKG}/templates/{tn}:{m.lineno}",
                          lhs=opt.strip()[:100], rhs="isinstance(<source>, Unset) guard")
            # a guard is skipped only under property.required: every If that decides between the two arms tests exactly that atom
            for test in tests:
                at = tplq.atoms(test)
                if req_atom in at and len(at) > 1:
                    # the required arm must imply property.required
                    for env in tplq.assignments(at):
                        val = tplq.evaluate(test, env)
                        # polarity: which arm is "no guard"? the arm taken when property.required is True and all other atoms False
                        base = tplq.evaluate(test, {a: (a == req_atom) for a in at})
                        if val == base and not env[req_atom]:
                            rep.fail("R10.2", key + f"::guard-skipped({expr_text(test)[:50]})",
                                     f"the Unset guard is skipped under `{expr_text(test)}` although the property is not required "
                                     f"(e.g. {env})", where=f"{PKG}/templates/{tn}:{test.lineno}", lhs=expr_text(test),
                                     rhs="skipped only when property.required")
                            break
    rep.floor("unset_handling_macros", n_macros, 13)

    # ---- R10.3 -------------------------------------------------------------------------------------------------------
    mt = jx.templates.get("model.py.jinja")
    rep.require(mt, "model.py.jinja")
    td = mt.macros.get("_to_dict")
    rep.require(td, "_to_dict macro")
    n_w = 0
    for fr in _frags(td.body, mt):
        if fr.kind != "expr":
            continue
        # "<name>": <python_name>   inside field_dict.update({...})  and  field_dict["<name>"] = <python_name>
        # (the property loop variable is canonical: `ITER[*]`)
        if fr.loops and fr.text == f"{fr.loops[-1]}[*].name":
            pv = f"{fr.loops[-1]}[*]"
            n_w += 1
            names = tplq.guard_atoms(fr)
            # is this write under a python-level `if ... is not UNSET:` ?  look at the preceding data fragment
            prev = _prev_data(td.body, fr.node)
            py_guarded = prev is not None and _tests_unset(prev)
            if not py_guarded:
                ok = tplq.implies(fr, f"{pv}.required", True)
                rep.check(ok, "R10.3", f"model.py.jinja::_to_dict::unconditional-write#{n_w}",
                          "a key is written without an `is not UNSET` test under a condition that does not imply property.required",
                          where=f"{PKG}/templates/model.py.jinja:{fr.line}", lhs=[g for g, _ in fr.guards], rhs="implies property.required")
            else:
                ok = tplq.implies(fr, f"{pv}.required", False)
                rep.check(ok, "R10.3", f"model.py.jinja::_to_dict::guarded-write#{n_w}",
                          "the UNSET-guarded write is not restricted to non-required properties (a required key could be omitted)",
                          where=f"{PKG}/templates/model.py.jinja:{fr.line}", lhs=[g for g, _ in fr.guards], rhs="implies not property.required")
    rep.floor("to_dict_key_writes", n_w, 1)
    # every property is covered by one of the two writes: required -> update, not required -> guarded
    # from_dict pops
    # a pop site is an expression (of a `set` or of an output) that spells the text `d.pop(`; what it evaluates to is decided
    # by the conditions it sits under AND the conditional expressions inside it (`'")' if required else '", UNSET)'` is the same
    # decision as an if/else around two `set`s): every valuation of those conditions gives one *form* of the pop, and the form
    # with the UNSET default must be the one of the non-required properties, whatever construct takes the decision.
    allfr = list(_frags(mt.tree.body, mt, sets=True))
    tev = _TplEval(allfr)
    forms: list[tuple[int, bool, bool, tplq.Frag, str]] = []   # (site, property.required, UNSET default, fragment, text)
    named: dict[int, bool] = {}
    for i, fr in enumerate(allfr):
        if fr.kind not in ("set", "expr") or not fr.loops or not _spells(fr.expr, "d.pop("):
            continue
        pv = f"{fr.loops[-1]}[*]"
        rq = f"{pv}.required"
        names = list(dict.fromkeys(tplq.guard_atoms(fr) + tev.atoms(fr.expr, i) + [rq]))
        rep.require(len(names) <= 12, f"a pop expression of from_dict that depends on at most 12 conditions (line {fr.line})")
        named[i] = f"{pv}.name" in tev.reads(fr.expr, i)
        for env in tplq.assignments(names):
            if tplq.guard_holds(fr, env):
                txt = "".join(tev.consts(fr.expr, env, i))
                forms.append((i, env[rq], bool(re.search(r"\bUNSET\b", txt)), fr, txt))
    for required, kind in ((True, "required"), (False, "optional")):
        mine = [f_ for f_ in forms if f_[1] == required]
        bad = [f_ for f_ in mine if f_[2] == required or not named[f_[0]]]
        at_line = (bad or mine)[0][3].line if (bad or mine) else 0
        rep.check(bool(mine) and not bad, "R10.3", f"model.py.jinja::from_dict::pop[{kind}]",
                  "pop form does not match requiredness (optional keys need the UNSET default, required keys none)",
                  where=f"{PKG}/templates/model.py.jinja:{at_line}",
                  lhs=[[f_[4], [g for g, _ in f_[3].guards]] for f_ in (bad or mine)[:2]], rhs="d.pop(name, UNSET) iff not required")
    kinds_seen = {"optional" if d_ else "required" for _, _, d_, _, _ in forms}
    rep.check(kinds_seen == {"optional", "required"}, "R10.3", "model.py.jinja::from_dict::pop-forms", "from_dict no longer has one pop form "
              "for required and one for optional keys", where=f"{PKG}/templates/model.py.jinja", lhs=sorted(kinds_seen), rhs=["optional", "required"])
    rep.floor("from_dict_pop_forms", len({(i, d_) for i, _, d_, _, _ in forms}), 1)

    # ---- R10.6 declaration order -------------------------------------------------------------------------------------------
    # the class body declares its attributes in passes (loops); a declaration is mandatory when the property is required and has no
    # default (to_string emits no `= ...`, R10.1).  Whatever the passes iterate over, their guards must make sure that no
    # declaration that carries a default can come before a mandatory one.
    passes: list[tuple[Any, tplq.Frag]] = []
    for fr in _frags(mt.tree.body, mt):
        if fr.kind == "expr" and fr.loops and fr.text == f"{fr.loops[-1]}[*].to_string()":
            k_ = (fr.loops, tuple(id(g) for g in fr.guard_nodes if f"{fr.loops[-1]}[*]." in expr_text(g)))
            if not any(k_ == q for q, _ in passes):
                passes.append((k_, fr))
    rep.floor("declaration_passes", len(passes), 1)
    can: list[tuple[bool, bool]] = []
    for i, (_, fr) in enumerate(passes):
        pv = f"{fr.loops[-1]}[*]"
        dn, rq = f"{pv}.default is none", f"{pv}.required"
        names = list(dict.fromkeys(tplq.guard_atoms(fr) + [dn, rq]))
        envs = [e for e in tplq.assignments(names) if tplq.guard_holds(fr, e)]
        mand = any(e[dn] and e[rq] for e in envs)
        dflt = any(not (e[dn] and e[rq]) for e in envs)
        can.append((mand, dflt))
        rep.check(not (mand and dflt), "R10.6", f"model.py.jinja::declarations::pass#{i + 1}",
                  "one pass over the properties declares mandatory attributes and attributes with a default in document order (a "
                  "required property with a default may precede one without)", where=f"{PKG}/templates/model.py.jinja:{fr.line}",
                  lhs=[g for g, _ in fr.guards], rhs="guard decides `default is none and required`")
    # when all passes run over the same collection, each property is declared by exactly one of them
    same_iter = len({fr.loops[-1] for _, fr in passes}) == 1
    counts = {}
    for d_ in (False, True):
        for r_ in (False, True):
            n_ = 0
            for _, fr in passes:
                pv = f"{fr.loops[-1]}[*]"
                dn, rq = f"{pv}.default is none", f"{pv}.required"
                names = list(dict.fromkeys(tplq.guard_atoms(fr) + [dn, rq]))
                n_ += any(tplq.guard_holds(fr, e) for e in tplq.assignments(names) if e[dn] == d_ and e[rq] == r_)
            counts[f"default-none={d_},required={r_}"] = n_
    rep.check(not same_iter or all(v == 1 for v in counts.values()), "R10.6", "model.py.jinja::declarations::each-once",
              f"a property is declared by no pass or by several: {counts}", where=f"{PKG}/templates/model.py.jinja", lhs=counts, rhs="1 each")
    bad_order = [(i + 1, j + 1) for i in range(len(can)) for j in range(i + 1, len(can)) if can[i][1] and can[j][0]]
    rep.check(not bad_order, "R10.6", "model.py.jinja::declarations::order", "a pass that can declare an attribute with a default comes before "
              f"a pass that can declare a mandatory attribute: passes {bad_order}", where=f"{PKG}/templates/model.py.jinja", lhs=bad_order, rhs=[])

    # ---- R10.7 requiredness is decided at construction ------------------------------------------------------------------------
    # property objects are shared (a model inherits the very objects of the model it references through allOf; parameters are
    # shared between endpoints) and every template keys the three states on property.required / property.default: changing
    # either in place changes another owner's declaration.  A new value needs a new object (evolve).
    n_stores = 0
    for f in ix.all_functions:
        for n in ast.walk(f.node):
            attr = obj = None
            if isinstance(n, ast.Call) and norm(n.func) in ("object.__setattr__", "setattr") and len(n.args) == 3:
                obj, attr = norm(n.args[0]), (n.args[1].value if isinstance(n.args[1], ast.Constant) else None)
                n_stores += 1
            elif isinstance(n, (ast.Assign, ast.AugAssign, ast.AnnAssign)):
                for t in (n.targets if isinstance(n, ast.Assign) else [n.target]):
                    if isinstance(t, ast.Attribute):
                        obj, attr = norm(t.value), t.attr
                        n_stores += 1
            if attr in ("required", "default") and not (obj == "self" and f.name in ("__init__", "__attrs_post_init__")):
                # stores into the pydantic document model (schema classes) are normalisation of the input, not of a property
                if f.cls is not None and not any(k.name == "PropertyProtocol" for k in ix.mro(f.cls)) and obj == "self":
                    continue
                # an object this function has just constructed is not shared with anybody yet
                made = Locals(f.node).defs.get(obj or "", [])
                class_names = {c.name for c in ix.classes.values()} | {"cls"}
                if made and all(isinstance(v, ast.Call) and norm(v.func) in class_names for _, _, v in made):
                    continue
                rep.fail("R10.7", f"{short(f)}::{attr}-set-in-place", f"`{attr}` of an existing object is changed in place ({norm(n)[:70]}): the "
                         "object may be shared with another model or endpoint, whose declaration changes with it", where(f, n),
                         lhs=norm(n)[:80], rhs=f"evolve(<prop>, {attr}=...)")
    rep.floor("attribute_stores_scanned", n_stores, 32)
    rep.ok("R10.7", "package::no-in-place-requiredness", n_stores, "no store to .required / .default")

    # ---- R10.4 ---------------------------------------------------------------------------------------------------------
    ut = jx.templates.get(TEMPLATE_DIR + "union_property.py.jinja")
    rep.require(ut, "union template")
    cons = ut.macros.get("construct")
    rep.require(cons, "union construct")
    frs = list(tplq.frags(cons.body))
    none_fr = [f for f in frs if f.kind == "data" and "if data is None" in f.text]
    none_atoms = [a for f in none_fr[:1] for a in tplq.guard_atoms(f) if a.startswith("'None' in ") and "type_strings" in a]
    ok = bool(none_fr) and len(none_atoms) == 1 and tplq.implies(none_fr[0], none_atoms[0], True) and "return data" in none_fr[0].text
    first_loop = next((f for f in frs if f.loops), None)
    ok = ok and first_loop is not None and none_fr[0].line < first_loop.line
    rep.check(ok, "R10.4", "union_property.py.jinja::construct::none-short-circuit",
              "the union parser does not return None (before trying members) exactly when None is among its JSON types",
              where=f"{PKG}/templates/{ut.name}:{cons.lineno}", lhs=[f.guards for f in none_fr][:1], rhs="guarded by 'None' in type strings, before the member loop")
    sch = ix.cls("Schema")
    hn = sch.methods.get("handle_nullable")
    rep.require(hn, "Schema.handle_nullable")
    # a nullable schema of each shape gets a null alternative on every path; a schema that is not nullable never does
    for field_ in ("type scalar", "type list", "oneOf", "anyOf", "allOf"):
        paths = [p for p in _nullable_paths(hn.node, True, field_) if not isinstance(p.end, ast.Raise)]
        rep.check(bool(paths) and all(_adds_null(p) for p in paths), "R10.4", f"Schema.handle_nullable::{field_}",
                  f"nullable is not normalised for schemas using {field_}", where(hn, hn.node),
                  lhs=[norm(p.end)[:60] if p.end is not None else "<end>" for p in paths if not _adds_null(p)][:2], rhs="a path that adds DataType.NULL")
    paths = [p for f_ in ("type scalar", "oneOf") for p in _nullable_paths(hn.node, False, f_)]
    rep.check(bool(paths) and not any(_adds_null(p) for p in paths), "R10.4", "Schema.handle_nullable::not-nullable",
              "a schema that is not nullable gets a null alternative", where(hn, hn.node))
    comp_fields = [f for f in ix.all_fields(sch) if f in ("allOf", "oneOf", "anyOf")]
    rep.check(len(comp_fields) == 3, "R10.4", "Schema::composition-fields", "composition keywords changed", where(hn, hn.node))
    # type: null maps to NoneProperty
    pfd = ix.func("properties.property_from_data")
    from ..astutil import region_walk

    ok = any(isinstance(n, ast.If) and "DataType.NULL" in norm(n.test) and "NoneProperty" in norm(n) for _, n in region_walk(ix, pfd))
    rep.check(ok, "R10.4", "property_from_data::null->NoneProperty", "type: null no longer maps to NoneProperty", where(pfd, pfd.node))

    from .siblings import enum_builder_parity

    enum_builder_parity(rep, ctx, "R10.4e")

    # ---- R10.5 ---------------------------------------------------------------------------------------------------------
    em = jx.templates.get("endpoint_macros.py.jinja")
    rep.require(em, "endpoint_macros.py.jinja")
    qp = em.macros.get("query_params")
    rep.require(qp, "query_params macro")
    # the statement of the generated code that rebuilds `params` from its own items (whatever its loop variables are called)
    filt = []
    line = ""
    comp = None
    for f in tplq.frags(qp.body):
        if f.kind != "data":
            continue
        for l in f.text.splitlines():
            try:
                tree = ast.parse(l.strip())
            except SyntaxError:
                continue
            for n in ast.walk(tree):
                if isinstance(n, (ast.DictComp, ast.GeneratorExp, ast.ListComp)) and len(n.generators) == 1 and \
                        norm(n.generators[0].iter) == "params.items()":
                    filt, line, comp = [f], l.strip(), n
    rep.require(filt and comp is not None, "query filter comprehension")
    ok = False
    tgt = comp.generators[0].target
    val = tgt.elts[1].id if isinstance(tgt, ast.Tuple) and len(tgt.elts) == 2 and isinstance(tgt.elts[1], ast.Name) else None
    conds = comp.generators[0].ifs
    seen = set()
    ok = bool(conds) and val is not None
    for c in conds:
        parts = c.values if isinstance(c, ast.BoolOp) and isinstance(c.op, ast.And) else [c]
        for p in parts:
            if isinstance(p, ast.Compare) and len(p.ops) == 1 and isinstance(p.ops[0], ast.IsNot) and isinstance(p.left, ast.Name) \
                    and p.left.id == val:
                seen.add(norm(p.comparators[0]))
            else:
                ok = False
    ok = ok and seen == {"UNSET", "None"}
    rep.check(ok, "R10.5", "endpoint_macros.py.jinja::query_params::filter",
              "query parameters are filtered by something other than identity with UNSET / None (a present falsy value would be dropped)",
              where=f"{PKG}/templates/{em.name}:{filt[0].line}", lhs=line, rhs="if v is not UNSET and v is not None")
    rep.check(not filt[0].guards or all(g == "endpoint.query_parameters" for g, _ in filt[0].guards), "R10.5",
              "endpoint_macros.py.jinja::query_params::filter-unconditional", "the filter is not emitted whenever params is",
              where=f"{PKG}/templates/{em.name}:{filt[0].line}", lhs=filt[0].guards, rhs="same guard as `params = {}`")
    ck = em.macros.get("cookie_params")
    rep.require(ck, "cookie_params macro")
    n_ck = 0
    for fr in _frags(ck.body, em):
        if fr.kind == "expr" and fr.loops and fr.text == f"{fr.loops[-1]}[*].name":
            n_ck += 1
            req = f"{fr.loops[-1]}[*].required"
            prev = _prev_data(ck.body, fr.node) or ""
            if _tests_unset(prev):
                rep.check(tplq.implies(fr, req, False), "R10.5", "cookie_params::guarded", "guard misplaced",
                          where=f"{PKG}/templates/{em.name}:{fr.line}")
            else:
                rep.check(tplq.implies(fr, req, True), "R10.5", "cookie_params::unguarded",
                          "an optional cookie is sent without an UNSET test", where=f"{PKG}/templates/{em.name}:{fr.line}",
                          lhs=fr.guards, rhs="implies parameter.required")
    rep.floor("cookie_writes", n_ck, 1)
    # path parameters must be required
    vl = proto.methods.get("validate_location")
    rep.require(vl, "validate_location")
    # an allowed location PATH with required=False: every path returns an error; with required=True some path accepts
    def vl_paths(required: bool) -> list[SimPath]:
        def leaf(e: ast.expr, st: dict, sim: PathSim) -> "bool | None":
            if isinstance(e, ast.Compare) and len(e.ops) == 1:
                if isinstance(e.ops[0], (ast.In, ast.NotIn)) and "_allowed_locations" in norm(e.comparators[0]):
                    return isinstance(e.ops[0], ast.In)
                if isinstance(e.ops[0], (ast.Eq, ast.NotEq, ast.Is, ast.IsNot)) and any(norm(x).endswith("ParameterLocation.PATH") for x in (e.left, e.comparators[0])):
                    return isinstance(e.ops[0], (ast.Eq, ast.Is))
            return required if norm(e) == "self.required" else None

        return PathSim(vl.node, leaf).paths()

    def rejects(p: SimPath) -> bool:
        return isinstance(p.end, ast.Raise) or (isinstance(p.end, ast.Return) and constructs_error(p.end.value))

    opt, req_ = vl_paths(False), vl_paths(True)
    ok = bool(opt) and all(rejects(p) for p in opt) and any(not rejects(p) for p in req_)
    rep.check(ok, "R10.5", "validate_location::path-required", "an optional path parameter is no longer rejected", where(vl, vl.node))
    rep.not_decided.append("run-time values of attributes; nullable without type or composition falls through handle_nullable (observation)")
    rep.observe("Schema.handle_nullable: `nullable: true` on a schema without type/oneOf/anyOf/allOf is ignored")
    return LEVEL


def _tests_unset(text: str) -> bool:
    """the generated line opens a block that runs only for a value that is not the UNSET sentinel (identity with the singleton or
    an instance test of its class - both are how the generated code asks)"""
    return bool(re.search(r"\bis not UNSET\b|\bnot isinstance\([^()]*,\s*Unset\)", text))


def _nullable_paths(fn: ast.AST, nullable: bool, shape: str) -> list[SimPath]:
    """paths of Schema.handle_nullable for a schema of the given shape: `type` a scalar / a list (without null) / absent with one of
    the composition keywords non-empty"""
    from .siblings import _chain

    def size(e: ast.expr) -> "int | None":
        if isinstance(e, ast.Constant) and isinstance(e.value, int) and not isinstance(e.value, bool):
            return e.value
        if isinstance(e, ast.Call) and norm(e.func) == "len" and len(e.args) == 1 and norm(e.args[0]) in ("self.oneOf", "self.anyOf", "self.allOf"):
            return 1 if norm(e.args[0]) == "self." + shape else 0
        return None

    def leaf(e: ast.expr, st: dict, sim: PathSim) -> "bool | None":
        t = norm(e)
        if t == "self.nullable":
            return nullable
        if t in ("self.oneOf", "self.anyOf", "self.allOf"):
            return t == "self." + shape
        if t == "self.type":
            return shape.startswith("type")
        if isinstance(e, ast.Call) and norm(e.func) == "isinstance" and len(e.args) == 2 and norm(e.args[0]) == "self.type":
            kinds = [norm(x) for x in (e.args[1].elts if isinstance(e.args[1], ast.Tuple) else [e.args[1]])]
            have = {"type scalar": "str", "type list": "list"}.get(shape)
            return have in kinds if have else False
        if isinstance(e, ast.Compare):
            if len(e.ops) == 1 and isinstance(e.ops[0], (ast.In, ast.NotIn)) and norm(e.comparators[0]) == "self.type" and norm(e.left).endswith("NULL"):
                return isinstance(e.ops[0], ast.NotIn)  # the list does not contain null yet
            return _chain(e, size)
        return None

    def none_of(e: ast.expr, st: dict, sim: PathSim) -> "bool | None":
        return (not shape.startswith("type")) if norm(e) == "self.type" else None

    return PathSim(fn, leaf, none_of).paths()


def _adds_null(p: SimPath) -> bool:
    return any(any(isinstance(n, ast.Attribute) and n.attr == "NULL" for n in walk_own(s)) for s in p.stmts())


def _prev_data(body: list[nodes.Node], target: Any) -> str | None:
    """the template text emitted right before `target` (same Output node or the closest preceding one)"""
    last: list[str | None] = [None]
    found: list[str | None] = [None]

    def rec(ns: list[nodes.Node]) -> bool:
        for n in ns:
            if isinstance(n, nodes.Output):
                for c in n.nodes:
                    if c is target:
                        found[0] = last[0]
                        return True
                    if isinstance(c, nodes.TemplateData) and c.data.strip():
                        last[0] = c.data
            for fld in ("body", "else_"):
                sub = getattr(n, fld, None)
                if isinstance(sub, list) and rec(sub):
                    return True
            for el in getattr(n, "elif_", []) or []:
                if rec(el.body):
                    return True
        return False

    rec(body)
    return found[0]


def _clone(n: Any, binding: dict[str, Any]) -> Any:
    """copy of a Jinja expression in which the macro parameters are replaced by the arguments of the call"""
    if isinstance(n, nodes.Name) and n.ctx == "load" and n.name in binding:
        return binding[n.name]
    if isinstance(n, nodes.Node):
        vals = []
        for fld in n.fields:
            v = getattr(n, fld)
            vals.append([_clone(x, binding) for x in v] if isinstance(v, list) else _clone(v, binding))
        return type(n)(*vals, lineno=n.lineno)
    return n


def _macro_call(c: nodes.Node, ti: Any) -> "tuple[nodes.Macro, nodes.Call] | None":
    """the macro of the same template that the output expression calls (possibly through filters: `{{ _m(...) | indent(4) }}`)"""
    while isinstance(c, nodes.Filter) and c.node is not None:
        c = c.node
    if isinstance(c, nodes.Call) and isinstance(c.node, nodes.Name) and c.node.name in ti.macros:
        return ti.macros[c.node.name], c
    return None


def _frag(kind: str, text: str, line: int, guards: tuple, gnodes: tuple, loops: tuple, node: Any, expr: Any = None,
          target: "str | None" = None) -> tplq.Frag:
    """a tplq.Frag that also carries the expression in the caller's terms (`expr`) and, for a `set`, the canonical name of the
    variable it defines (`target`)"""
    fr = tplq.Frag(kind, text, line, guards, gnodes, loops, node)
    fr.expr = expr          # type: ignore[attr-defined]
    fr.target = target      # type: ignore[attr-defined]
    return fr


def _spells(e: Any, needle: str) -> bool:
    """the expression itself contains a string constant with this text"""
    if e is None:
        return False
    return any(isinstance(c, nodes.Const) and isinstance(c.value, str) and needle in c.value for c in [e, *e.find_all(nodes.Const)])


HOLE = "\u2039\u203a"  # stands for a part of a template expression that is not a string constant


class _TplEval:
    """What a template expression evaluates to, as far as its string constants go, under a valuation of the conditions it depends
    on: a conditional expression selects one arm; a `set` variable stands for its definition - the last one before the reading
    site whose guards hold (jinja_canon gives the variable one name in all its definitions and uses).  Writing a decision as
    `{% if %}` around two `set`s, as a conditional expression inside one, or through a helper variable is the same to this."""

    DEPTH = 3

    def __init__(self, frs: list[tplq.Frag]):
        self.defs: dict[str, list[tuple[int, tplq.Frag]]] = {}
        for i, fr in enumerate(frs):
            if fr.kind == "set" and getattr(fr, "target", None):
                self.defs.setdefault(fr.target, []).append((i, fr))  # type: ignore[attr-defined]

    def _reaching(self, name: str, at: int) -> list[tuple[int, tplq.Frag]]:
        return [(i, d) for i, d in self.defs.get(name, ()) if i < at]

    def atoms(self, e: nodes.Node, at: int, depth: int = 0) -> list[str]:
        """the conditions the value of e depends on (tests of conditional expressions, guards of the definitions it reads)"""
        out: list[str] = []
        for n in [e, *e.find_all((nodes.CondExpr, nodes.Name))]:
            if isinstance(n, nodes.CondExpr):
                out += tplq.atoms(n.test)
            elif isinstance(n, nodes.Name) and depth < self.DEPTH:
                for i, d in self._reaching(n.name, at):
                    out += tplq.guard_atoms(d) + self.atoms(d.expr, i, depth + 1)  # type: ignore[attr-defined]
        return list(dict.fromkeys(out))

    def consts(self, e: "nodes.Node | None", env: dict[str, bool], at: int, depth: int = 0) -> list[str]:
        """the string constants that make up the value of e under env, in source order, HOLE for everything else"""
        if e is None:
            return []
        if isinstance(e, nodes.Const):
            return [e.value if isinstance(e.value, str) else HOLE]
        if isinstance(e, nodes.TemplateData):
            return [e.data]
        if isinstance(e, nodes.CondExpr):
            return self.consts(e.expr1 if tplq.evaluate(e.test, env) else e.expr2, env, at, depth)
        if isinstance(e, nodes.Name):
            live = [(i, d) for i, d in self._reaching(e.name, at) if tplq.guard_holds(d, env)] if depth < self.DEPTH else []
            if live:
                return self.consts(live[-1][1].expr, env, live[-1][0], depth + 1)  # type: ignore[attr-defined]
            return [HOLE]
        out: list[str] = []
        for ch in e.iter_child_nodes():
            out += self.consts(ch, env, at, depth)
        return out or [HOLE]

    def reads(self, e: nodes.Node, at: int, depth: int = 0) -> str:
        """text of e and of the definitions it reads"""
        out = [expr_text(e)]
        if depth < self.DEPTH:
            for n in [e, *e.find_all(nodes.Name)]:
                if isinstance(n, nodes.Name):
                    out += [self.reads(d.expr, i, depth + 1) for i, d in self._reaching(n.name, at)]  # type: ignore[attr-defined]
        return " <- ".join(out)


def _frags(body: list[nodes.Node], ti: Any, guards: tuple = (), gnodes: tuple = (), loops: tuple = (), binding: "dict[str, Any] | None" = None,
           stack: tuple = (), tests: "list[nodes.Node] | None" = None, sets: bool = False) -> Iterator[tplq.Frag]:
    """tplq.frags, plus: the filter of a `for ... if cond` loop is a guard of the loop body (it is the same decision as an `if`
    around the body); a call of a macro of the same template is replaced by the fragments of that macro, its conditions
    expressed in the caller's terms (parameters replaced by the arguments), so that extracting a shared body into a private macro
    changes nothing; with sets=True `{% set x = e %}` statements are reported as fragments of kind "set".  `tests` collects
    every condition met on the way."""
    b = binding or {}

    def cond(t: nodes.Node) -> nodes.Node:
        t2 = _clone(t, b) if b else t
        if tests is not None:
            tests.append(t2)
        return t2

    for n in body:
        if isinstance(n, nodes.Output):
            for c in n.nodes:
                if isinstance(c, nodes.TemplateData):
                    yield _frag("data", c.data, c.lineno, guards, gnodes, loops, c)
                    continue
                mc = _macro_call(c, ti)
                if mc is not None and mc[0].name not in stack and len(stack) < 4:
                    macro, call = mc
                    b2: dict[str, Any] = {}
                    params = [a.name for a in macro.args]
                    for a, d in zip(macro.args[len(macro.args) - len(macro.defaults):], macro.defaults):
                        b2[a.name] = d
                    for i, a in enumerate(call.args):
                        if i < len(params):
                            b2[params[i]] = _clone(a, b) if b else a
                    for kw in call.kwargs:
                        b2[kw.key] = _clone(kw.value, b) if b else kw.value
                    yield from _frags(macro.body, ti, guards, gnodes, loops, b2, stack + (macro.name,), tests, sets)
                    continue
                c2 = _clone(c, b) if b else c
                yield _frag("expr", expr_text(c2), c.lineno, guards, gnodes, loops, c, expr=c2)
        elif isinstance(n, nodes.If):
            t0 = cond(n.test)
            t = expr_text(t0)
            yield from _frags(n.body, ti, guards + ((t, True),), gnodes + (t0,), loops, b, stack, tests, sets)
            neg = guards + ((t, False),)
            gn = gnodes + (t0,)
            for el in n.elif_:
                t1 = cond(el.test)
                t2 = expr_text(t1)
                yield from _frags(el.body, ti, neg + ((t2, True),), gn + (t1,), loops, b, stack, tests, sets)
                neg = neg + ((t2, False),)
                gn = gn + (t1,)
            if n.else_:
                yield from _frags(n.else_, ti, neg, gn, loops, b, stack, tests, sets)
        elif isinstance(n, nodes.For):
            it = expr_text(_clone(n.iter, b) if b else n.iter)
            g2, gn2 = guards, gnodes
            if n.test is not None:
                t0 = cond(n.test)
                g2, gn2 = guards + ((expr_text(t0), True),), gnodes + (t0,)
            yield from _frags(n.body, ti, g2, gn2, loops + (it,), b, stack, tests, sets)
            if n.else_:
                yield from _frags(n.else_, ti, guards, gnodes, loops, b, stack, tests, sets)
        elif isinstance(n, nodes.Assign):
            if sets:
                v2 = _clone(n.node, b) if b else n.node
                yield _frag("set", expr_text(v2), n.lineno, guards, gnodes, loops, n, expr=v2,
                            target=n.target.name if isinstance(n.target, nodes.Name) else None)
        elif isinstance(n, (nodes.With, nodes.Scope, nodes.CallBlock, nodes.FilterBlock, nodes.AssignBlock)):
            yield from _frags(getattr(n, "body", []), ti, guards, gnodes, loops, b, stack, tests, sets)
        elif isinstance(n, nodes.Macro):
            continue


class _Mentions:
    """Which string constants does a small method *evaluate* on the paths that are consistent with known boolean atoms?  The
    paths come from PathSim (indifferent to branch order, inverted guards, early return vs nested if, conditions held in
    locals); within an expression only the parts that are evaluated count (the arm of a conditional expression selected by the
    known condition, the operands of and / or up to the deciding one).  Calls of self.<method>(...) are followed with the
    arguments that are known."""

    def __init__(self, ix: Any):
        self.ix = ix

    def outcomes(self, f: Any, cls: Any, env: dict[str, bool], needle: str, depth: int = 0) -> set[bool]:
        """{True / False}: over the paths consistent with env, is a string constant containing `needle` evaluated?"""

        def leaf(e: ast.expr, st: dict, sim: PathSim) -> "bool | None":
            return env.get(norm(e))

        def none_of(e: ast.expr, st: dict, sim: PathSim) -> "bool | None":
            v = env.get(norm(e) + " is None")
            if v is None and isinstance(e, ast.Attribute):
                v = self._field_is_none(e.attr)
            return v

        sim = PathSim(f.node, leaf, none_of)
        res: set[bool] = set()
        for p in sim.paths():
            if isinstance(p.end, ast.Raise):
                continue
            acc = {False}
            for ev in p.events:
                parts = [ev.node] if ev.kind == "test" else [x for x in ast.iter_child_nodes(ev.node) if isinstance(x, ast.expr)]
                for part in parts:
                    got = self._expr(part, ev.state, sim, f, cls, env, needle, depth)
                    acc = {a or b for a in acc for b in got}
            res |= acc
        return res

    def _field_is_none(self, attr: str) -> "bool | None":
        """False when every class of the repository that declares a field of this name annotates it with a type that does not
        admit None"""
        anns = [c.fields[attr] for c in self.ix.classes.values() if attr in c.fields]
        if anns and all(a is not None and "None" not in norm(a) and "Optional" not in norm(a) and "Any" not in norm(a) for a in anns):
            return False
        return None

    def _expr(self, e: ast.AST, st: dict, sim: PathSim, f: Any, cls: Any, env: dict[str, bool], needle: str, depth: int) -> set[bool]:
        def rec(x: ast.AST) -> set[bool]:
            return self._expr(x, st, sim, f, cls, env, needle, depth)

        def both(a: set[bool], b: set[bool]) -> set[bool]:
            return {x or y for x in a for y in b}

        if isinstance(e, ast.Constant):
            return {isinstance(e.value, str) and needle in e.value}
        if isinstance(e, ast.IfExp):
            t = sim.truth(e.test, st)
            arms = rec(e.body) if t is True else rec(e.orelse) if t is False else rec(e.body) | rec(e.orelse)
            return both(rec(e.test), arms)
        if isinstance(e, ast.BoolOp):
            acc = rec(e.values[0])
            stop: set[bool] = set()
            for prev, v in zip(e.values, e.values[1:]):
                t = sim.truth(prev, st)
                decided = (t is False) if isinstance(e.op, ast.And) else (t is True)
                if decided:
                    break
                if t is None:
                    stop |= acc
                acc = both(acc, rec(v))
            return acc | stop
        out = {False}
        for ch in ast.iter_child_nodes(e):
            if isinstance(ch, (ast.expr_context, ast.operator, ast.unaryop, ast.cmpop, ast.boolop)):
                continue
            out = both(out, rec(ch))
        if isinstance(e, ast.Call) and isinstance(e.func, ast.Attribute) and isinstance(e.func.value, ast.Name) and e.func.value.id == "self" \
                and depth < 3:
            m = self.ix.find_method(cls, e.func.attr)
            if m is not None and m is not f:
                out = both(out, self.outcomes(m, cls, self._callee_env(m, e, st, sim, env), needle, depth + 1) or {False})
        return out

    @staticmethod
    def _callee_env(m: Any, c: ast.Call, st: dict, sim: PathSim, env: dict[str, bool]) -> dict[str, bool]:
        e2 = {k: v for k, v in env.items() if k.startswith("self.")}
        a = m.node.args
        allpos = [*a.posonlyargs, *a.args]
        pos = [p.arg for p in allpos if p.arg != "self"]
        bound: dict[str, ast.expr] = {}
        for p, d in zip(allpos[len(allpos) - len(a.defaults):], a.defaults):
            bound[p.arg] = d
        for p, d in zip(a.kwonlyargs, a.kw_defaults):
            if d is not None:
                bound[p.arg] = d
        for i, arg in enumerate(c.args):
            if i < len(pos):
                bound[pos[i]] = arg
        for kw in c.keywords:
            if kw.arg:
                bound[kw.arg] = kw.value
        for pn, v in bound.items():
            if isinstance(v, ast.Constant) and not isinstance(v.value, bool):
                continue
            t = sim.truth(v, st)
            if t is not None:
                e2[pn] = t
        return e2
