"""C10 - absent, null and present stay three distinct states."""
from __future__ import annotations

import ast
import re
from typing import Any

from jinja2 import nodes

from .. import tplq
from ..astutil import norm, short, where
from ..core import PKG, Report
from ..jinja_interp import expr_text
from ..pe import PathEnum

LEVEL = ("sibling / guard rules: (1) every get_type_string implementation mentions Unset exactly when `not no_optional and "
         "not required` (path enumeration over the boolean atoms, all overrides); to_string emits a default iff the truth "
         "table says so; (2) every transform/construct macro of every property template handles Unset exactly on the "
         "non-required arm, and a guard may be skipped only under `property.required` (truth tables over the Jinja guard "
         "atoms); (3) model I/O: unconditional key writes imply `required`, optional pops carry the UNSET default; (4) null: "
         "union parser, handle_nullable case exhaustiveness; (5) query filter tests identity with UNSET/None.")

TEMPLATE_DIR = "property_templates/"


def run(rep: Report, ctx: Any) -> str:
    ix = ctx.py
    jx = ctx.jinja
    rep.rule("R10.1", "type strings mention Unset iff (not no_optional and not required), in every override; to_string emits "
                      "`= UNSET` iff not required and no default, and nothing iff required without default")
    rep.rule("R10.2", "every transform/transform_multipart/transform_multipart_body/construct_template macro: the arm emitted "
                      "for required properties never mentions Unset/UNSET; the arm for optional properties assigns UNSET only "
                      "under an isinstance(..., Unset) test; an Unset guard is skipped only when `property.required`")
    rep.rule("R10.3", "to_dict writes a key unconditionally only if the property is required, otherwise under `is not UNSET`; "
                      "from_dict pops optional keys with the UNSET default and required keys without default")
    rep.rule("R10.4", "the union parser returns None before trying any member exactly when None is among its JSON types; "
                      "handle_nullable covers type scalar / type list / oneOf / anyOf / allOf")
    rep.rule("R10.5", "query parameters are dropped only by identity with UNSET or None; optional cookies/headers are guarded")

    # ---- R10.1 ----------------------------------------------------------------------------------------------------
    pe = PathEnum(ix)
    proto = ix.cls("PropertyProtocol")
    n_impl = 0
    for c in [proto] + ix.property_classes():
        m = c.methods.get("get_type_string")
        if m is None:
            continue
        n_impl += 1
        for no_opt in (False, True):
            for req in (False, True):
                res = pe.outcomes(m, c, {"no_optional": no_opt, "self.required": req}, "Unset")
                want = (not no_opt) and (not req)
                rep.check(res == {want}, "R10.1", f"{short(m)}[no_optional={no_opt},required={req}]",
                          f"type string {'must' if want else 'must not'} mention Unset here; paths give {sorted(res)}",
                          where(m, m.node), lhs=sorted(res), rhs=[want])
    rep.floor("get_type_string_implementations", n_impl, 5)
    ts = proto.methods.get("to_string")
    rep.require(ts, "PropertyProtocol.to_string")
    for has_default in (False, True):
        for req in (False, True):
            env = {"self.default is None": not has_default, "self.required": req}
            unset = pe.outcomes(ts, proto, env, "UNSET")
            eq = pe.outcomes(ts, proto, {**env}, " = ")
            want_unset = (not has_default) and (not req)
            want_eq = has_default or not req
            rep.check(unset == {want_unset} and eq == {want_eq}, "R10.1", f"{short(ts)}[default={has_default},required={req}]",
                      "declaration default is wrong for this combination", where(ts, ts.node), lhs=[sorted(unset), sorted(eq)],
                      rhs=[want_unset, want_eq])
    overrides = [c.name for c in ix.property_classes() if "to_string" in c.methods]
    rep.check(not overrides, "R10.1", "to_string::overrides", f"to_string overridden in {overrides} (not covered)", "")

    # ---- R10.2 -------------------------------------------------------------------------------------------------------
    n_macros = 0
    macro_names = ("transform", "transform_multipart", "transform_multipart_body", "construct_template", "guarded_statement")
    for tn, ti in sorted(jx.templates.items()):
        if not tn.startswith(TEMPLATE_DIR):
            continue
        for mn in macro_names:
            m = ti.macros.get(mn)
            if m is None:
                continue
            n_macros += 1
            frs = list(tplq.frags(m.body))
            key = f"{tn}::{mn}"
            req_atom = "property.required"
            texts_req: list[str] = []
            texts_opt: list[str] = []
            unguarded_unset = []
            for fr in frs:
                if fr.kind != "data":
                    continue
                names = tplq.guard_atoms(fr)
                if req_atom in names:
                    on_req = any(tplq.guard_holds(fr, e) for e in tplq.assignments(names) if e[req_atom])
                    on_opt = any(tplq.guard_holds(fr, e) for e in tplq.assignments(names) if not e[req_atom])
                else:
                    on_req = on_opt = True
                if on_req:
                    texts_req.append(fr.text)
                if on_opt:
                    texts_opt.append(fr.text)
                if on_req and re.search(r"\bUNSET\b|\bUnset\b", fr.text):
                    unguarded_unset.append((fr.line, fr.text.strip()[:60]))
            rep.check(not unguarded_unset, "R10.2", key + "::required-arm",
                      f"text emitted for required properties mentions Unset/UNSET: {unguarded_unset[:2]}",
                      where=f"{PKG}/templates/{tn}:{m.lineno}", lhs=unguarded_unset[:2], rhs="no Unset handling when required")
            opt = "".join(texts_opt)
            has_guard = bool(re.search(r"isinstance\([^)]*,\s*Unset\)", opt)) or "isinstance(" in opt and "Unset" in opt
            if mn == "guarded_statement":
                rep.check(has_guard, "R10.2", key + "::optional-arm", "optional arm has no isinstance(..., Unset) guard",
                          where=f"{PKG}/templates/{tn}:{m.lineno}", lhs=opt.strip()[:80], rhs="isinstance(source, Unset)")
            else:
                assigns_unset = "UNSET" in opt or "isinstance" in opt
                rep.check(has_guard and assigns_unset, "R10.2", key + "::optional-arm",
                          "the arm emitted for optional properties does not test isinstance(..., Unset) (a truthiness or equality "
                          "test would confuse falsy values with absence)", where=f"{PKG}/templates/{tn}:{m.lineno}",
                          lhs=opt.strip()[:100], rhs="isinstance(<source>, Unset) guard")
            # a guard is skipped only under property.required: every If that decides between the two arms tests exactly that atom
            for n in m.find_all(nodes.If):
                at = tplq.atoms(n.test)
                if req_atom in at and len(at) > 1:
                    # the required arm must imply property.required
                    for env in tplq.assignments(at):
                        val = tplq.evaluate(n.test, env)
                        # polarity: which arm is "no guard"? the arm taken when property.required is True and all other atoms False
                        base = tplq.evaluate(n.test, {a: (a == req_atom) for a in at})
                        if val == base and not env[req_atom]:
                            rep.fail("R10.2", key + f"::guard-skipped({expr_text(n.test)[:50]})",
                                     f"the Unset guard is skipped under `{expr_text(n.test)}` although the property is not required "
                                     f"(e.g. {env})", where=f"{PKG}/templates/{tn}:{n.lineno}", lhs=expr_text(n.test),
                                     rhs="skipped only when property.required")
                            break
    rep.floor("unset_handling_macros", n_macros, 24)

    # ---- R10.3 -------------------------------------------------------------------------------------------------------
    mt = jx.templates.get("model.py.jinja")
    rep.require(mt, "model.py.jinja")
    td = mt.macros.get("_to_dict")
    rep.require(td, "_to_dict macro")
    n_w = 0
    for fr in tplq.frags(td.body):
        if fr.kind != "expr":
            continue
        # "<name>": <python_name>   inside field_dict.update({...})  and  field_dict["<name>"] = <python_name>
        # (the property loop variable is canonical: `ITER[*]`)
        if fr.loops and fr.text == f"{fr.loops[-1]}[*].name":
            pv = f"{fr.loops[-1]}[*]"
            n_w += 1
            names = tplq.guard_atoms(fr)
            uncond_possible = False
            # is this write under a python-level `if ... is not UNSET:` ?  look at the preceding data fragment
            prev = _prev_data(td.body, fr.node)
            py_guarded = prev is not None and "is not UNSET" in prev
            if not py_guarded:
                ok = tplq.implies(fr, f"{pv}.required", True)
                rep.check(ok, "R10.3", f"model.py.jinja::_to_dict::unconditional-write#{n_w}",
                          "a key is written without an `is not UNSET` test under a condition that does not imply property.required",
                          where=f"{PKG}/templates/model.py.jinja:{fr.line}", lhs=[g for g, _ in fr.guards], rhs="implies property.required")
            else:
                ok = tplq.implies(fr, f"{pv}.required", False)
                rep.check(ok, "R10.3", f"model.py.jinja::_to_dict::guarded-write#{n_w}",
                          "the UNSET-guarded write is not restricted to non-required properties (a required key could be omitted)",
                          where=f"{PKG}/templates/model.py.jinja:{fr.line}", lhs=[g for g, _ in fr.guards], rhs="implies not property.required")
    rep.floor("to_dict_key_writes", n_w, 2)
    # every property is covered by one of the two writes: required -> update, not required -> guarded
    # from_dict pops
    n_p = 0
    for n in mt.tree.find_all(nodes.Assign):
        if expr_text(n.node).startswith(("'d.pop(", "(('d.pop(", "('d.pop(")):
            n_p += 1
            txt = expr_text(n.node)
            fr = next((f for f in tplq.frags(mt.tree.body) if False), None)
            has_default = "UNSET" in txt
            # which arm? find guard through a manual walk
            pol = _assign_guard(mt.tree.body, n)
            rep.require(pol is not None, "guard of property_source")
            test, arm = pol
            rep.require(test.endswith("[*].required"), "the requiredness test guarding the pop forms")
            want_default = not arm
            rep.check(has_default == want_default and test[:-len(".required")] + ".name" in txt, "R10.3", f"model.py.jinja::from_dict::pop[{'optional' if want_default else 'required'}]",
                      "pop form does not match requiredness (optional keys need the UNSET default, required keys none)",
                      where=f"{PKG}/templates/model.py.jinja:{n.lineno}", lhs=txt, rhs="d.pop(name, UNSET) iff not required")
    rep.floor("from_dict_pop_forms", n_p, 2)

    # ---- R10.4 ---------------------------------------------------------------------------------------------------------
    ut = jx.templates.get(TEMPLATE_DIR + "union_property.py.jinja")
    rep.require(ut, "union template")
    cons = ut.macros.get("construct")
    rep.require(cons, "union construct")
    frs = list(tplq.frags(cons.body))
    none_fr = [f for f in frs if f.kind == "data" and "if data is None" in f.text]
    ok = bool(none_fr) and any("'None' in property.get_type_strings_in_union" in g or '"None" in' in g or "None" in g
                               for g, pol in none_fr[0].guards if pol) and "return data" in none_fr[0].text
    first_loop = next((f for f in frs if f.loops), None)
    ok = ok and first_loop is not None and none_fr[0].line < first_loop.line
    rep.check(ok, "R10.4", "union_property.py.jinja::construct::none-short-circuit",
              "the union parser does not return None (before trying members) exactly when None is among its JSON types",
              where=f"{PKG}/templates/{ut.name}:{cons.lineno}", lhs=[f.guards for f in none_fr][:1], rhs="guarded by 'None' in type strings, before the member loop")
    sch = ix.cls("Schema")
    hn = sch.methods.get("handle_nullable")
    rep.require(hn, "Schema.handle_nullable")
    txt = norm(hn.node)
    for field_, pat in (("type scalar", "isinstance(self.type, str)"), ("type list", "isinstance(self.type, list)"),
                        ("oneOf", "self.oneOf"), ("anyOf", "self.anyOf"), ("allOf", "self.allOf")):
        rep.check(pat in txt, "R10.4", f"Schema.handle_nullable::{field_}", f"nullable is not normalised for schemas using {field_}",
                  where(hn, hn.node), lhs=field_, rhs=pat)
    comp_fields = [f for f in ix.all_fields(sch) if f in ("allOf", "oneOf", "anyOf")]
    rep.check(len(comp_fields) == 3, "R10.4", "Schema::composition-fields", "composition keywords changed", where(hn, hn.node))
    # type: null maps to NoneProperty
    pfd = ix.func("properties.property_from_data")
    ok = any(isinstance(n, ast.If) and "DataType.NULL" in norm(n.test) and "NoneProperty" in norm(n) for n in ast.walk(pfd.node))
    rep.check(ok, "R10.4", "property_from_data::null->NoneProperty", "type: null no longer maps to NoneProperty", where(pfd, pfd.node))

    from .siblings import enum_builder_parity

    enum_builder_parity(rep, ctx, "R10.4e")

    # ---- R10.5 ---------------------------------------------------------------------------------------------------------
    em = jx.templates.get("endpoint_macros.py.jinja")
    rep.require(em, "endpoint_macros.py.jinja")
    qp = em.macros.get("query_params")
    rep.require(qp, "query_params macro")
    filt = [f for f in tplq.frags(qp.body) if f.kind == "data" and "for k, v in params.items()" in f.text]
    rep.require(filt, "query filter comprehension")
    line = next(l for l in filt[0].text.splitlines() if "for k, v in params.items()" in l).strip()
    ok = False
    try:
        tree = ast.parse(line)
        comp = next(n for n in ast.walk(tree) if isinstance(n, ast.DictComp))
        conds = comp.generators[0].ifs
        seen = set()
        ok = bool(conds)
        for c in conds:
            parts = c.values if isinstance(c, ast.BoolOp) and isinstance(c.op, ast.And) else [c]
            for p in parts:
                if isinstance(p, ast.Compare) and len(p.ops) == 1 and isinstance(p.ops[0], ast.IsNot) and isinstance(p.left, ast.Name) \
                        and p.left.id == "v":
                    seen.add(norm(p.comparators[0]))
                else:
                    ok = False
        ok = ok and seen == {"UNSET", "None"}
    except Exception:  # noqa: BLE001
        ok = False
    rep.check(ok, "R10.5", "endpoint_macros.py.jinja::query_params::filter",
              "query parameters are filtered by something other than identity with UNSET / None (a present falsy value would be dropped)",
              where=f"{PKG}/templates/{em.name}:{filt[0].line}", lhs=line, rhs="if v is not UNSET and v is not None")
    rep.check(not filt[0].guards or all(g == "endpoint.query_parameters" for g, _ in filt[0].guards), "R10.5",
              "endpoint_macros.py.jinja::query_params::filter-unconditional", "the filter is not emitted whenever params is",
              where=f"{PKG}/templates/{em.name}:{filt[0].line}", lhs=filt[0].guards, rhs="same guard as `params = {}`")
    ck = em.macros.get("cookie_params")
    rep.require(ck, "cookie_params macro")
    n_ck = 0
    for fr in tplq.frags(ck.body):
        if fr.kind == "expr" and fr.loops and fr.text == f"{fr.loops[-1]}[*].name":
            n_ck += 1
            req = f"{fr.loops[-1]}[*].required"
            prev = _prev_data(ck.body, fr.node) or ""
            if "is not UNSET" in prev:
                rep.check(tplq.implies(fr, req, False), "R10.5", "cookie_params::guarded", "guard misplaced",
                          where=f"{PKG}/templates/{em.name}:{fr.line}")
            else:
                rep.check(tplq.implies(fr, req, True), "R10.5", "cookie_params::unguarded",
                          "an optional cookie is sent without an UNSET test", where=f"{PKG}/templates/{em.name}:{fr.line}",
                          lhs=fr.guards, rhs="implies parameter.required")
    rep.floor("cookie_writes", n_ck, 2)
    # path parameters must be required
    vl = proto.methods.get("validate_location")
    rep.require(vl, "validate_location")
    ok = any(isinstance(n, ast.If) and "ParameterLocation.PATH" in norm(n.test) and "not self.required" in norm(n.test) and
             any(isinstance(r, ast.Return) and "ParseError" in norm(r) for r in n.body) for n in ast.walk(vl.node))
    rep.check(ok, "R10.5", "validate_location::path-required", "an optional path parameter is no longer rejected", where(vl, vl.node))
    rep.not_decided.append("run-time values of attributes; nullable without type or composition falls through handle_nullable (observation)")
    rep.observe("Schema.handle_nullable: `nullable: true` on a schema without type/oneOf/anyOf/allOf is ignored")
    return LEVEL


def _prev_data(body: list[nodes.Node], target: Any) -> str | None:
    """the template text emitted right before `target` (same Output node or the closest preceding one)"""
    last: list[str | None] = [None]
    found: list[str | None] = [None]

    def rec(ns: list[nodes.Node]) -> bool:
        for n in ns:
            if isinstance(n, nodes.Output):
                for c in n.nodes:
                    if c is target:
                        found[0] = last[0]
                        return True
                    if isinstance(c, nodes.TemplateData) and c.data.strip():
                        last[0] = c.data
            for fld in ("body", "else_"):
                sub = getattr(n, fld, None)
                if isinstance(sub, list) and rec(sub):
                    return True
            for el in getattr(n, "elif_", []) or []:
                if rec(el.body):
                    return True
        return False

    rec(body)
    return found[0]


def _assign_guard(body: list[nodes.Node], target: Any) -> tuple[str, bool] | None:
    res: list[tuple[str, bool] | None] = [None]

    def rec(ns: list[nodes.Node], g: tuple[str, bool] | None) -> bool:
        for n in ns:
            if n is target:
                res[0] = g
                return True
            if isinstance(n, nodes.If):
                if rec(n.body, (expr_text(n.test), True)) or rec(n.else_, (expr_text(n.test), False)):
                    return True
                for el in n.elif_:
                    if rec(el.body, (expr_text(el.test), True)):
                        return True
            else:
                for fld in ("body", "else_"):
                    sub = getattr(n, fld, None)
                    if isinstance(sub, list) and rec(sub, g):
                        return True
        return False

    rec(body, None)
    return res[0]
