"""C20 - using a component by reference is equivalent to writing it inline (resolver convergence)."""
from __future__ import annotations

import ast
from typing import Any

from ..astutil import Locals, bool_atoms, call_name, cfg_of, error_names, norm, returns_error, short, stmt_calls, where
from ..cfg import CFG
from ..core import Report

LEVEL = ("resolver convergence only (output equality of two runs is not decided): for parameters, request bodies and responses "
         "the reference branch ends by rebinding the variable the inline branch uses, changes no other input of the following "
         "code, and the loop that follows a chain tests the current link; the field-by-field copy of a component parameter covers "
         "every attribute read downstream; every reference string goes through parse_reference_path, whose rejection covers every "
         "non-fragment component; lookup misses return errors; a schema reference evolves only name/required/python_name/default.")


def run(rep: Report, ctx: Any) -> str:
    ix = ctx.py
    it, ji = ctx.flow
    cfgs: dict[str, CFG] = {}
    rep.rule("R20.1", "resolvers converge: inside the reference branch only the resolved variable (and locals of the branch) are "
                      "assigned - no parameter that the shared code reads later; chain-following loops test the current link")
    rep.rule("R20.2", "parameter_from_data copies every Parameter attribute that is read downstream")
    rep.rule("R20.3", "every .ref consumer validates through parse_reference_path (or follows a name-keyed component table with a "
                      "cycle guard); the validator rejects every non-fragment URL component; lookup misses return errors")
    rep.rule("R20.4", "one class per schema: a reference evolves only required/name/python_name/default of the registered object and "
                      "records the dependency")

    # ---- R20.1 -----------------------------------------------------------------------------------------------------
    rfd = ix.func("responses.response_from_data")
    params = {p.arg for p in rfd.params}
    branch = next((n for n in ast.walk(rfd.node) if isinstance(n, ast.If) and "isinstance(data, oai.Reference)" in norm(n.test)), None)
    rep.require(branch, "reference branch in response_from_data")
    assigned = set()
    for s in branch.body:
        for n in ast.walk(s):
            if isinstance(n, (ast.Assign, ast.AugAssign, ast.AnnAssign)):
                tgts = n.targets if isinstance(n, ast.Assign) else [n.target]
                for t in tgts:
                    for x in ast.walk(t):
                        if isinstance(x, ast.Name) and isinstance(x.ctx, ast.Store):
                            assigned.add(x.id)
    leak = sorted((assigned & params) - {"data"})
    rep.check("data" in assigned and not leak, "R20.1", "response_from_data::reference-branch-rebinds-only-data",
              f"the reference branch also changes {leak}: a referenced response no longer takes the same path as an inline one (e.g. "
              "inline models get another name, later operations collide)", where(rfd, branch), lhs=sorted(assigned), rhs="{data} + branch locals")
    after = [n for n in ast.walk(rfd.node) if isinstance(n, ast.Call) and call_name(n) == "isinstance" and "Reference" in norm(n)
             and getattr(n, "lineno", 0) > branch.end_lineno]
    rep.check(not after, "R20.1", "response_from_data::no-later-reference-test", "code after the resolution still distinguishes references",
              where(rfd, rfd.node))
    ap = ix.func("Endpoint.add_parameters")
    # the resolved parameter (any spelling) is tested for being an error and then rebound to the loop variable itself, so that the
    # code below the resolution is shared by inline and referenced parameters
    ploops = [n for n in ast.walk(ap.node) if isinstance(n, ast.For) and norm(n.iter) == "data.parameters"]
    rep.require(ploops, "loop over data.parameters")
    pv = norm(ploops[0].target)
    al = Locals(ap.node)
    resolved = set(al.bound_from(lambda v: v == f"parameter_from_reference(param={pv}, parameters=parameters)", "assign"))
    rebind = [s_ for s_ in ploops[0].body if isinstance(s_, ast.Assign) and norm(s_.targets[0]) == pv and norm(s_.value) in resolved]
    errchk = [s_ for s_ in ploops[0].body if isinstance(s_, ast.If) and any(norm(s_.test) == f"isinstance({r_}, ParseError)" for r_ in resolved)
              and any(isinstance(x, ast.Return) for x in s_.body)]
    direct = [s_ for s_ in ploops[0].body if isinstance(s_, ast.Assign) and norm(s_.targets[0]) == pv and norm(s_.value).startswith("parameter_from_reference(")]
    rep.check((bool(rebind) and bool(errchk) and ploops[0].body.index(errchk[0]) < ploops[0].body.index(rebind[0])) or bool(direct), "R20.1",
              "Endpoint.add_parameters::resolves-then-rebinds", "a referenced parameter is not rebound to the loop variable before the shared code",
              where(ap, ap.node))
    rr = ix.func("bodies._resolve_reference")
    loops = [n for n in ast.walk(rr.node) if isinstance(n, ast.While)]
    rep.require(loops, "chain loop in _resolve_reference")
    lp = loops[0]
    assigned_in_loop = {x.id for s in lp.body for n in ast.walk(s) if isinstance(n, (ast.Assign, ast.AugAssign))
                        for t in (n.targets if isinstance(n, ast.Assign) else [n.target]) for x in ast.walk(t) if isinstance(x, ast.Name)}
    roots_in_test = set()
    for n in ast.walk(lp.test):
        if isinstance(n, ast.Name) and isinstance(n.ctx, ast.Load):
            roots_in_test.add(n.id)
    # names that denote the visited collection / types are not links
    collections = {c.func.value.id for s in lp.body for c in ast.walk(s) if isinstance(c, ast.Call) and isinstance(c.func, ast.Attribute)
                   and c.func.attr in ("append", "add") and isinstance(c.func.value, ast.Name)}
    links = {n for n in roots_in_test if n not in collections and n not in ("oai", "isinstance")}
    stale = sorted(links - assigned_in_loop)
    rep.check(not stale, "R20.1", "_resolve_reference::tests-current-link",
              f"the chain loop tests {stale}, which the loop never updates: only the first link is ever examined (longer chains are misreported)",
              where(rr, lp), lhs=norm(lp.test), rhs=f"all of {sorted(links)} updated in the body ({sorted(assigned_in_loop)})")
    bfd = ix.func("bodies.body_from_data")
    res_l = set(Locals(bfd.node).bound_from(lambda v: v == "_resolve_reference(data.request_body, request_bodies)", "assign"))
    raw_reads = [n for n in ast.walk(bfd.node) if isinstance(n, ast.Attribute) and norm(n) == "data.request_body"]
    rep.check(bool(res_l) and len(raw_reads) == 1, "R20.1", "body_from_data::resolves-first",
              "the request body is not resolved before the shared code", where(bfd, bfd.node))

    # ---- R20.2 ----------------------------------------------------------------------------------------------------------
    pfd = ix.func("schemas.parameter_from_data")
    copied = set()
    for c in ast.walk(pfd.node):
        if isinstance(c, ast.Call) and call_name(c) == "Parameter":
            copied |= {k.arg for k in c.keywords if k.arg}
    rep.require(copied, "Parameter(...) copy in parameter_from_data")
    read = set()
    pcls = ix.cls("Parameter")
    pfields = set(ix.all_fields(pcls))
    for f in (ap, ix.func("PropertyProtocol.validate_location")):
        for n in ast.walk(f.node):
            if isinstance(n, ast.Attribute) and isinstance(n.value, ast.Name) and n.value.id == pv and f is ap and n.attr in pfields:
                read.add(n.attr)
    rep.check(read <= copied, "R20.2", "parameter_from_data::copies-what-is-read",
              f"attributes {sorted(read - copied)} of a parameter are read by add_parameters but not copied for component parameters", where(pfd, pfd.node),
              lhs=sorted(read), rhs=sorted(copied))
    rep.floor("parameter_attributes_read", len(read), 4)

    # ---- R20.3 -------------------------------------------------------------------------------------------------------------
    prp = ix.func("schemas.parse_reference_path")
    tests = [n for n in ast.walk(prp.node) if isinstance(n, ast.If) and any(returns_error(r, set()) for r in n.body if isinstance(r, ast.stmt))]
    rep.require(tests, "rejection test in parse_reference_path")
    pl = Locals(prp.node)
    parsed = pl.one(lambda v: v.startswith("urlparse("), "assign")
    rep.require(parsed, "urlparse(...) result in parse_reference_path")
    atoms = {a.replace(f"{parsed}.", "parsed.") if a.startswith(f"{parsed}.") else a for a in bool_atoms(tests[0].test)}
    need = {"parsed.scheme", "parsed.path"}
    rep.check(need <= atoms and isinstance(tests[0].test, ast.BoolOp) and isinstance(tests[0].test.op, ast.Or), "R20.3",
              "parse_reference_path::rejects-scheme-and-path",
              f"the validator no longer rejects references with a {sorted(need - atoms)} component: `other.yaml#/components/schemas/X` is bound "
              "to the local component of the same name", where(prp, tests[0]), lhs=sorted(atoms), rhs=sorted(need))
    full = {"parsed.scheme", "parsed.netloc", "parsed.path", "parsed.params", "parsed.query"}
    rep.check(full <= atoms, "R20.3", "parse_reference_path::rejects-every-non-fragment-component",
              f"references with only a {sorted(full - atoms - need)} component (e.g. `//host#/components/schemas/X`, `?q#/components/schemas/X`) "
              "are accepted and bound to the local component", where(prp, tests[0]), lhs=sorted(atoms), rhs=sorted(full))
    rep.check(any(isinstance(r, ast.Return) and f"{parsed}.fragment" in norm(r) for r in ast.walk(prp.node)), "R20.3",
              "parse_reference_path::returns-fragment", "the validated path is not the fragment", where(prp, prp.node))
    # every `.ref` read in the parser goes through the validator (or the body chain, or is diagnostic text)
    n_ref = 0
    for f in ix.all_functions:
        if not f.module.name.startswith("openapi_python_client.parser"):
            continue
        for n in ast.walk(f.node):
            if isinstance(n, ast.Attribute) and n.attr == "ref" and isinstance(n.ctx, ast.Load):
                n_ref += 1
                par = _enclosing_call(f.node, n)
                kind = None
                if par is not None and call_name(par) == "parse_reference_path":
                    kind = "validated"
                elif par is not None and call_name(par).endswith("endswith"):
                    kind = "classification of an error already raised"
                elif f.name == "_resolve_reference":
                    kind = "request-body chain (name-keyed table, cycle guard R06.4)"
                elif _in_fstring_or_error(f.node, n):
                    kind = "diagnostic text"
                rep.check(kind is not None, "R20.3", f"{short(f)}::{norm(n)}", "a reference string is used without validation", where(f, n),
                          lhs=norm(par)[:60] if par is not None else None, rhs="parse_reference_path(...)")
    rep.floor("reference_reads", n_ref, 8)
    # lookup misses return errors
    for fname, key in (("properties._property_from_ref", "classes_by_reference.get("), ("schemas.parameter_from_reference", "classes_by_reference.get("),
                       ("responses.response_from_data", "responses.get(")):
        f = ix.func(fname)
        cfg = cfg_of(f, cfgs)
        errs = error_names(f.node)
        got = set(Locals(f.node).bound_from(lambda v, key=key: key in v, "assign"))
        # the looked-up value (any spelling) is tested for a miss and the miss returns an error
        ok = bool(got) and any(isinstance(s, ast.If) and any(norm(s.test) in (f"not {g}", f"{g} is None") for g in got) and
                               any(returns_error(r, errs) for r in ast.walk(s) if isinstance(r, ast.stmt)) for s in cfg.stmts())
        rep.check(ok, "R20.3", f"{short(f)}::lookup-miss-is-error", "a dangling reference does not produce an error value", where(f, f.node))

    # ---- R20.4 ---------------------------------------------------------------------------------------------------------------
    pfr = ix.func("properties._property_from_ref")
    ev = [c for c in ast.walk(pfr.node) if isinstance(c, ast.Call) and call_name(c).endswith("evolve")]
    rep.require(ev, "evolve in _property_from_ref")
    for c in ev:
        kws = {k.arg for k in c.keywords}
        registered = set(Locals(pfr.node).bound_from(lambda v: v.startswith("schemas.classes_by_reference.get("), "assign"))
        rep.check(norm(c.args[0]) in registered and kws <= {"required", "name", "python_name", "default"}, "R20.4",
                  "_property_from_ref::evolves-only-use-site-attributes",
                  f"a reference changes {sorted(kws - {'required', 'name', 'python_name', 'default'})} of the registered class: references "
                  "to one schema no longer share one class", where(pfr, c), lhs=sorted(kws), rhs="required, name, python_name, default")
    rep.check(bool([s for s in ast.walk(pfr.node) if isinstance(s, ast.Call) and call_name(s).endswith("add_dependencies")]), "R20.4",
              "_property_from_ref::records-dependency", "dependency not recorded", where(pfr, pfr.node))
    from .c08 import check_no_alias

    rep.rule("R20.5", "a failing reference affects nothing else: the dependency registry does not alias the caller's roots set")
    check_no_alias(rep, ctx, "R20.5")
    rep.not_decided += ["equality of generated code for inline versus referenced components"]
    return LEVEL


def _enclosing_call(fn: ast.AST, node: ast.AST) -> ast.Call | None:
    best = None
    for c in ast.walk(fn):
        if isinstance(c, ast.Call) and c is not node and any(x is node for a in list(c.args) + [k.value for k in c.keywords] + [c.func] for x in ast.walk(a)):
            best = c
    return best


def _in_fstring_or_error(fn: ast.AST, node: ast.AST) -> bool:
    for n in ast.walk(fn):
        if isinstance(n, ast.JoinedStr) and any(x is node for x in ast.walk(n)):
            return True
    return False
