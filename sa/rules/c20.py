"""C20 - using a component by reference is equivalent to writing it inline (resolver convergence).

Every rule is stated on roles and paths, not on today's shape of the code:
  * variables are found by what they are bound from (the loop over `data.parameters`, the result of the resolver, the result of
    `urlparse`, the value looked up in a component table), never by their spelling;
  * "the reference branch" is the set of statements that can only execute when the reference test holds (CFG with the edge into
    the other arm removed), so early return / nested if / inverted test with swapped arms are the same thing;
  * guards are evaluated as truth tables over their atoms (`any((a, b))` is `a or b`, a boolean local reads as its definition);
  * mechanisms are searched in the region (the function plus the private helpers it delegates to).
"""
from __future__ import annotations

import ast
import copy
import itertools
from typing import Any, Callable, Iterable

from ..astutil import (ERROR_CLASSES, ERROR_ONLY_HELPERS, Locals, bool_eval, call_name, calls_in, cfg_of, error_names, names_in, norm,
                       region, returns_error, role_anon, short, truth_table, where)
from ..cfg import CFG, ENTRY, EXIT, walk_own
from ..core import Report
from ..pyindex import FuncInfo, dotted
from .scenario import NONE, TooComplex, Walker, const, private_callees

LEVEL = ("resolver convergence only (output equality of two runs is not decided): for responses the statements that only run for a "
         "reference hand exactly one variable (the resolved component) to the shared code, which never asks again whether it was a "
         "reference; the raw parameter / request body flows only into its resolver (through helpers and generators of the region) and an error "
         "result leaves - returned, or yielded by a generator whose consumer returns it - before the shared code reads the component; the chain loop reads nothing that is a stale snapshot of a variable it advances; the "
         "field-by-field copy of a component parameter covers every attribute read downstream and hands on the component's own values (no "
         "dump / re-validation in between); the defaulted parameters of the schema descent are forwarded at every level; every reference string goes "
         "through parse_reference_path, on whose accepting paths every non-fragment URL component is empty; when the component is "
         "missing from its table every feasible path of the resolver that consulted the table leaves with an error value (scenario "
         "walker); a schema reference evolves only name/required/python_name/default and records the dependency; "
         "the reference discriminator of the document model decides by the presence of the `$ref` key, never by its value (truth table); "
         "the recursive walks over the reference registry / dependency graph have a ranking argument (shared with C06).")

URL_FIELDS = ("scheme", "netloc", "path", "params", "query", "fragment")  # field order of urllib.parse.ParseResult
USE_SITE_ATTRS = {"required", "name", "python_name", "default"}


def run(rep: Report, ctx: Any) -> str:
    ix = ctx.py
    cfgs: dict[str, CFG] = {}
    rep.rule("R20.1", "resolvers converge: the statements that only run for a reference hand over exactly the resolved variable to the "
                      "shared code (no other input of it is changed) and the shared code does not test for references again; the raw "
                      "parameter / request body is only ever passed to its resolver, whose error result leaves before the component is "
                      "read; chain-following loops read the current link, not a snapshot taken before the loop")
    rep.rule("R20.2", "parameter_from_data copies every Parameter attribute that is read downstream, each as the component's own attribute "
                      "value (or a value the caller gives), never rebuilt from a serialisation of the component")
    rep.rule("R20.3", "every .ref consumer validates through parse_reference_path (or follows a name-keyed component table with a "
                      "cycle guard); on every accepting path of the validator every non-fragment URL component is empty; when the "
                      "looked-up component is missing, every path of the resolver that consulted the table returns an error")
    rep.rule("R20.4", "one class per schema: a reference evolves only required/name/python_name/default of the registered object and "
                      "records the dependency")

    # ---- R20.1 responses ---------------------------------------------------------------------------------------------
    rfd = ix.func("responses.response_from_data")
    cfg = cfg_of(rfd, cfgs)
    subjects = {"data"} | _aliases(Locals(rfd.node), {"data"})
    branches = [(s, arm) for s in cfg.stmts() if isinstance(s, ast.If) for arm in _implied_arms(s.test, lambda a: _is_reference_test(a, subjects))]
    rep.require(branches, "reference test on `data` in response_from_data")
    ref_only = _only_via(cfg, branches)
    rep.require(ref_only, "statements that only run for a referenced response")
    after: set[object] = set()
    for s in ref_only:
        after |= {n for n in cfg.reachable_from(s) if isinstance(n, ast.stmt) and n not in ref_only}
    assigned = set().union(*[_stores(s) for s in ref_only])
    read_after = set().union(*[_loads(s) for s in after]) if after else set()
    handed = assigned & read_after
    # the variable through which the resolved response reaches the shared code: `data` itself, or a local that is bound to plain
    # `data` wherever it is bound outside the reference-only statements
    lc = Locals(rfd.node)
    carriers = {"data"} | {n for n, ds in lc.defs.items() if any(st not in ref_only for _, st, _ in ds) and
                           all(isinstance(v, ast.Name) and v.id == "data" for _, st, v in ds if st not in ref_only)}
    leak = sorted(handed - carriers)
    rep.check(bool(handed & carriers) and not leak, "R20.1", "response_from_data::reference-branch-rebinds-only-data",
              f"the reference branch also changes {leak}, which the shared code reads: a referenced response no longer takes the same path "
              "as an inline one (e.g. inline models get another name, later operations collide)" if leak else
              "the reference branch does not hand the resolved response to the shared code", where(rfd, branches[0][0]),
              lhs=sorted(handed), rhs="only the resolved response (`data`)")
    later = [n for s in after for n in walk_own(s) if _is_reference_test(n, subjects | (handed & carriers)) is not None]
    rep.check(not later, "R20.1", "response_from_data::no-later-reference-test", "code after the resolution still distinguishes references",
              where(rfd, later[0] if later else rfd.node))

    # ---- R20.1 parameters ------------------------------------------------------------------------------------------------
    ap = ix.func("Endpoint.add_parameters")
    pcls = ix.cls("Parameter")
    pfields = set(ix.all_fields(pcls))
    raw_reads: list[tuple[FuncInfo, ast.Name]] = []
    n_iter = 0
    ap_region = region(ix, ap)
    for g in ap_region:
        glc = Locals(g.node)
        for name, ds in glc.defs.items():
            for kind, st, v in ds:
                if kind == "for" and v is not None and _denotes_in(ap_region, g, v, glc, "data.parameters"):
                    n_iter += 1
                    if isinstance(st, ast.comprehension):
                        raw_reads += [(g, x) for x in _comprehension_reads(g.node, st, name)]
                    else:
                        raw_reads += [(g, x) for _, x in _reached_reads(cfg_of(g, cfgs), st, name)]
    rep.require(n_iter, "iteration over data.parameters in the region of add_parameters")
    not_resolved = [t for g, x in raw_reads for t in _unresolved_uses(ap_region, g, x, {"parameter_from_reference"})]
    # the resolver's result: tested for being an error on every path to a read of a Parameter attribute
    gate_ok, attr_reads, n_resolve, ungated = _gated_uses(ix, ap, cfgs, {"parameter_from_reference"}, pfields)
    rep.require(n_resolve, "statement binding the result of parameter_from_reference in the region of add_parameters")
    rep.check(bool(raw_reads) and not not_resolved and gate_ok, "R20.1", "Endpoint.add_parameters::resolves-then-rebinds",
              (f"the raw item of data.parameters is used without being resolved ({not_resolved}): " if not_resolved else "") +
              (f"attributes of the resolver's result are read on a path that does not leave on an error result ({ungated}): " if not gate_ok else "") +
              "a referenced parameter does not reach the shared code as the resolved component", where(ap, ap.node),
              lhs=not_resolved + ungated, rhs="raw item -> parameter_from_reference only; error result returns first")

    # ---- R20.1 request bodies ----------------------------------------------------------------------------------------------
    bfd = ix.func("bodies.body_from_data")
    chains: list[tuple[FuncInfo, ast.stmt]] = []
    for g in region(ix, bfd):
        for lp in ast.walk(g.node):
            if isinstance(lp, (ast.While, ast.For)) and any(_is_table(x, "request_bodies") for part in [*lp.body, *([lp.test] if isinstance(lp, ast.While) else [])]
                                                            for x in ast.walk(part)):
                chains.append((g, lp))
    rep.require(chains, "loop that follows request-body references through `request_bodies` in the region of body_from_data")
    stale_all: list[str] = []
    for g, lp in chains:
        stale_all += _stale_snapshot_reads(g.node, lp)
    rep.check(not stale_all, "R20.1", "_resolve_reference::tests-current-link",
              f"the chain loop reads {sorted(set(stale_all))}, computed before the loop from a variable the loop advances and never refreshed: only "
              "the first link is ever examined (longer chains are misreported)", where(chains[0][0], chains[0][1]),
              lhs=sorted(set(stale_all)), rhs="values derived from the link are recomputed inside the loop")
    chain_fns = {g for g, _ in chains}
    resolvers = {h.name for h in region(ix, bfd) if h is not bfd and any(c in region(ix, h) for c in chain_fns)}
    blc = Locals(bfd.node)
    raw_body = [n for n in ast.walk(bfd.node) if isinstance(n, ast.Attribute) and isinstance(n.ctx, ast.Load) and norm(n) == "data.request_body"]
    rep.require(raw_body, "read of data.request_body in body_from_data")
    unresolved: list[str] = []
    n_res = 0
    carried_here = set().union(*[_carried(lp) for g, lp in chains if g is bfd]) if bfd in chain_fns else set()
    for n in raw_body:
        call = _direct_arg_of(bfd.node, n)
        if _is_call_to(call, resolvers):
            n_res += 1
            continue
        bound = [(nm, st) for nm, ds in blc.defs.items() for k, st, v in ds if v is n and k == "assign"]
        if not bound:
            unresolved.append(norm(call or n)[:60])
        for nm, st in bound:
            for _, x in _reached_reads(cfg_of(bfd, cfgs), st, nm):
                if _is_call_to(_direct_arg_of(bfd.node, x), resolvers) or nm in carried_here:
                    n_res += 1
                else:
                    unresolved.append(norm(_direct_arg_of(bfd.node, x) or x)[:60])
    rep.check(n_res > 0 and not unresolved, "R20.1", "body_from_data::resolves-first",
              f"the request body is used without being resolved ({unresolved}): the shared code sees the reference itself", where(bfd, bfd.node),
              lhs=unresolved, rhs="data.request_body flows only into the chain resolver")

    # ---- R20.2 ----------------------------------------------------------------------------------------------------------
    # The copy registered for a component parameter must be, attribute by attribute, the component itself: every attribute the shared code
    # reads is present, and its value is the component's own attribute value - the same object the inline path would read - not something
    # rebuilt from it (a dump that is validated again decodes nested `$ref`s by field name, where the document model's reference
    # discriminator only knows the alias: the referenced parameter comes out typed differently from its inline twin).  The copy is read
    # however it is written: keywords, `**` of a dict literal / dict(...) / a local holding one, <Model>.model_validate(...),
    # <component>.model_copy(update=...).
    pfd = ix.func("schemas.parameter_from_data")
    copies: list[tuple[FuncInfo, ast.Call, dict[str, tuple[str, str]]]] = []   # attribute -> (how its value gets there, text)
    for g in region(ix, pfd):
        sources = {a.arg for a in g.params if a.annotation is not None and any(isinstance(x, (ast.Name, ast.Attribute)) and
                                                                              (dotted(x) or "").rsplit(".", 1)[-1] == "Parameter" for x in ast.walk(a.annotation))}
        glc = Locals(g.node)
        for c in calls_in(g.node):
            entries = _copy_entries(c, g, glc, sources, pfields)
            if entries is not None:
                copies.append((g, c, entries))
    rep.require(copies, "copy of the component parameter (Parameter(...), Parameter.model_validate(...), <component>.model_copy(...)) in parameter_from_data")
    copied = set().union(*[set(e) for _, _, e in copies])
    read = set(attr_reads)
    rep.check(read <= copied, "R20.2", "parameter_from_data::copies-what-is-read",
              f"attributes {sorted(read - copied)} of a parameter are read by add_parameters but not copied for component parameters", where(pfd, pfd.node),
              lhs=sorted(read), rhs=sorted(copied))
    changed = sorted({f"{a} <- {e[a][1][:60]}" for _, _, e in copies for a in read if a in e and e[a][0] not in ("own", "given")})
    unreadable = sorted({e[a][1][:60] for _, _, e in copies for a in e if e[a][0] == "unknown"})
    rep.require(not unreadable, f"a copy of the component parameter whose values can be read ({unreadable[:2]})")
    rep.check(not changed, "R20.2", "parameter_from_data::copies-values-unchanged",
              f"the copy registered for a component parameter does not hand on the component's own values ({changed[:3]}): what is rebuilt from a "
              "dump is validated again by field name and loses every nested `$ref` (the reference discriminator reads the alias), so the "
              "parameter used by reference is typed differently from the same parameter written inline", where(copies[0][0], copies[0][1]),
              lhs=changed, rhs="<attribute>=<component>.<attribute> (or a value the caller gives) for every attribute read downstream")
    rep.floor("parameter_attributes_read", len(read), 2)

    # ---- R20.3 -------------------------------------------------------------------------------------------------------------
    prp = ix.func("schemas.parse_reference_path")
    pl = Locals(prp.node)
    fields_of: dict[str, str] = {}  # local name -> the URL component it holds (tuple-unpacked urlparse result)
    parsed_names: set[str] = set()
    for name, ds in pl.defs.items():
        for kind, _, v in ds:
            if v is not None and isinstance(v, ast.Call) and call_name(v).rsplit(".", 1)[-1] in ("urlparse", "urlsplit"):
                if kind == "assign":
                    parsed_names.add(name)
                elif kind.startswith("assign[") and kind[7:-1].isdigit() and int(kind[7:-1]) < len(URL_FIELDS):
                    fields_of[name] = URL_FIELDS[int(kind[7:-1])]
    rep.require(parsed_names or fields_of or any(call_name(c).rsplit(".", 1)[-1] in ("urlparse", "urlsplit") for c in calls_in(prp.node)),
                "urlparse(...) result in parse_reference_path")
    expand = _Expander(pl, parsed_names, fields_of)
    paths: list[tuple[list[tuple[ast.expr, bool]], ast.expr | None, ast.Return]] = []
    _return_paths(prp.node.body, [], paths, expand)
    errs = error_names(prp.node)
    accepting = [(cond, val, r) for cond, val, r in paths if not _is_error_value(val, errs)]
    rep.require(accepting, "accepting (non-error) return in parse_reference_path")
    rep.require(len(accepting) < len(paths), "rejection (error return) in parse_reference_path")
    may_be_set: set[str] = set()
    opaque: set[str] = set()
    for cond, _, _ in accepting:
        ms, op = _possibly_true(cond, [f"parsed.{f}" for f in URL_FIELDS[:5]])
        may_be_set |= ms
        opaque |= op
    need = {"parsed.scheme", "parsed.path"}
    full = {f"parsed.{f}" for f in URL_FIELDS[:5]}
    # a guard whose atoms this rule cannot read (not a URL component of the parsed reference) is not a verdict
    rep.require(not (may_be_set and opaque), f"decidable rejection condition in parse_reference_path (unreadable atoms {sorted(opaque)[:4]})")
    rep.check(not (need & may_be_set), "R20.3", "parse_reference_path::rejects-scheme-and-path",
              f"the validator no longer rejects references with a {sorted(need & may_be_set)} component: `other.yaml#/components/schemas/X` is bound "
              "to the local component of the same name", where(prp, accepting[0][2]), lhs=sorted(full - may_be_set), rhs=sorted(need))
    rep.check(not (full & may_be_set), "R20.3", "parse_reference_path::rejects-every-non-fragment-component",
              f"references with only a {sorted((full & may_be_set) - need)} component (e.g. `//host#/components/schemas/X`, `?q#/components/schemas/X`) "
              "are accepted and bound to the local component", where(prp, accepting[0][2]), lhs=sorted(full - may_be_set), rhs=sorted(full))
    rep.check(all(val is not None and "parsed.fragment" in {norm(x) for x in ast.walk(expand(val))} for _, val, _ in accepting), "R20.3",
              "parse_reference_path::returns-fragment", "the validated path is not the fragment", where(prp, prp.node))
    # every `.ref` read in the parser goes through the validator (or the body chain, or is diagnostic text)
    n_ref = 0
    for f in ix.all_functions:
        if not f.module.name.startswith("openapi_python_client.parser"):
            continue
        for n in ast.walk(f.node):
            if isinstance(n, ast.Attribute) and n.attr == "ref" and isinstance(n.ctx, ast.Load):
                n_ref += 1
                par = _enclosing_call(f.node, n)
                kind = None
                if par is not None and call_name(par).rsplit(".", 1)[-1] == "parse_reference_path":
                    kind = "validated"
                elif par is not None and isinstance(par.func, ast.Attribute) and par.func.attr == "endswith" and par.func.value is n:
                    kind = "classification of an error already raised"
                    suffix = par.args[0] if par.args else None
                    rep.check(suffix is not None and _anchored_suffix(suffix, f, Locals(f.node)), "R20.3", f"{short(f)}::{role_anon(n, f.node)}::suffix-anchored",
                              "a reference string is matched against a bare name suffix: a reference to a component whose name merely ends "
                              "with that name is taken for it (a valid reference is reported as circular)", where(f, par),
                              lhs=norm(suffix)[:60] if suffix is not None else None, rhs="suffix starting with '/' or a validated reference path")
                elif f in chain_fns:
                    kind = "request-body chain (name-keyed table, cycle guard R06.4)"
                elif _in_diagnostic(f.node, n):
                    kind = "diagnostic text"
                rep.check(kind is not None, "R20.3", f"{short(f)}::{role_anon(n, f.node)}", "a reference string is used without validation", where(f, n),
                          lhs=norm(par)[:60] if par is not None else None, rhs="parse_reference_path(...)")
    rep.floor("reference_reads", n_ref, 8)
    # lookup misses return errors - stated on paths (scenario walker): in the scenario "the component is not in the table"
    # (`<table>.get(...)` yields its default, `<key> in <table>` is false, `<table>[...]` raises KeyError) every path of the resolver
    # - private helpers walked with their arguments - that has consulted the table leaves with an error value (or an explicit raise).
    # Whether the miss returns at once, sets a message that one hoisted test turns into the error, or is reported by a helper whose
    # result the caller passes on, is the same path.
    for fname, table in (("properties._property_from_ref", "classes_by_reference"), ("schemas.parameter_from_reference", "classes_by_reference"),
                         ("responses.response_from_data", "responses")):
        f = ix.func(fname)
        helpers = private_callees(ix, f)
        rep.require(any(_is_lookup(n, table) for g in [f, *helpers] for n in ast.walk(g.node)), f"lookup in `{table}` in the region of {fname}")

        def membership(e: ast.AST, table: str = table) -> bool:
            return isinstance(e, ast.Compare) and len(e.ops) == 1 and isinstance(e.ops[0], (ast.In, ast.NotIn)) and _is_table(e.comparators[0], table)

        def miss(e: ast.AST, st: Any, w: Any, table: str = table) -> Any:
            if isinstance(e, ast.Call) and _is_lookup(e, table):
                return w.peek(e.args[1], st) if len(e.args) > 1 else NONE
            if membership(e):
                return const(isinstance(e.ops[0], ast.NotIn))
            return None

        try:
            outs = Walker(f, axiom=miss, raises=lambda e, table=table: "KeyError" if isinstance(e, ast.Subscript) and _is_lookup(e, table) else None,
                          event=lambda e, st, w, table=table: "consulted" if _is_lookup(e, table) or membership(e) else None, inline=helpers).run()
        except TooComplex as e:
            rep.require(False, f"paths of {fname} few enough to follow ({e})")
        after = [o for o in outs if ("consulted" in o.flags or "raised" in o.flags) and o.final]
        rep.require(after, f"path of {fname} that consults `{table}`")
        no_error = [o for o in after if not (o.kind == "raise" or (o.kind == "return" and o.value.is_error()))]
        rep.check(not no_error, "R20.3", f"{short(f)}::lookup-miss-is-error", "a dangling reference does not produce an error value", where(f, f.node),
                  lhs=[f"{'KeyError escapes' if o.kind == 'uncaught' else 'returns a non-error value'} at line {getattr(o.node, 'lineno', '?')}" for o in no_error][:4],
                  rhs="every path that has found the component missing returns an error")

    # ---- R20.4 ---------------------------------------------------------------------------------------------------------------
    pfr = ix.func("properties._property_from_ref")
    n_ev = 0
    dep_sites: list[tuple[FuncInfo, ast.Call]] = []
    for g in region(ix, pfr):
        registered = {nm for nm, ds in Locals(g.node).defs.items() for k, _, v in ds
                      if k == "assign" and v is not None and any(_is_lookup(x, "classes_by_reference") for x in ast.walk(v))}
        for c in calls_in(g.node):
            last = call_name(c).rsplit(".", 1)[-1]
            if last == "add_dependencies":
                dep_sites.append((g, c))
            if last == "evolve" and c.args and isinstance(c.args[0], ast.Name) and c.args[0].id in registered:
                n_ev += 1
                kws = {k.arg for k in c.keywords}
                rep.check(None not in kws and kws <= USE_SITE_ATTRS, "R20.4", "_property_from_ref::evolves-only-use-site-attributes",
                          f"a reference changes {sorted(str(k) for k in kws - USE_SITE_ATTRS)} of the registered class: references "
                          "to one schema no longer share one class", where(g, c), lhs=sorted(str(k) for k in kws), rhs="required, name, python_name, default")
    rep.require(n_ev, "evolve of the registered class in the region of _property_from_ref")
    # every path of _property_from_ref that returns a property (not an error) records the dependency
    pcfg = cfg_of(pfr, cfgs)
    perrs = error_names(pfr.node)
    dep_helpers = {g.name for g, _ in dep_sites if g is not pfr}
    records = lambda s: isinstance(s, ast.stmt) and any(call_name(c).rsplit(".", 1)[-1] in ({"add_dependencies"} | dep_helpers) for c in _own_calls(s))  # noqa: E731
    good_returns = [s for s in pcfg.stmts() if isinstance(s, ast.Return) and not returns_error(s, perrs)]
    unrecorded = [s for s in good_returns if not records(s) and not pcfg.every_path_passes(ENTRY, s, records)]
    rep.check(bool(dep_sites) and bool(good_returns) and not unrecorded, "R20.4", "_property_from_ref::records-dependency",
              "a path returns the referenced class without recording the dependency", where(pfr, unrecorded[0] if unrecorded else pfr.node))
    # ---- R20.6 -------------------------------------------------------------------------------------------------------------
    rep.rule("R20.6", "a referenced schema counts as processed however few members it has: no error is decided by the truth value of a "
                      "lazily filled container field (None = not processed yet, empty = processed and empty)")
    in_parser = [f for f in ix.all_functions if f.module.name.startswith("openapi_python_client.parser")]
    late_set = {c.args[1].value for f in in_parser for c in calls_in(f.node) if call_name(c) in ("object.__setattr__", "setattr") and len(c.args) == 3
                and isinstance(c.args[1], ast.Constant) and isinstance(c.args[1].value, str)}
    lazy = {fld for c in ix.classes.values() if c.module.name.startswith("openapi_python_client.parser") for fld, ann in c.fields.items()
            if fld in late_set and ann is not None and _optional_container(ann)}
    rep.floor("lazily_filled_container_fields", len(lazy), 2)
    n_dec = 0
    for f in in_parser:
        tests = [s_ for s_ in ast.walk(f.node) if isinstance(s_, ast.If) and any(isinstance(x, ast.Attribute) and x.attr in lazy for x in ast.walk(s_.test))]
        if not tests:
            continue
        fcfg = cfg_of(f, cfgs)
        ferrs = error_names(f.node)
        for s_ in tests:
            if s_ not in fcfg.succ:
                continue  # nested function: analysed as its own function
            n_dec += 1
            by_truth = [a for a in _atom_nodes(s_.test) if _truth_of_field(a, lazy)]
            decides_error = bool(by_truth) and any(_arm_ends_in_error(fcfg, s_, arm, ferrs) for arm in ("body", "orelse"))
            rep.check(not decides_error, "R20.6", f"{short(f)}::decision[{','.join(sorted({x.attr for x in ast.walk(s_.test) if isinstance(x, ast.Attribute) and x.attr in lazy}))}]",
                      f"an error is decided by the truth value of {[norm(a) for a in by_truth]}: a processed schema without members of its own "
                      "(both lists empty) is treated as not processed, so everything that refers to it fails although the inline twin works",
                      where(f, s_), lhs=norm(s_.test)[:80], rhs="`is None` / isinstance(..., list) on the lazily filled field")
    # (a predicate helper that merely returns such a test is a decision site, too; it is counted, its callers are not followed)
    n_dec += sum(1 for f in in_parser for r in ast.walk(f.node) if isinstance(r, ast.Return) and isinstance(r.value, (ast.BoolOp, ast.UnaryOp, ast.Compare, ast.Call))
                 and any(isinstance(x, ast.Attribute) and x.attr in lazy for x in ast.walk(r.value)))
    rep.floor("lazy_field_decisions", n_dec, 1)

    # ---- R20.7 -------------------------------------------------------------------------------------------------------------
    rep.rule("R20.7", "the document model decodes every position that may hold a reference through the discriminated ReferenceOr union: "
                      "the class Reference occurs in a field type only inside an Annotated[...] that carries a Discriminator")
    n_pos = 0
    doc_model = [m for m in ix.modules.values() if m.name.startswith("openapi_python_client.schema")]
    ref_types = {"Reference", "ReferenceOr"}  # ... and the module-level aliases built from them (`Responses = dict[str, ReferenceOr[Response]]`)
    grown = True
    while grown:
        grown = False
        for m in doc_model:
            for owner, target, ann in _type_positions(m.tree):
                if owner == "" and target not in ref_types and ref_types & {nm for nm, _ in _type_names(ann)}:
                    ref_types.add(target)
                    grown = True
    for m in doc_model:
        for owner, target, ann in _type_positions(m.tree):
            mentions = _type_names(ann)
            if not (ref_types & {nm for nm, _ in mentions}):
                continue
            n_pos += 1
            bare = [nm for nm, discriminated in mentions if nm == "Reference" and not discriminated]
            rep.check(not bare, "R20.7", f"{m.name.replace('openapi_python_client.', '')}.{owner}{target}::reference-through-discriminator",
                      "a position that may hold a reference is declared as a plain union with Reference: pydantic's smart matching can decode "
                      "a `$ref` with sibling keys as the other member, and the reference is lost without a diagnostic", f"{m.rel}:{getattr(ann, 'lineno', 0)}",
                      lhs=norm(ann)[:80], rhs="ReferenceOr[...]")
    rep.floor("reference_positions_in_document_model", n_pos, 15)

    # ---- R20.8 -------------------------------------------------------------------------------------------------------------
    # The schema descent threads two things through every level that decide how references inside a schema are treated: whether the
    # properties of models are resolved now or in the later pass in which every reference exists, and the roots a dependency is recorded
    # for.  Both have a default in the entry point's signature, so leaving one out of a nested call is silent: the callee falls back to
    # the default and a component reached through that level is processed in the wrong phase (its references cannot be resolved yet)
    # or records its dependencies for nobody - while the inline twin, built in another phase, works.  The slots are read off the entry
    # point (its parameters that have a default); every parser function that has one of them and calls a parser function that accepts
    # it must hand on its own value (as it is, or inside a value derived from it).
    rep.rule("R20.8", "the defaulted parameters of the schema descent (those of property_from_data: the processing phase, the dependency "
                      "roots) are forwarded: a parser function that has one and calls a parser function accepting it passes its own value")
    entry = ix.func("properties.property_from_data")
    ea = entry.node.args
    epos = [*ea.posonlyargs, *ea.args]
    threaded = [a.arg for a in epos[len(epos) - len(ea.defaults):]] + [a.arg for a, d in zip(ea.kwonlyargs, ea.kw_defaults) if d is not None]
    rep.require(threaded, "parameters of property_from_data that have a default")
    in_parser = [f for f in ix.all_functions if f.module.name.startswith("openapi_python_client.parser")]
    forwards: dict[tuple[str, str, str], list[tuple[bool, ast.Call, FuncInfo]]] = {}
    for f in in_parser:
        mine = {a.arg for a in f.params} & set(threaded)
        if not mine:
            continue
        flc = Locals(f.node)
        for c in calls_in(f.node):
            g = _callee(ix, f, c, in_parser)
            if g is None:
                continue
            passed = _passed(c, g, flc)
            if passed is None:
                continue      # an opaque **mapping: what it passes cannot be read
            for prm in sorted(mine & {a.arg for a in g.params}):
                v = passed.get(prm)
                carried = v is not None and prm in _names_behind(v, flc)
                forwards.setdefault((short(f), short(g), prm), []).append((carried, c, f))
    for (caller, callee, prm), sites in sorted(forwards.items()):
        lost = [(c, f) for ok, c, f in sites if not ok]
        rep.check(not lost, "R20.8", f"{caller}->{callee}::{prm}", f"{caller} does not hand its `{prm}` on to {callee}: the callee falls back to "
                  "its default, so a schema reached through this level is processed in another phase / records its dependencies for other "
                  "roots than the same schema written inline", where(lost[0][1], lost[0][0]) if lost else "", lhs=[norm(c)[:80] for c, _ in lost],
                  rhs=f"{prm}=<the caller's {prm}>")
    rep.floor("descent_parameters_forwarded", len(forwards), 7)

    # ---- R20.10 ------------------------------------------------------------------------------------------------------------
    # R20.7 makes every position decode through the discriminated union; which member a raw object becomes is then decided by the
    # discriminator function alone.  "All malformed reference strings" must still be references (so that the item that uses them gets
    # the diagnostic): a mapping that HAS the key `$ref` is a Reference whatever is stored under it - empty, null, not a string - and
    # whatever else the mapping holds.  Decided as a truth table over the atoms of the discriminator's tests: with "is a mapping" and
    # "has the key" true and every atom that depends on the VALUE under the key (`.get("$ref")`, `[\"$ref\"]`) free, every path that can
    # be taken returns the tag attached to Reference; likewise an object that already is a Reference instance.  Atoms the rule cannot read
    # make the verdict an analysis error, not a finding.
    rep.rule("R20.10", "the reference discriminator of the document model decides by the PRESENCE of the `$ref` key (and by being a "
                       "Reference instance), never by the value stored under it: under every assignment of its value-dependent atoms a "
                       "mapping that has the key gets the tag of Reference")
    n_disc = 0
    for m in doc_model:
        for ann in [n for n in ast.walk(m.tree) if isinstance(n, ast.Subscript) and (dotted(n.value) or "").rsplit(".", 1)[-1] == "Annotated"]:
            parts = list(ann.slice.elts) if isinstance(ann.slice, ast.Tuple) else [ann.slice]
            discs = [c for x in parts[1:] for c in ast.walk(x) if isinstance(c, ast.Call) and call_name(c).rsplit(".", 1)[-1] == "Discriminator"]
            if not discs or "Reference" not in {nm for nm, _ in _type_names(parts[0])}:
                continue
            ref_tags = {c.args[0].value for inner in ast.walk(parts[0]) if isinstance(inner, ast.Subscript) and
                        (dotted(inner.value) or "").rsplit(".", 1)[-1] == "Annotated" and isinstance(inner.slice, ast.Tuple) and
                        (dotted(inner.slice.elts[0]) or "").rsplit(".", 1)[-1] == "Reference"
                        for x in inner.slice.elts[1:] for c in ast.walk(x)
                        if isinstance(c, ast.Call) and call_name(c).rsplit(".", 1)[-1] == "Tag" and c.args and isinstance(c.args[0], ast.Constant)}
            for d in discs:
                fn_name = dotted(d.args[0]) if d.args else None
                if fn_name is None or fn_name not in m.functions:
                    continue        # a field-name discriminator (string) does not inspect raw objects
                n_disc += 1
                rep.require(len(ref_tags) == 1, f"the tag attached to Reference in the union discriminated by {fn_name}")
                verdict = _discriminates_by_presence(m.functions[fn_name], next(iter(ref_tags)))
                rep.require(verdict is not None and verdict[0] != "unreadable",
                            f"tests of {fn_name} readable as presence of / value under the `$ref` key ({verdict[1] if verdict else 'no tagged return'})")
                rep.check(verdict[0] == "ok", "R20.10", f"{m.name.replace('openapi_python_client.', '')}.{fn_name}::reference-by-key-presence",
                          f"an object that has the `$ref` key (or is a Reference) is not always decoded as a Reference ({verdict[1]}): a "
                          "malformed reference (empty / null / non-string value) becomes the other member - a silent Any in a schema "
                          "position, a validation failure of the whole document elsewhere - instead of a diagnostic for the item that uses it",
                          where(m.functions[fn_name], m.functions[fn_name].node), lhs=verdict[1], rhs=f"returns {next(iter(ref_tags))!r} whenever the key is present")
    rep.floor("reference_discriminators", n_disc, 1)

    # ---- R20.13 ------------------------------------------------------------------------------------------------------------
    # (statement and value flow: c20_positions.py)  While the document is validated no reference is resolved: code of the document model
    # that looks inside one member of a position declared ReferenceOr[...] acts on inline members only, so whatever it decides or
    # changes separates a component written inline from the same component used through `$ref`.
    from .c20_positions import Positions

    rep.rule("R20.13", "the document model treats a position that may hold a reference as a whole: no code that runs while the document "
                       "is validated (validators of the document classes, their helpers, functions named in Annotated validators, "
                       "methods of the document classes - followed through locals, copies, views, loops, comprehensions, lambdas, "
                       "parameters and results of the functions they are handed to) reads an attribute of, asks for the class of, "
                       "subscripts or stores into one member of a field whose declared type mentions Reference / ReferenceOr - a "
                       "reference is not resolved there, so only members written inline would be affected")
    pos = Positions(ix, ctx.flow[0], doc_model)
    pos.run()
    for origin in sorted(pos.read | set(pos.inspections)):
        sites = sorted(pos.inspections.get(origin, ()))
        rep.check(not sites, "R20.13", f"{origin}::members-not-inspected",
                  f"the document model looks inside the members of `{origin}` while the document is validated ({[t for _, t in sites][:3]}): a "
                  "member that is a reference cannot be looked into there, so what is decided or changed applies only to components written "
                  "inline - the same component used through `$ref` generates other code than its inline twin",
                  where=sites[0][0] if sites else "", lhs=[f"{w}: {t}" for w, t in sites[:4]], rhs="members are only looked into after the parser has resolved them")
    rep.floor("reference_positions_handled_by_the_document_model", len(pos.read | set(pos.inspections)), 2)
    rep.floor("reference_fields_of_document_classes", sum(len(v) for v in pos.ref_fields.values()), 15)

    # ---- R20.11 ------------------------------------------------------------------------------------------------------------
    # "A circular reference ... affects nothing else": the walks over the reference registry and the dependency graph (class lookup
    # through references, propagation of a removal to the dependants) run on graphs the document can make cyclic, so every recursive
    # cycle of the call graph that reads those registries needs a ranking argument (a visited mark made BEFORE the recursion, structural
    # descent, ...).  C06 decides exactly this for every recursive cycle (R06.4); it is claimed here, under C20's id and with C06's
    # construct keys, for the cycles that walk the reference graph.
    from .c06 import _cycle_pattern, _sccs

    rep.rule("R20.11", "every recursive cycle of the parser that reads the reference registry (`classes_by_reference`) or the dependency "
                       "graph (`dependencies`) terminates on cyclic reference graphs: it has one of the ranking arguments of C06's R06.4 "
                       "(structural descent | fresh element | removal before recursing | growing bounded set | progress rounds)")
    it, _ = ctx.flow
    edges = {a: {b for b in bs if b in it.func_by_qual} for a, bs in it.call_edges.items()}
    rec = [sorted(c) for c in _sccs(edges) if len(c) > 1 or next(iter(c)) in edges.get(next(iter(c)), ())]
    n_walks = 0
    for comp in sorted(rec):
        if not any(isinstance(n, ast.Attribute) and n.attr in ("classes_by_reference", "dependencies") for q in comp for n in ast.walk(it.func_by_qual[q].node)):
            continue
        n_walks += 1
        names = [q.replace("openapi_python_client.", "") for q in comp]
        pat, why = _cycle_pattern(ix, it, comp, edges)
        rep.check(pat is not None, "R20.11", "cycle{" + ",".join(n.rsplit(".", 1)[-1] for n in names)[:120] + "}",
                  f"the recursive walk {names[:4]} over the reference graph has no ranking argument ({why}): on a cyclic reference / "
                  "dependency graph it does not terminate, so a circular (or failing, recursive) reference takes the whole run down "
                  "instead of producing a diagnostic for the items involved", where="", lhs=names[:6],
                  rhs="structural | fresh element | removal before recursing | growing bounded set | progress rounds")
    rep.floor("recursive_walks_over_reference_graph", n_walks, 1)

    from .c08 import check_no_alias

    # a retried reference must find the registries as they were before the failed attempt: stated once for C08 / C12 / C20 (inplace.py)
    from . import inplace

    inplace.check(rep, ctx, "R20.9")
    rep.rule("R20.5", "a failing reference affects nothing else: the dependency registry does not alias the caller's roots set")
    check_no_alias(rep, ctx, "R20.5")

    # ---- R20.12 ------------------------------------------------------------------------------------------------------------
    # A component used through a reference is ONE object of the parsed document, handed to the builders again at every point of use;
    # its inline twin is a fresh object at every point of use, built once.  The two can only agree if no visit leaves a trace in the
    # document: whatever a builder stores into a document object (or into a container one holds, through any alias) is seen by the next
    # use of the component and by no inline twin.  This is C12's R12.5 (the document is read-only outside the schema package), decided
    # there for every function that reads the document; it is claimed here under C20's id, with C12's construct keys.
    from .c12 import _document_read_only

    rep.rule("R20.12", "a shared component is parsed at every use, its inline twin once: the parsed document is read-only outside the "
                       "schema package (no store into an attribute of a document object, no store into / mutating call on / hand-over to a "
                       "writing function of a container that may be held by one, through locals, `or` / conditional arms, views, helpers' "
                       "results - unless the function created the object itself); decided by C12's R12.5, same construct keys")
    _document_read_only(_UnderRule(rep, "R12.5", "R20.12"), ctx)
    rep.not_decided += ["equality of generated code for inline versus referenced components"]
    return LEVEL


class _UnderRule:
    """A report that files what a rule shared with another property decides under this property's rule id (same construct keys)."""

    def __init__(self, rep: Report, theirs: str, ours: str):
        self._rep, self._theirs, self._ours = rep, theirs, ours

    def _id(self, rid: str) -> str:
        return rid.replace(self._theirs, self._ours)

    def __getattr__(self, name: str) -> Any:
        return getattr(self._rep, name)

    def rule(self, rid: str, text: str) -> None:
        self._rep.rule(self._id(rid), text)

    def ok(self, rule: str, *a: Any, **k: Any) -> None:
        self._rep.ok(self._id(rule), *a, **k)

    def fail(self, rule: str, *a: Any, **k: Any) -> None:
        self._rep.fail(self._id(rule), *a, **k)

    def check(self, cond: bool, rule: str, *a: Any, **k: Any) -> bool:
        return self._rep.check(cond, self._id(rule), *a, **k)

    def control(self, name: str, fired: bool) -> None:
        self._rep.control(self._id(name), fired)


# ---- statements, names ----------------------------------------------------------------------------------------------------

def _stores(st: object) -> set[str]:
    """names (re)bound by the statement itself"""
    if not isinstance(st, ast.stmt):
        return set()
    out = {n.id for n in walk_own(st) if isinstance(n, ast.Name) and isinstance(n.ctx, (ast.Store, ast.Del))}
    if isinstance(st, (ast.With, ast.AsyncWith)):
        out |= {n.id for i in st.items if i.optional_vars is not None for n in ast.walk(i.optional_vars) if isinstance(n, ast.Name)}
    if isinstance(st, ast.ExceptHandler) and st.name:
        out.add(st.name)
    return out


def _loads(st: object) -> set[str]:
    return {n.id for n in walk_own(st) if isinstance(n, ast.Name) and isinstance(n.ctx, ast.Load)} if isinstance(st, ast.stmt) else set()


def _own_calls(st: ast.stmt) -> Iterable[ast.Call]:
    return [n for n in walk_own(st) if isinstance(n, ast.Call)]


def _aliases(lc: Locals, roots: set[str]) -> set[str]:
    """locals every binding of which is a plain copy of one of `roots` (transitively)"""
    out: set[str] = set()
    changed = True
    while changed:
        changed = False
        for n, ds in lc.defs.items():
            if n not in out and n not in roots and ds and all(k == "assign" and isinstance(v, ast.Name) and v.id in roots | out for k, _, v in ds):
                out.add(n)
                changed = True
    return out


def _denotes(e: ast.AST, lc: Locals, text: str, depth: int = 0) -> bool:
    """the expression is `text`, or a local every binding of which is (wrappers such as list()/tuple()/sorted() aside are not followed)"""
    if norm(e) == text:
        return True
    if isinstance(e, ast.Name) and depth < 3:
        vs = lc.values_of(e.id)
        return bool(vs) and all(k == "assign" for k, _, _ in lc.defs[e.id]) and all(_denotes(v, lc, text, depth + 1) for v in vs)
    return False


def _denotes_in(reg: "list[FuncInfo]", g: FuncInfo, e: ast.AST, lc: Locals, text: str, depth: int = 0) -> bool:
    """_denotes, followed through the parameters of the region's helpers: inside a helper the expression may be a parameter that every
    call of the helper in the region binds to `text` (the root of the region reads `text` itself)"""
    if norm(e) == text and g is reg[0]:
        return True
    if not isinstance(e, ast.Name) or depth > 3:
        return False
    if e.id in lc.defs:
        vs = lc.values_of(e.id)
        return bool(vs) and all(k == "assign" for k, _, _ in lc.defs[e.id]) and all(_denotes_in(reg, g, v, lc, text, depth + 1) for v in vs)
    if e.id not in {a.arg for a in g.params} or g is reg[0]:
        return False
    sites = [(h, c) for h in reg if h is not g for c in calls_in(h.node) if call_name(c).rsplit(".", 1)[-1] == g.name]
    handed = []
    for h, c in sites:
        hlc = Locals(h.node)
        passed = _passed(c, g, hlc)
        v = passed.get(e.id) if passed is not None else None
        handed.append(v is not None and _denotes_in(reg, h, v, hlc, text, depth + 1))
    return bool(handed) and all(handed)


def _unresolved_uses(reg: "list[FuncInfo]", g: FuncInfo, x: ast.Name, resolvers: set[str], depth: int = 0) -> list[str]:
    """what a read of the raw (possibly referenced) item is used for other than being resolved: nothing when it is directly an argument
    of a resolver, or of a helper of the region in which the parameter it is bound to is, in turn, only ever resolved"""
    call = _direct_arg_of(g.node, x)
    if _is_call_to(call, resolvers):
        return []
    if call is not None and depth < 3:
        for h in reg:
            if h is g or call_name(call).rsplit(".", 1)[-1] != h.name:
                continue
            passed = _passed(call, h, Locals(g.node))
            prm = next((k for k, v in (passed or {}).items() if v is x), None)
            if prm is None or prm in {n.id for n in ast.walk(h.node) if isinstance(n, ast.Name) and isinstance(n.ctx, ast.Store)}:
                break
            reads = [n for n in ast.walk(h.node) if isinstance(n, ast.Name) and n.id == prm and isinstance(n.ctx, ast.Load)]
            return [t for n in reads for t in _unresolved_uses(reg, h, n, resolvers, depth + 1)] if reads else []
    return [norm(call or x)[:60]]


def _direct_arg_of(fn: ast.AST, node: ast.AST) -> ast.Call | None:
    """the call of which `node` is directly an argument"""
    for c in calls_in(fn):
        if any(a is node for a in c.args) or any(k.value is node for k in c.keywords):
            return c
    return None


def _is_call_to(c: ast.Call | None, names: set[str]) -> bool:
    return c is not None and call_name(c).rsplit(".", 1)[-1] in names


def _enclosing_call(fn: ast.AST, node: ast.AST) -> ast.Call | None:
    best = None
    for c in ast.walk(fn):
        if isinstance(c, ast.Call) and c is not node and any(x is node for a in list(c.args) + [k.value for k in c.keywords] + [c.func] for x in ast.walk(a)):
            best = c
    return best


def _in_diagnostic(fn: ast.AST, node: ast.AST) -> bool:
    """inside an f-string or inside the construction of an error value"""
    for n in ast.walk(fn):
        if isinstance(n, ast.JoinedStr) and any(x is node for x in ast.walk(n)):
            return True
        if isinstance(n, ast.Call) and call_name(n).rsplit(".", 1)[-1] in (ERROR_CLASSES | ERROR_ONLY_HELPERS) and any(x is node for x in ast.walk(n)):
            return True
    return False


# ---- guards as truth tables ---------------------------------------------------------------------------------------------------

def _atom_nodes(e: ast.expr) -> Iterable[ast.expr]:
    if isinstance(e, ast.BoolOp):
        for v in e.values:
            yield from _atom_nodes(v)
    elif isinstance(e, ast.UnaryOp) and isinstance(e.op, ast.Not):
        yield from _atom_nodes(e.operand)
    else:
        yield e


def _implied_arms(test: ast.expr, literal: Callable[[ast.expr], bool | None]) -> set[str]:
    """arms ('body' / 'orelse') of an `if test` on which the fact of interest is certain.  `literal(atom)` is the truth value of the
    atom under which the fact holds (None: the atom says nothing about it); the fact is certain on an arm when, in every row of the
    truth table that selects the arm, one of these atoms has that value."""
    lits: dict[str, bool] = {}
    for a in _atom_nodes(test):
        v = literal(a)
        if v is not None:
            lits[norm(a)] = v
    if not lits:
        return set()
    rows = list(truth_table(test))
    out = set()
    for arm, val in (("body", True), ("orelse", False)):
        sel = [env for env, r in rows if r is val]
        if sel and all(any(env[a] is pol for a, pol in lits.items()) for env in sel):
            out.add(arm)
    return out


def _isinstance_of(a: ast.AST, subjects: set[str], cls_ok: Callable[[str], bool]) -> bool:
    if not (isinstance(a, ast.Call) and call_name(a) == "isinstance" and len(a.args) == 2 and isinstance(a.args[0], ast.Name) and a.args[0].id in subjects):
        return False
    ks = a.args[1].elts if isinstance(a.args[1], ast.Tuple) else [a.args[1]]
    return bool(ks) and all(cls_ok((dotted(k) or "").rsplit(".", 1)[-1]) for k in ks)


def _is_reference_test(a: ast.AST, subjects: set[str]) -> bool | None:
    return True if _isinstance_of(a, subjects, lambda k: k == "Reference") else None


def _is_error_test(a: ast.AST, subjects: set[str]) -> bool | None:
    return True if _isinstance_of(a, subjects, lambda k: k in ERROR_CLASSES) else None


def _arm_edges(cfg: CFG, ifn: ast.If, arm: str) -> set[tuple[int, int]]:
    """CFG edges that enter the given arm of the if (for an absent `else`: the fall-through edge of the test)"""
    stmts = getattr(ifn, arm)
    if stmts:
        return {(id(ifn), id(stmts[0]))}
    other = ifn.body if arm == "orelse" else ifn.orelse
    return {(id(ifn), id(s)) for s in cfg.succ.get(ifn, ()) if not (other and s is other[0])}


def _reach(cfg: CFG, starts: Iterable[object], cut: set[tuple[int, int]] = frozenset(), stop: Callable[[object], bool] | None = None) -> set[object]:
    """nodes reachable from `starts` (inclusive) without using a `cut` edge and without continuing past a `stop` node"""
    seen = set(starts)
    stack = list(seen)
    while stack:
        n = stack.pop()
        if stop is not None and stop(n):
            continue
        for s in cfg.succ.get(n, ()):
            if s in seen or (id(n), id(s)) in cut:
                continue
            seen.add(s)
            stack.append(s)
    return seen


def _only_via(cfg: CFG, branches: list[tuple[ast.If, str]]) -> set[object]:
    """statements that execute only after one of the given arms has been entered"""
    cut: set[tuple[int, int]] = set()
    for s, arm in branches:
        cut |= _arm_edges(cfg, s, arm)
    free = _reach(cfg, [ENTRY], cut)
    return {n for n in cfg.reachable_from(ENTRY) if isinstance(n, ast.stmt) and n not in free}


def _arm_ends_in_error(cfg: CFG, ifn: ast.If, arm: str, errs: set[str]) -> bool:
    """every way out of the function from the given arm is the return of an error value (or a raise)"""
    def hands_out_error(n: object) -> bool:
        # in a generator the error value leaves through `yield <error>`: what the consumer of the generator gets instead of an item
        return isinstance(n, ast.Expr) and isinstance(n.value, ast.Yield) and _is_error_value(n.value.value, errs)

    entries = [s for s in cfg.succ.get(ifn, ()) if (id(ifn), id(s)) in _arm_edges(cfg, ifn, arm)]
    nodes = _reach(cfg, entries, stop=hands_out_error)
    if EXIT in entries:
        return False
    yields = [n for n in nodes if hands_out_error(n)]
    exits = [n for n in nodes if isinstance(n, ast.stmt) and EXIT in cfg.succ.get(n, ()) and not hands_out_error(n)]
    return bool(exits or yields) and all(isinstance(n, ast.Raise) or (isinstance(n, ast.Return) and returns_error(n, errs)) for n in exits)


# ---- flow of one binding ---------------------------------------------------------------------------------------------------

def _reached_reads(cfg: CFG, bind: ast.AST, name: str) -> list[tuple[ast.stmt, ast.Name]]:
    """reads of `name` that the binding made by statement `bind` reaches (on paths that do not rebind the name); a rebinding
    statement still evaluates its right-hand side with the old value"""
    def rebinds(n: object) -> bool:
        return n is not bind and name in _stores(n)

    reach = cfg.reachable_from(bind, avoid=rebinds)
    front = {s for n in reach for s in cfg.succ.get(n, ()) if rebinds(s)}
    out = []
    for s in [*reach, *front]:
        if isinstance(s, ast.stmt) and s is not bind:
            out += [(s, x) for x in walk_own(s) if isinstance(x, ast.Name) and x.id == name and isinstance(x.ctx, ast.Load)]
    return out


def _comprehension_reads(fn: ast.AST, gen: ast.comprehension, name: str) -> list[ast.Name]:
    for n in ast.walk(fn):
        if isinstance(n, (ast.ListComp, ast.SetComp, ast.GeneratorExp, ast.DictComp)) and any(g is gen for g in n.generators):
            parts: list[ast.AST] = [n.key, n.value] if isinstance(n, ast.DictComp) else [n.elt]
            for g in n.generators:
                parts += g.ifs
                if g is not gen:
                    parts.append(g.iter)
            return [x for p in parts for x in ast.walk(p) if isinstance(x, ast.Name) and x.id == name and isinstance(x.ctx, ast.Load)]
    return []


def _gated_uses(ix: Any, f: FuncInfo, cfgs: dict[str, CFG], producers: set[str], attrs: set[str], own_only: bool = False
                ) -> tuple[bool, set[str], int, list[str]]:
    """The results of calls to `producers` (component or error) in the region of f: (every read of one of `attrs` on such a result is
    reachable from the producing statement only through the not-an-error side of an `isinstance(result, <Error>)` test whose error
    side leaves the function with an error; the attributes read, also through private helpers the result is handed to; number of
    producing statements; the reads that are not gated)."""
    ok = True
    read: set[str] = set()
    n_prod = 0
    ungated: list[str] = []
    fns = [f] if own_only else region(ix, f)
    # The result travels: a helper of the region that returns it (`return parameter_from_reference(...)`, `return <result>`) produces it
    # for its callers, a generator of the region that yields it produces it for the loop that iterates the generator.  Found by fixpoint.
    returning, yielding = set(producers), set()

    def results_in(g: FuncInfo, lc: Locals) -> tuple[set[str], set[str]]:
        roots = {nm for nm, ds in lc.defs.items() for k, _, v in ds if isinstance(v, ast.Call) and
                 ((k.startswith("assign") and _is_call_to(v, returning)) or (k == "for" and _is_call_to(v, yielding)))}
        results = set(roots)
        changed = True
        while changed:  # plain copies of the result (`param = param_or_error`)
            changed = False
            for nm, ds in lc.defs.items():
                if nm not in results and any(k == "assign" and isinstance(v, ast.Name) and v.id in results for k, _, v in ds):
                    results.add(nm)
                    changed = True
        return roots, results

    for _ in range(3):
        for g in fns:
            if g is f:
                continue
            _, res = results_in(g, Locals(g.node))
            own = [n for s in cfg_of(g, cfgs).stmts() for n in walk_own(s)]

            def carries(v: "ast.AST | None", res: set[str] = res) -> bool:
                return (isinstance(v, ast.Name) and v.id in res) or (isinstance(v, ast.Call) and _is_call_to(v, returning))

            if any(isinstance(n, ast.Return) and carries(n.value) for n in own):
                returning.add(g.name)
            if any(isinstance(n, ast.Yield) and carries(n.value) for n in own):
                yielding.add(g.name)
    for g in fns:
        lc = Locals(g.node)
        roots, results = results_in(g, lc)
        if not roots:
            continue
        cfg = cfg_of(g, cfgs)
        errs = error_names(g.node) | results
        producing = [s for s in cfg.stmts() if any(_is_call_to(c, returning | yielding) for c in _own_calls(s)) and _stores(s) & roots]
        n_prod += len(producing)
        gates = [(s, arm) for s in cfg.stmts() if isinstance(s, ast.If) for arm in _implied_arms(s.test, lambda a: _is_error_test(a, results))
                 if _arm_ends_in_error(cfg, s, arm, errs)]
        passable: set[tuple[int, int]] = set()
        for s, arm in gates:
            passable |= _arm_edges(cfg, s, "orelse" if arm == "body" else "body")
        uses = [(s, x) for s in cfg.stmts() for x in walk_own(s) if isinstance(x, ast.Attribute) and isinstance(x.value, ast.Name)
                and x.value.id in results and x.attr in attrs and isinstance(x.ctx, ast.Load)]
        read |= {x.attr for _, x in uses}
        # attributes read by a private helper that receives the result
        for c in calls_in(g.node):
            for h in region(ix, g, 1)[1:]:
                if call_name(c).rsplit(".", 1)[-1] == h.name:
                    pos = [p.arg for p in [*h.node.args.posonlyargs, *h.node.args.args] if p.arg not in ("self", "cls")]
                    handed = {pos[i] for i, a in enumerate(c.args) if i < len(pos) and isinstance(a, ast.Name) and a.id in results}
                    handed |= {k.arg for k in c.keywords if k.arg and isinstance(k.value, ast.Name) and k.value.id in results}
                    read |= {x.attr for x in ast.walk(h.node) if isinstance(x, ast.Attribute) and isinstance(x.value, ast.Name) and x.value.id in handed
                             and x.attr in attrs}
        if not gates:
            ok = False
            ungated.append(f"no error test on the result of {sorted(producers)} in {g.name}")
            continue
        for p in producing:
            before_gate = _reach(cfg, [p], passable, stop=lambda n, p=p: n is not p and n in producing)
            for s, x in uses:
                if s in before_gate and s is not p:
                    ok = False
                    ungated.append(f"{norm(x)} in {g.name}")
    return ok and n_prod > 0, read, n_prod, sorted(set(ungated))


# ---- chain loop ------------------------------------------------------------------------------------------------------------

def _is_table(n: ast.AST, table: str) -> bool:
    return isinstance(n, (ast.Name, ast.Attribute)) and isinstance(getattr(n, "ctx", None), ast.Load) and (dotted(n) or "").rsplit(".", 1)[-1] == table


def _is_lookup(n: ast.AST, table: str) -> bool:
    """`<table>.get(...)` or `<table>[...]`"""
    if isinstance(n, ast.Call) and isinstance(n.func, ast.Attribute) and n.func.attr == "get" and _is_table(n.func.value, table):
        return True
    return isinstance(n, ast.Subscript) and isinstance(n.ctx, ast.Load) and _is_table(n.value, table)


def _carried(lp: ast.stmt) -> set[str]:
    """names the loop body (re)binds"""
    return {x.id for s in lp.body for x in ast.walk(s) if isinstance(x, ast.Name) and isinstance(x.ctx, ast.Store)}


def _stale_snapshot_reads(fn: ast.AST, lp: ast.stmt) -> list[str]:
    """Reads, inside the loop, of a local that is bound only outside the loop from a variable the loop advances: the loop keeps
    working with the value of the first round.  Reads inside the construction of an error value (diagnostic payload) do not steer the
    loop and are not counted."""
    carried = _carried(lp)
    inside = {id(x) for part in [*lp.body, *([lp.test] if isinstance(lp, ast.While) else [])] for x in ast.walk(part)}
    lc = Locals(fn)
    snapshots: set[str] = set()
    changed = True
    while changed:
        changed = False
        for nm, ds in lc.defs.items():
            if nm in carried or nm in snapshots or any(id(st) in inside for _, st, _ in ds):
                continue
            if any(v is not None and names_in(v) & (carried | snapshots) for _, _, v in ds):
                snapshots.add(nm)
                changed = True
    diag = {id(x) for part in [*lp.body, *([lp.test] if isinstance(lp, ast.While) else [])] for c in ast.walk(part)
            if isinstance(c, ast.Call) and call_name(c).rsplit(".", 1)[-1] in (ERROR_CLASSES | ERROR_ONLY_HELPERS) for x in ast.walk(c)}
    out = []
    for part in [*lp.body, *([lp.test] if isinstance(lp, ast.While) else [])]:
        for x in ast.walk(part):
            if isinstance(x, ast.Name) and isinstance(x.ctx, ast.Load) and x.id in snapshots and id(x) not in diag:
                out.append("; ".join(f"{x.id} = {norm(v)[:40]}" for _, _, v in lc.defs[x.id] if v is not None))
    return out


# ---- the validator: conditions of its accepting paths --------------------------------------------------------------------------

class _Expander:
    """Rewrites a guard of the validator into and/or/not over atoms `parsed.<component>`: a local bound once reads as its definition,
    `any((a, b))` is `a or b`, `all((a, b))` is `a and b`, `bool(a)` is `a`, `a == ""` is `not a`; the result of urlparse (however it
    is named, or unpacked) reads as `parsed`."""

    def __init__(self, lc: Locals, parsed_names: set[str], fields_of: dict[str, str]):
        self.lc, self.parsed_names, self.fields_of = lc, parsed_names, fields_of

    def __call__(self, e: ast.expr, depth: int = 0) -> ast.expr:
        P = ast.Name(id="parsed", ctx=ast.Load())
        if isinstance(e, ast.Name):
            if e.id in self.fields_of:
                return ast.Attribute(value=P, attr=self.fields_of[e.id], ctx=ast.Load())
            if e.id in self.parsed_names:
                return P
            ds = self.lc.defs.get(e.id, [])
            if len(ds) == 1 and ds[0][0] == "assign" and ds[0][2] is not None and depth < 4:
                return self(ds[0][2], depth + 1)
            return e
        if isinstance(e, ast.Call) and call_name(e).rsplit(".", 1)[-1] in ("urlparse", "urlsplit"):
            return P
        if isinstance(e, ast.BoolOp):
            return ast.BoolOp(op=e.op, values=[self(v, depth) for v in e.values])
        if isinstance(e, ast.UnaryOp) and isinstance(e.op, ast.Not):
            return ast.UnaryOp(op=ast.Not(), operand=self(e.operand, depth))
        if isinstance(e, ast.Call) and isinstance(e.func, ast.Name) and e.func.id in ("any", "all") and len(e.args) == 1 and not e.keywords:
            arg = self(e.args[0], depth) if isinstance(e.args[0], ast.Name) else e.args[0]
            if isinstance(arg, (ast.Tuple, ast.List, ast.Set)) and arg.elts and not any(isinstance(x, ast.Starred) for x in arg.elts):
                return ast.BoolOp(op=ast.Or() if e.func.id == "any" else ast.And(), values=[self(x, depth) for x in arg.elts])
        if isinstance(e, ast.Call) and isinstance(e.func, ast.Name) and e.func.id == "bool" and len(e.args) == 1:
            return self(e.args[0], depth)
        if isinstance(e, ast.Compare) and len(e.ops) == 1 and isinstance(e.comparators[0], ast.Constant) and e.comparators[0].value == "" and \
                isinstance(e.comparators[0].value, str):
            inner = self(e.left, depth)
            if isinstance(e.ops[0], ast.Eq):
                return ast.UnaryOp(op=ast.Not(), operand=inner)
            if isinstance(e.ops[0], ast.NotEq):
                return inner
        if isinstance(e, ast.Attribute):
            return ast.Attribute(value=self(e.value, depth), attr=e.attr, ctx=ast.Load())
        if isinstance(e, ast.Call):
            c = copy.copy(e)
            c.args = [self(a, depth) for a in e.args]
            c.keywords = [ast.keyword(arg=k.arg, value=self(k.value, depth)) for k in e.keywords]
            return c
        return e


def _return_paths(body: list[ast.stmt], cond: list[tuple[ast.expr, bool]], out: list, expand: _Expander) -> bool:
    """(guards with the truth value they have on the path, returned value, return statement) of every return; the result says
    whether the block always leaves the function.  A condition is only remembered where it certainly holds (structured code of a
    small function); anything else is forgotten, which can only make a path look less constrained."""
    cond = list(cond)
    for st in body:
        if isinstance(st, ast.If):
            t = expand(st.test)
            a = _return_paths(st.body, cond + [(t, True)], out, expand)
            b = _return_paths(st.orelse, cond + [(t, False)], out, expand) if st.orelse else False
            if a and b:
                return True
            if a:
                cond.append((t, False))
            elif b:
                cond.append((t, True))
        elif isinstance(st, ast.Return):
            _value_paths(st.value, cond, out, expand, st)
            return True
        elif isinstance(st, ast.Raise):
            return True
        elif isinstance(st, ast.Try):
            done = _return_paths([*st.body, *st.orelse], cond, out, expand)
            for h in st.handlers:
                done = _return_paths(h.body, cond, out, expand) and done
            if st.finalbody and _return_paths(st.finalbody, cond, out, expand):
                return True
            if done:
                return True
        elif isinstance(st, (ast.For, ast.While, ast.With, ast.AsyncFor, ast.AsyncWith)):
            _return_paths(st.body, cond, out, expand)
            _return_paths(getattr(st, "orelse", []) or [], cond, out, expand)
        elif isinstance(st, ast.Match):
            for c in st.cases:
                _return_paths(c.body, cond, out, expand)
    return False


def _value_paths(v: ast.expr | None, cond: list[tuple[ast.expr, bool]], out: list, expand: _Expander, st: ast.Return) -> None:
    if isinstance(v, ast.IfExp):
        t = expand(v.test)
        _value_paths(v.body, cond + [(t, True)], out, expand, st)
        _value_paths(v.orelse, cond + [(t, False)], out, expand, st)
    else:
        out.append((list(cond), v, st))


def _is_error_value(v: ast.expr | None, errs: set[str]) -> bool:
    return v is not None and returns_error(ast.Return(value=v), errs)


def _possibly_true(cond: list[tuple[ast.expr, bool]], wanted: list[str]) -> tuple[set[str], set[str]]:
    """(those of `wanted` atoms that can be true on a path with these guards - an atom no guard mentions can; the atoms of the
    guards that are not among `wanted`)"""
    atoms: list[str] = []
    for t, _ in cond:
        for a in _atom_nodes(t):
            if norm(a) not in atoms:
                atoms.append(norm(a))
    other = {a for a in atoms if a not in wanted}
    if len(atoms) > 14:
        return set(wanted), other
    can = {w for w in wanted if w not in atoms}
    for vals in itertools.product([False, True], repeat=len(atoms)):
        env = dict(zip(atoms, vals))
        if all(bool_eval(t, env) is pol for t, pol in cond):
            can |= {w for w in wanted if env.get(w)}
    return can, other


# ---- the reference discriminator ---------------------------------------------------------------------------------------------------------

REF_KEY = "$ref"


def _discriminates_by_presence(f: FuncInfo, ref_tag: str) -> "tuple[str, str] | None":
    """('ok' | 'by-value' | 'unreadable', explanation) for a discriminator function; None when it has no path returning a tag"""
    params = [a.arg for a in f.params]
    if not params:
        return None
    obj = params[0]
    expand = _Expander(Locals(f.node), set(), {})
    paths: list[tuple[list[tuple[ast.expr, bool]], ast.expr | None, ast.Return]] = []
    _return_paths(f.node.body, [], paths, expand)
    if not paths:
        return None

    def kind(a: ast.expr) -> tuple[str, bool]:
        """(role of the atom, polarity under which the role's fact holds)"""
        if _isinstance_of(a, {obj}, lambda k: k in ("dict", "Mapping", "MutableMapping")):
            return "mapping", True
        if _isinstance_of(a, {obj}, lambda k: k == "Reference"):
            return "instance", True
        mentions = any(isinstance(x, ast.Constant) and x.value == REF_KEY for x in ast.walk(a))
        if isinstance(a, ast.Compare) and len(a.ops) == 1 and isinstance(a.ops[0], (ast.In, ast.NotIn)) and isinstance(a.left, ast.Constant) and \
                a.left.value == REF_KEY:
            c = a.comparators[0]
            if isinstance(c, ast.Call) and not c.keywords and ((isinstance(c.func, ast.Attribute) and c.func.attr == "keys" and not c.args) or
                                                                (isinstance(c.func, ast.Name) and c.func.id in ("set", "list", "tuple", "frozenset") and len(c.args) == 1)):
                c = c.func.value if isinstance(c.func, ast.Attribute) else c.args[0]
            if isinstance(c, ast.Name) and c.id == obj:
                return "present", isinstance(a.ops[0], ast.In)
        if mentions and any((isinstance(x, ast.Call) and isinstance(x.func, ast.Attribute) and x.func.attr in ("get", "pop", "setdefault")) or
                            isinstance(x, ast.Subscript) for x in ast.walk(a)):
            return "value", True
        return "unreadable", True

    atoms: dict[str, tuple[str, bool]] = {}
    for cond, _, _ in paths:
        for t, _ in cond:
            for a in _atom_nodes(t):
                atoms.setdefault(norm(a), kind(a))
    if len(atoms) > 10:
        return "unreadable", "too many atoms"
    names = list(atoms)
    wrong: list[str] = []
    for vals in itertools.product([False, True], repeat=len(names)):
        env = dict(zip(names, vals))
        fact = {role: {env[n] == pol for n, (r, pol) in atoms.items() if r == role} for role in ("mapping", "instance", "present")}
        if any(len(v) > 1 for v in fact.values()):
            continue            # two spellings of one fact disagree
        mapping, instance, present = (next(iter(fact[r]), None) for r in ("mapping", "instance", "present"))
        # scenario A: a mapping that has the key (it is not a Reference instance); scenario B: a Reference instance (not a mapping)
        if not ((mapping is not False and instance is not True and present is not False and (mapping or present)) or
                (instance is True and mapping is not True)):
            continue
        for cond, val, r in paths:
            if all(bool_eval(t, env) is pol for t, pol in cond) and not (isinstance(val, ast.Constant) and val.value == ref_tag):
                free = sorted(n for n, (role, _) in atoms.items() if role in ("value", "unreadable"))
                wrong.append(f"returns {norm(val)} at line {r.lineno} when " + ", ".join(f"{n} is {env[n]}" for n in free or names))
    if not wrong:
        return "ok", ""
    if any(role == "unreadable" for role, _ in atoms.values()):
        return "unreadable", "; ".join(sorted(n for n, (role, _) in atoms.items() if role == "unreadable")[:3])
    return "by-value", sorted(set(wrong))[0]


# ---- calls: who is called, what is passed ---------------------------------------------------------------------------------------------

def _callee(ix: Any, f: FuncInfo, c: ast.Call, universe: list[FuncInfo]) -> "FuncInfo | None":
    """the function a call denotes when that can be read off the call: a module-level function by its plain name (unique in the
    universe), a method through self / cls, a method through the name of its class"""
    cn = call_name(c)
    last = cn.rsplit(".", 1)[-1]
    head = cn.rsplit(".", 1)[0] if "." in cn else ""
    if head == "":
        hits = [g for g in universe if g.name == last and g.cls is None and g.parent is None]
        return hits[0] if len(hits) == 1 else None
    if head in ("self", "cls"):
        return ix.find_method(f.cls, last) if f.cls is not None else None
    owner = [k for k in ix.classes.values() if k.name == head.rsplit(".", 1)[-1]]
    return ix.find_method(owner[0], last) if len(owner) == 1 else None


def _passed(c: ast.Call, g: FuncInfo, lc: Locals) -> "dict[str, ast.AST] | None":
    """parameter of g -> argument expression at this call (positional arguments by position, keywords, `**` of a dict literal / dict(...)
    possibly held by a local); None when the call unpacks something that cannot be read"""
    pos = [a.arg for a in [*g.node.args.posonlyargs, *g.node.args.args]]
    if g.kind in ("method", "classmethod") and pos:
        pos = pos[1:]
    out: dict[str, ast.AST] = {}
    for i, a in enumerate(c.args):
        if isinstance(a, ast.Starred):
            return None
        if i < len(pos):
            out[pos[i]] = a
    for k in c.keywords:
        if k.arg is not None:
            out[k.arg] = k.value
            continue
        v = _unalias(k.value, lc)
        if isinstance(v, ast.Dict) and all(isinstance(x, ast.Constant) and isinstance(x.value, str) for x in v.keys):
            out.update({x.value: y for x, y in zip(v.keys, v.values)})
        elif isinstance(v, ast.Call) and call_name(v) == "dict" and not v.args and all(x.arg is not None for x in v.keywords):
            out.update({x.arg: x.value for x in v.keywords})
        else:
            return None
    return out


def _names_behind(v: ast.AST, lc: Locals, depth: int = 3) -> set[str]:
    """the names an expression is computed from, locals followed to what they are bound from"""
    seen: set[str] = set()
    frontier = names_in(v)
    for _ in range(depth + 1):
        nxt: set[str] = set()
        for n in frontier - seen:
            seen.add(n)
            for x in lc.values_of(n):
                nxt |= names_in(x)
        frontier = nxt
    return seen


# ---- the copy of a component ------------------------------------------------------------------------------------------------------

DUMPS = {"model_dump", "dict", "model_dump_json", "json"}          # pydantic serialisers: by field name unless by_alias=True
SHALLOW_COPIES = {"model_copy", "copy"}                            # the same attribute values in a new object


def _copy_entries(c: ast.Call, g: FuncInfo, lc: Locals, sources: set[str], fields: set[str]) -> "dict[str, tuple[str, str]] | None":
    """If the call builds a copy of a component (a `Parameter`): attribute -> (origin, text), origin being `own` (the component's own
    attribute of the same name: the same object), `given` (a parameter of the function: the caller's override), `dumped` (taken from a
    serialisation of the component by field name), `other` (any other expression) or `unknown` (cannot be read); None for other calls."""
    cn = call_name(c)
    parts = cn.split(".")
    params = {a.arg for a in g.params}

    def origin(attr: str, v: ast.AST) -> tuple[str, str]:
        v = _unalias(v, lc)
        if isinstance(v, ast.Attribute) and isinstance(v.value, ast.Name) and v.value.id in sources and v.attr == attr:
            return ("own", norm(v))
        if isinstance(v, ast.Name) and v.id in params:
            return ("given", norm(v))
        return ("other", norm(v))

    def mapping(v: ast.AST, out: dict[str, tuple[str, str]], depth: int = 0) -> None:
        """the entries a `**v` / model_validate(v) contributes, later ones overriding earlier ones"""
        v = _unalias(v, lc)
        if isinstance(v, ast.Dict):
            for k, x in zip(v.keys, v.values):
                if k is None:
                    mapping(x, out, depth + 1)
                elif isinstance(k, ast.Constant) and isinstance(k.value, str):
                    out[k.value] = origin(k.value, x)
                else:
                    out[f"<{norm(k)}>"] = ("unknown", norm(v))
        elif isinstance(v, ast.Call) and call_name(v) == "dict" and depth < 4:
            for a in v.args:
                mapping(a, out, depth + 1)
            for k in v.keywords:
                if k.arg is None:
                    mapping(k.value, out, depth + 1)
                else:
                    out[k.arg] = origin(k.arg, k.value)
        elif isinstance(v, ast.Call) and isinstance(v.func, ast.Attribute) and v.func.attr in DUMPS and isinstance(v.func.value, ast.Name) and v.func.value.id in sources:
            by_alias = any(k.arg == "by_alias" and isinstance(k.value, ast.Constant) and k.value.value is True for k in v.keywords)
            for f in fields:
                out[f] = ("own" if by_alias and v.func.attr in ("model_dump", "dict") else "dumped", norm(v))
        elif (isinstance(v, ast.Call) and call_name(v) == "vars" and len(v.args) == 1 and isinstance(v.args[0], ast.Name) and v.args[0].id in sources) or \
                (isinstance(v, ast.Attribute) and v.attr == "__dict__" and isinstance(v.value, ast.Name) and v.value.id in sources):
            for f in fields:
                out[f] = ("own", norm(v))
        else:
            out[f"<{norm(v)[:40]}>"] = ("unknown", norm(v))

    out: dict[str, tuple[str, str]] = {}
    if parts[-1] == "Parameter" or (len(parts) >= 2 and parts[-2] == "Parameter" and parts[-1] in ("model_validate", "model_construct", "parse_obj", "construct")):
        if parts[-1] in ("model_validate", "parse_obj"):
            if len(c.args) != 1:
                return {"<arguments>": ("unknown", norm(c))}
            mapping(c.args[0], out)
            return out
        if c.args:
            return {"<arguments>": ("unknown", norm(c))}
        for k in c.keywords:
            if k.arg is None:
                mapping(k.value, out)
            else:
                out[k.arg] = origin(k.arg, k.value)
        return out
    if isinstance(c.func, ast.Attribute) and c.func.attr in SHALLOW_COPIES and isinstance(c.func.value, ast.Name) and c.func.value.id in sources:
        for f in fields:
            out[f] = ("own", norm(c.func.value))
        upd = next((k.value for k in c.keywords if k.arg == "update"), None)
        if upd is not None:
            mapping(upd, out)
        return out
    return None


def _unalias(v: ast.AST, lc: Locals, depth: int = 3) -> ast.AST:
    """a local with one definition reads as that definition"""
    while isinstance(v, ast.Name) and depth and len(lc.defs.get(v.id, ())) == 1 and lc.defs[v.id][0][0] == "assign" and lc.defs[v.id][0][2] is not None:
        v = lc.defs[v.id][0][2]
        depth -= 1
    return v


# ---- reference strings, lazily filled fields, document model -------------------------------------------------------------------

def _anchored_suffix(e: ast.AST, f: FuncInfo, lc: Locals, depth: int = 0) -> bool:
    """the suffix a reference string is compared with starts at a path-segment boundary: a text beginning with `/` (or `#/`), or a whole
    validated reference path (a parameter declared ReferencePath, the result of parse_reference_path)"""
    if isinstance(e, ast.Constant):
        return isinstance(e.value, str) and e.value.startswith(("/", "#/"))
    if isinstance(e, ast.JoinedStr):
        return bool(e.values) and isinstance(e.values[0], ast.Constant) and str(e.values[0].value).startswith(("/", "#/"))
    if isinstance(e, ast.BinOp) and isinstance(e.op, ast.Add):
        return _anchored_suffix(e.left, f, lc, depth)
    if isinstance(e, ast.Tuple):
        return bool(e.elts) and all(_anchored_suffix(x, f, lc, depth) for x in e.elts)
    if isinstance(e, ast.Call) and call_name(e).rsplit(".", 1)[-1] in ("parse_reference_path", "ReferencePath"):
        return True
    if isinstance(e, ast.Call) and call_name(e) == "cast" and len(e.args) == 2 and norm(e.args[0]).endswith("ReferencePath"):
        return True
    if isinstance(e, ast.Name):
        for p in f.params:
            if p.arg == e.id:
                return p.annotation is not None and "ReferencePath" in norm(p.annotation)
        vs = lc.values_of(e.id)
        return depth < 3 and bool(vs) and all(k == "assign" for k, _, _ in lc.defs[e.id]) and all(_anchored_suffix(v, f, lc, depth + 1) for v in vs)
    return False


def _optional_container(ann: ast.AST) -> bool:
    import re

    toks = set(re.findall(r"[A-Za-z_]+", norm(ann)))
    return bool(toks & {"None", "Optional"}) and bool(toks & {"list", "set", "dict", "tuple", "frozenset", "List", "Set", "Dict", "Tuple", "FrozenSet"})


def _truth_of_field(a: ast.AST, fields: set[str]) -> bool:
    """the atom is the truth value (or the length) of one of the fields"""
    if isinstance(a, ast.Attribute):
        return a.attr in fields
    if isinstance(a, ast.Call) and isinstance(a.func, ast.Name) and a.func.id in ("bool", "len") and len(a.args) == 1:
        return _truth_of_field(a.args[0], fields)
    if isinstance(a, ast.Compare) and len(a.ops) == 1 and isinstance(a.left, ast.Call) and isinstance(a.left.func, ast.Name) and a.left.func.id == "len":
        return _truth_of_field(a.left, fields)
    if isinstance(a, ast.Call) and isinstance(a.func, ast.Name) and a.func.id in ("any", "all") and len(a.args) == 1 and isinstance(a.args[0], (ast.Tuple, ast.List)):
        return any(_truth_of_field(x, fields) for x in a.args[0].elts)
    return False


def _type_positions(tree: ast.Module) -> Iterable[tuple[str, str, ast.expr]]:
    """(owner prefix, name, type expression) of every class field annotation and every module-level type alias"""
    for st in tree.body:
        if isinstance(st, ast.ClassDef):
            for b in st.body:
                if isinstance(b, ast.AnnAssign) and isinstance(b.target, ast.Name):
                    yield f"{st.name}.", b.target.id, b.annotation
        elif isinstance(st, ast.AnnAssign) and isinstance(st.target, ast.Name) and st.value is not None:
            yield "", st.target.id, st.value
        elif isinstance(st, ast.Assign) and len(st.targets) == 1 and isinstance(st.targets[0], ast.Name) and isinstance(st.value, (ast.Subscript, ast.BinOp)):
            yield "", st.targets[0].id, st.value


def _type_names(ann: ast.AST, discriminated: bool = False) -> list[tuple[str, bool]]:
    """(class name, inside an Annotated[...] that carries a Discriminator) of every name in a type expression; quoted forward
    references are read as the expressions they stand for"""
    out: list[tuple[str, bool]] = []
    if isinstance(ann, ast.Subscript) and (dotted(ann.value) or "").rsplit(".", 1)[-1] == "Annotated":
        parts = list(ann.slice.elts) if isinstance(ann.slice, ast.Tuple) else [ann.slice]
        here = discriminated or any(isinstance(c, ast.Call) and call_name(c).rsplit(".", 1)[-1] == "Discriminator" for x in parts[1:] for c in ast.walk(x))
        return _type_names(parts[0], here) if parts else out
    if isinstance(ann, ast.Constant) and isinstance(ann.value, str):
        try:
            return _type_names(ast.parse(ann.value, mode="eval").body, discriminated)
        except SyntaxError:
            return out
    if isinstance(ann, (ast.Name, ast.Attribute)):
        d = dotted(ann)
        return [(d.rsplit(".", 1)[-1], discriminated)] if d else out
    for ch in ast.iter_child_nodes(ann):
        out += _type_names(ch, discriminated)
    return out
