"""Shared rule (C08 R08.13): an item that is rejected leaves nothing behind in the threaded registries.

The parser threads its registries (`Schemas`, `Parameters`) through *steps*: functions that take the registry and return
`(product | Error, registry...)`.  A loop over the items of a document collection (operations, responses, bodies, parameters) that
rejects one item - the step's product is an error, a diagnostic is recorded, the loop goes on - must go on with the registries it had
when the iteration began: whatever the rejected item registered on the way (inline model and enum classes, flags raised on shared
classes) would otherwise be generated although "the document with that piece deleted" would not generate it (C08's oracle).

Decided by a small abstract interpretation, path by path with identical states merged, of every loop body that rebinds a loop-carried
registry variable from a step:
  * registry locals carry a tag: `entry` (the value the iteration / the function began with), `step k` (handed back by step k, which
    was given a registry tagged t_k), `mod` (an evolved copy), `?`;
  * product locals remember the step they come from and whether an `isinstance(x, <Error>)` test has decided them on this path;
  * at every end of an iteration (`continue`, falling off the body) on which a step's product is known to be an error, each loop-carried
    registry must be *clean*: tagged `entry`, or handed back by the very step whose product is that error, provided the step was given a
    clean registry and every function the step can denote is *clean on error*.
A function is clean on error when each of its returns of an error product hands back a registry that is clean in the same sense with
respect to its own parameters (computed as a greatest fixpoint over the call graph: recursion is assumed clean until shown otherwise).
Returns whose product is not known to be an error on that path are not judged (optimistic: only definite rejections count).
"""
from __future__ import annotations

import ast
from typing import Any, Iterator

from ..astutil import ERROR_CLASSES, ERROR_ONLY_HELPERS, call_name, norm, role_anon, short, where
from ..core import PKG, Report

STATE_CLASSES = ("Schemas", "Parameters")
MAX_STATES = 4000


def _ann_text(a: "ast.AST | None") -> str:
    if a is None:
        return ""
    if isinstance(a, ast.Constant) and isinstance(a.value, str):
        return a.value
    return ast.unparse(a)


def _idents(text: str) -> set[str]:
    import re

    return set(re.findall(r"[A-Za-z_]\w*", text))


def ret_shape(f: Any) -> "tuple[list[str | None], list[bool]] | None":
    """for a function declared to return a tuple: per position the registry class it carries (or None) and whether it can be an error"""
    r = f.node.returns
    if isinstance(r, ast.Constant) and isinstance(r.value, str):
        try:
            r = ast.parse(r.value, mode="eval").body
        except SyntaxError:
            return None
    if not (isinstance(r, ast.Subscript) and _ann_text(r.value).rsplit(".", 1)[-1] in ("tuple", "Tuple")):
        return None
    sl = r.slice
    elts = list(sl.elts) if isinstance(sl, ast.Tuple) else [sl]
    states: list[str | None] = []
    errs: list[bool] = []
    for e in elts:
        ids = _idents(_ann_text(e))
        st = next((s for s in STATE_CLASSES if s in ids), None)
        states.append(st if st and not (ids & ERROR_CLASSES) else None)
        errs.append(bool(ids & ERROR_CLASSES))
    if not any(states) or not any(errs):
        return None
    return states, errs


def state_params(f: Any) -> dict[str, str]:
    out = {}
    for p in f.params:
        ids = _idents(_ann_text(p.annotation))
        st = next((s for s in STATE_CLASSES if s in ids), None)
        if st:
            out[p.arg] = st
    return out


class _An:
    def __init__(self, ix: Any) -> None:
        self.ix = ix
        self.steps = {f.qual: f for f in ix.all_functions if ret_shape(f) is not None and f.module.name.startswith(f"{PKG}.parser")}
        self.by_name: dict[str, list[Any]] = {}
        for f in self.steps.values():
            self.by_name.setdefault(f.name, []).append(f)
        self.clean: dict[str, bool] = {q: True for q in self.steps}   # greatest fixpoint: assume clean, refute
        self.why: dict[str, str] = {}

    def callees(self, c: ast.Call, f: Any) -> list[Any]:
        cn = call_name(c)
        head, _, last = cn.rpartition(".")
        cands = self.by_name.get(last, [])
        if not cands:
            return []
        if head:
            h = head.rsplit(".", 1)[-1]
            if h in ("cls", "self") and f.cls is not None:
                m = self.ix.find_method(f.cls, last)
                return [m] if m is not None and m.qual in self.steps else []
            byc = [g for g in cands if g.cls is not None and g.cls.name == h]
            if byc:
                return byc
            sub = [g for g in cands if g.cls is not None and any(k.name == h for k in self.ix.mro(g.cls))]
            if sub:
                return sub
            return [g for g in cands if g.cls is None] or cands
        return [g for g in cands if g.cls is None] or cands

    # ---- abstract interpretation -------------------------------------------------------------------------------------------------
    # env: dict name -> value;  values: ("S", tag)  registry with tag;  ("P", step id | None, iserr: True/False/None)  product
    # tag: ("entry", name) | ("step", sid) | ("mod",) | ("?",)
    # steps: sid -> (callee quals, in-tags per registry class, product names)

    def run_body(self, f: Any, body: list[ast.stmt], env0: dict[str, Any]) -> "tuple[list[tuple[str, dict, ast.AST]], dict[int, Any]]":
        """events (kind, env, node) for kind in return / continue / break / end / raise, and the table of steps met"""
        self._steps: dict[int, Any] = {}
        self._f = f
        events: list[tuple[str, dict, ast.AST]] = []
        ends = self._block(body, [dict(env0)], events)
        for e in ends:
            events.append(("end", e, body[-1] if body else f.node))
        return events, self._steps

    @staticmethod
    def _sig(env: dict[str, Any]) -> Any:
        return tuple(sorted((k, repr(v)) for k, v in env.items()))

    def _dedupe(self, envs: list[dict]) -> list[dict]:
        seen = {}
        for e in envs:
            seen.setdefault(self._sig(e), e)
        out = list(seen.values())
        if len(out) > MAX_STATES:
            from ..core import AnalysisError

            raise AnalysisError(f"rejected_items: more than {MAX_STATES} abstract states in {short(self._f)}")
        return out

    def _block(self, body: list[ast.stmt], envs: list[dict], events: list) -> list[dict]:
        for st in body:
            nxt: list[dict] = []
            for env in envs:
                nxt.extend(self._stmt(st, env, events))
            envs = self._dedupe(nxt)
            if not envs:
                break
        return envs

    def _is_error_expr(self, e: ast.AST, env: dict) -> "bool | None":
        if isinstance(e, ast.Name):
            v = env.get(e.id)
            if v is not None and v[0] == "P":
                return v[2]
            return None
        if isinstance(e, ast.Call):
            last = call_name(e).rsplit(".", 1)[-1]
            if last in ERROR_CLASSES or last in ERROR_ONLY_HELPERS:
                return True
        return None

    def _narrow(self, test: ast.AST, env: dict) -> "tuple[list[dict], list[dict]]":
        """environments in which the test holds / does not hold"""
        if isinstance(test, ast.UnaryOp) and isinstance(test.op, ast.Not):
            t, fl = self._narrow(test.operand, env)
            return fl, t
        if isinstance(test, ast.BoolOp):
            if isinstance(test.op, ast.And):
                trues, falses = [env], []
                for v in test.values:
                    nt = []
                    for e in trues:
                        a, b = self._narrow(v, e)
                        nt += a
                        falses += b
                    trues = nt
                return trues, falses
            trues, falses = [], [env]
            for v in test.values:
                nf = []
                for e in falses:
                    a, b = self._narrow(v, e)
                    trues += a
                    nf += b
                falses = nf
            return trues, falses
        if isinstance(test, ast.Call) and call_name(test) == "isinstance" and len(test.args) == 2 and isinstance(test.args[0], ast.Name):
            classes = {norm(t).rsplit(".", 1)[-1] for t in (test.args[1].elts if isinstance(test.args[1], ast.Tuple) else [test.args[1]])}
            v = env.get(test.args[0].id)
            if v is not None and v[0] == "P" and classes and classes <= ERROR_CLASSES:
                if v[2] is True:
                    return [env], []
                if v[2] is False:
                    return [], [env]
                et, ef = dict(env), dict(env)
                et[test.args[0].id] = ("P", v[1], True)
                ef[test.args[0].id] = ("P", v[1], False)
                return [et], [ef]
        return [dict(env)], [dict(env)]

    def _value(self, e: ast.AST, env: dict) -> Any:
        if isinstance(e, ast.Name):
            return env.get(e.id)
        if isinstance(e, ast.Call):
            last = call_name(e).rsplit(".", 1)[-1]
            if last in ERROR_CLASSES or last in ERROR_ONLY_HELPERS:
                return ("P", None, True)
            if last in ("evolve", "replace") and e.args:
                v = self._value(e.args[0], env)
                if v is not None and v[0] == "S":
                    return ("S", ("mod",))
        return None

    def _assign(self, targets: list[ast.AST], value: ast.AST, env: dict, st: ast.stmt) -> None:
        if len(targets) == 1 and isinstance(targets[0], ast.Tuple) and isinstance(value, ast.Call):
            cal = self.callees(value, self._f)
            shapes = [ret_shape(g) for g in cal]
            if cal and shapes and all(s is not None and len(s[0]) == len(targets[0].elts) for s in shapes):
                sid = id(value)
                states, errs = shapes[0]  # type: ignore[misc]
                in_tags: dict[str, Any] = {}
                for g in cal:
                    sp = state_params(g)
                    pos = [p.arg for p in [*g.node.args.posonlyargs, *g.node.args.args] if p.arg not in ("self", "cls")]
                    for i, a in enumerate(value.args):
                        if i < len(pos) and pos[i] in sp:
                            v = self._value(a, env)
                            in_tags[sp[pos[i]]] = v[1] if v is not None and v[0] == "S" else ("?",)
                    for k in value.keywords:
                        if k.arg in sp:
                            v = self._value(k.value, env)
                            in_tags[sp[k.arg]] = v[1] if v is not None and v[0] == "S" else ("?",)
                prods = []
                for t, stc, er in zip(targets[0].elts, states, errs):
                    if not isinstance(t, ast.Name):
                        continue
                    if stc is not None:
                        env[t.id] = ("S", ("step", sid))
                    elif er:
                        env[t.id] = ("P", sid, None)
                        prods.append(t.id)
                    else:
                        env.pop(t.id, None)
                self._steps[sid] = ([g.qual for g in cal], in_tags, prods, value)
                return
        if len(targets) == 1 and isinstance(targets[0], ast.Tuple) and isinstance(value, ast.Tuple) and len(value.elts) == len(targets[0].elts):
            vals = [self._value(v, env) for v in value.elts]
            for t, v in zip(targets[0].elts, vals):
                if isinstance(t, ast.Name):
                    if v is None:
                        env.pop(t.id, None)
                    else:
                        env[t.id] = v
            return
        v = self._value(value, env)
        if v is None and isinstance(value, ast.Call) and len(targets) == 1 and isinstance(targets[0], ast.Name):
            sid = self._whole_step(value, env)
            if sid is not None:
                env[targets[0].id] = ("T", sid)
                return
        for t in targets:
            for n in ([t] if isinstance(t, ast.Name) else [x for x in ast.walk(t) if isinstance(x, ast.Name) and isinstance(x.ctx, ast.Store)]):
                if isinstance(t, ast.Name) and v is not None:
                    env[n.id] = v
                elif n.id in env:
                    old = env[n.id]
                    env[n.id] = ("S", ("?",)) if old[0] == "S" else None
                    if env[n.id] is None:
                        del env[n.id]

    def _whole_step(self, value: ast.Call, env: dict) -> "int | None":
        """a step whose result is kept (or returned) whole: registered like an unpacked one, without product names"""
        cal = self.callees(value, self._f)
        if not cal or any(ret_shape(g) is None for g in cal):
            return None
        sid = id(value)
        in_tags: dict[str, Any] = {}
        for g in cal:
            sp = state_params(g)
            pos = [p.arg for p in [*g.node.args.posonlyargs, *g.node.args.args] if p.arg not in ("self", "cls")]
            for i, a in enumerate(value.args):
                if i < len(pos) and pos[i] in sp:
                    v = self._value(a, env)
                    in_tags[sp[pos[i]]] = v[1] if v is not None and v[0] == "S" else ("?",)
            for k in value.keywords:
                if k.arg in sp:
                    v = self._value(k.value, env)
                    in_tags[sp[k.arg]] = v[1] if v is not None and v[0] == "S" else ("?",)
        self._steps[sid] = ([g.qual for g in cal], in_tags, [], value)
        return sid

    def _stmt(self, st: ast.stmt, env: dict, events: list) -> list[dict]:
        if isinstance(st, ast.Assign):
            self._assign(st.targets, st.value, env, st)
            return [env]
        if isinstance(st, ast.AnnAssign) and st.value is not None:
            self._assign([st.target], st.value, env, st)
            return [env]
        if isinstance(st, ast.If):
            t, f = self._narrow(st.test, env)
            out = self._block(st.body, [dict(e) for e in t], events) if t else []
            out += self._block(st.orelse, [dict(e) for e in f], events) if st.orelse else f
            return out
        if isinstance(st, (ast.For, ast.AsyncFor, ast.While)):
            inner: list = []
            once = self._block(st.body, [dict(env)], inner)
            broke: list[dict] = []
            for kind, e, n in inner:
                if kind in ("continue", "end"):
                    once.append(e)
                elif kind == "break":
                    broke.append(e)   # a `break` skips the loop's `else`
                else:
                    events.append((kind, e, n))
            after = self._dedupe([env] + once)
            if st.orelse:
                after = self._block(st.orelse, after, events)
            return self._dedupe(after + broke)
        if isinstance(st, ast.Try):
            body = self._block(st.body, [dict(env)], events)
            outs = list(body)
            for h in st.handlers:
                outs += self._block(h.body, [dict(env)] + [dict(e) for e in body], events)
            if st.orelse:
                outs = self._block(st.orelse, body, events) + [o for o in outs if o not in body]
            if st.finalbody:
                outs = self._block(st.finalbody, outs, events)
            return outs
        if isinstance(st, (ast.With, ast.AsyncWith)):
            return self._block(st.body, [env], events)
        if isinstance(st, ast.Return):
            events.append(("return", env, st))
            return []
        if isinstance(st, ast.Continue):
            events.append(("continue", env, st))
            return []
        if isinstance(st, ast.Break):
            events.append(("break", env, st))
            return []
        if isinstance(st, ast.Raise):
            events.append(("raise", env, st))
            return []
        return [env]

    # ---- cleanliness ------------------------------------------------------------------------------------------------------------
    def tag_clean(self, tag: Any, steps: dict[int, Any], cls: str, rejected: "set[int] | None", depth: int = 0) -> "tuple[bool, str]":
        """is a registry with this tag the registry the scope began with (as far as a rejected item is concerned)?"""
        if tag[0] == "entry":
            return True, ""
        if tag[0] == "step" and depth < 8:
            quals, in_tags, _prods, call = steps[tag[1]]
            if rejected is not None and tag[1] not in rejected:
                return False, f"it was handed back by `{norm(call)[:60]}`, which succeeded (what that step registered stays)"
            dirty = [q for q in quals if not self.clean.get(q, True)]
            if dirty:
                return False, f"`{norm(call)[:50]}` can hand back a registry it has already added to next to an error ({self.why.get(dirty[0], dirty[0])[:120]})"
            it = in_tags.get(cls)
            if it is None:
                return True, ""
            return self.tag_clean(it, steps, cls, None if rejected is None else set(), depth + 1) if it[0] != "step" else \
                self.tag_clean(it, steps, cls, rejected, depth + 1)
        if tag[0] == "mod":
            return False, "it is an evolved copy made for this item"
        return False, "its origin is not followed"

    def summarise(self) -> None:
        for _ in range(12):
            changed = False
            for q, f in sorted(self.steps.items()):
                if not self.clean[q]:
                    continue
                shape = ret_shape(f)
                assert shape is not None
                states, errs = shape
                env0 = {p: ("S", ("entry", p)) for p in state_params(f)}
                events, steps = self.run_body(f, f.node.body, env0)
                for kind, env, node in events:
                    if kind == "return" and isinstance(node, ast.Return) and node.value is not None and not isinstance(node.value, ast.Tuple):
                        # the result of another step handed on whole: whatever that step hands back next to an error is handed back
                        sid = None
                        if isinstance(node.value, ast.Call):
                            self._f = f
                            sid = self._whole_step(node.value, env)
                            steps = self._steps
                        elif isinstance(node.value, ast.Name) and env.get(node.value.id, ("",))[0] == "T":
                            sid = env[node.value.id][1]
                        if sid is not None:
                            for stc in [x for x in states if x]:
                                ok, why = self.tag_clean(("step", sid), steps, stc, None)
                                if not ok:
                                    self.clean[q] = False
                                    self.why[q] = f"{short(f)} line {node.lineno}: `{norm(node)[:60]}` - {why}"
                                    changed = True
                                    break
                        if not self.clean[q]:
                            break
                        continue
                    if kind != "return" or not isinstance(node, ast.Return) or not isinstance(node.value, ast.Tuple) or len(node.value.elts) != len(states):
                        continue
                    perr = [i for i, e in enumerate(node.value.elts) if errs[i] and self._is_error_expr(e, env) is True]
                    if not perr:
                        continue
                    rejected = set()
                    for i in perr:
                        e = node.value.elts[i]
                        if isinstance(e, ast.Name) and env.get(e.id, ("", None))[0] == "P" and env[e.id][1] is not None:
                            rejected.add(env[e.id][1])
                    for i, stc in enumerate(states):
                        if stc is None:
                            continue
                        v = self._value(node.value.elts[i], env)
                        if v is None or v[0] != "S":
                            ok, why = False, "it is not one of the registries this function was given or handed"
                        else:
                            ok, why = self.tag_clean(v[1], steps, stc, rejected)
                        if not ok:
                            self.clean[q] = False
                            self.why[q] = f"{short(f)} line {node.lineno}: `{norm(node)[:60]}` - {why}"
                            changed = True
                            break
                    if not self.clean[q]:
                        break
            if not changed:
                return


def _own_stmts(body: list[ast.stmt]) -> Iterator[ast.stmt]:
    """the statements of a loop body that belong to this loop (not to a loop nested in it, nor to a nested function)"""
    for st in body:
        yield st
        if isinstance(st, (ast.For, ast.AsyncFor, ast.While, ast.FunctionDef, ast.AsyncFunctionDef, ast.ClassDef)):
            continue
        for fld in ("body", "orelse", "finalbody"):
            sub = getattr(st, fld, None)
            if isinstance(sub, list):
                yield from _own_stmts(sub)
        for h in getattr(st, "handlers", []) or []:
            yield from _own_stmts(h.body)


def loops_with_steps(an: _An) -> Iterator[tuple[Any, ast.AST]]:
    for f in an.ix.all_functions:
        if not f.module.name.startswith(f"{PKG}.parser"):
            continue
        for n in ast.walk(f.node):
            if isinstance(n, (ast.For, ast.While)):
                yield f, n


def check(rep: Report, ctx: Any, rule: str) -> int:
    ix = ctx.py
    rep.rule(rule, "a rejected item leaves nothing behind: in every loop over items that rebinds a loop-carried registry (Schemas / Parameters) "
                   "from a step `(product | Error, registry...)`, at every end of an iteration on which a step's product is known to be an error "
                   "the registry is the one the iteration began with - or the one handed back by that very step, provided the step was given "
                   "the iteration's registry and every function it can denote hands back, next to an error, the registry it was given "
                   "(greatest fixpoint over the call graph) - so that classes and flags registered for an item that is then rejected are not "
                   "generated (the output equals that of the document without the item)")
    an = _An(ix)
    rep.require(len(an.steps) >= 5, "functions that thread a registry and return (product | Error, registry)")
    an.summarise()
    rep.indexed["registry_steps"] = len(an.steps)
    rep.indexed["registry_steps_not_clean_on_error"] = sorted(short(an.steps[q]) for q, c in an.clean.items() if not c)
    n = 0
    for f, loop in loops_with_steps(an):
        # loop-carried registries: names rebound in the body from a step (directly or by copy) and read by a step of the body
        body = loop.body
        carried: dict[str, str] = {}
        for st in _own_stmts(loop.body):
            if isinstance(st, ast.Assign) and len(st.targets) == 1 and isinstance(st.targets[0], ast.Tuple) and isinstance(st.value, ast.Call):
                cal = an.callees(st.value, f)
                if not cal or ret_shape(cal[0]) is None or len(ret_shape(cal[0])[0]) != len(st.targets[0].elts):  # type: ignore[index]
                    continue
                sp = {}
                for g in cal:
                    sp.update(state_params(g))
                for k in st.value.keywords:
                    if k.arg in sp and isinstance(k.value, ast.Name):
                        carried[k.value.id] = sp[k.arg]
                for g in cal:
                    pos = [p.arg for p in [*g.node.args.posonlyargs, *g.node.args.args] if p.arg not in ("self", "cls")]
                    for i, a in enumerate(st.value.args):
                        if i < len(pos) and pos[i] in sp and isinstance(a, ast.Name):
                            carried[a.id] = sp[pos[i]]
        assigned = {t.id for st in ast.walk(loop) for t in ast.walk(st) if isinstance(t, ast.Name) and isinstance(t.ctx, ast.Store)}
        carried = {k: v for k, v in carried.items() if k in assigned}
        if not carried:
            continue
        env0 = {k: ("S", ("entry", k)) for k in carried}
        events, steps = an.run_body(f, body, env0)
        # loop-carried means live at the head of the body: some step of the iteration is given the value the iteration began with (a name
        # that every iteration assigns before it is used carries nothing from one item to the next)
        live = {t[1] for _q, in_tags, _p, _c in steps.values() for t in in_tags.values() if t[0] == "entry"}
        carried = {k: v for k, v in carried.items() if k in live}
        if not carried:
            continue
        bad: dict[str, tuple[str, ast.AST]] = {}
        judged = 0
        for kind, env, node in events:
            if kind not in ("continue", "end"):
                continue
            rejected = {v[1] for v in env.values() if v[0] == "P" and v[2] is True and v[1] is not None}
            if not rejected:
                continue
            judged += 1
            for name, cls in carried.items():
                v = env.get(name)
                if v is None or v[0] != "S":
                    continue
                ok, why = an.tag_clean(v[1], steps, cls, rejected)
                if not ok:
                    bad.setdefault(cls, (f"`{name}` at the end of an iteration that rejected its item (line {getattr(node, 'lineno', '?')}): {why}", node))
        if not judged:
            continue
        it = loop.iter if isinstance(loop, ast.For) else loop.test
        for cls in sorted(set(carried.values())):
            n += 1
            key = f"{short(f)}::loop[{role_anon(it, f.node)[:60]}]::rejected-item-leaves-nothing[{cls}]"
            msg, node = bad.get(cls, ("", loop))
            rep.check(cls not in bad, rule, key,
                      "an item of this loop that is rejected leaves what it registered behind: " + msg, where(f, node),
                      lhs=f"registry carried from one item to the next: {sorted(k for k, v in carried.items() if v == cls)}",
                      rhs="the registry the iteration began with, or the one a clean step handed back with its error")
    return n


def control(rep: Report, ctx: Any, rule: str) -> None:
    """positive control: a synthetic item loop that adopts the registry of a two-step build before it knows whether the item is kept"""
    src = ("def step_a(*, schemas: Schemas) -> 'tuple[int | ParseError, Schemas]':\n    return 1, evolve(schemas)\n\n"
           "def step_b(*, schemas: Schemas) -> 'tuple[int | ParseError, Schemas]':\n    return ParseError(), schemas\n\n"
           "def loop(items, schemas: Schemas):\n    for i in items:\n        a, schemas = step_a(schemas=schemas)\n"
           "        b, schemas = step_b(schemas=schemas)\n        if isinstance(b, ParseError):\n            continue\n    return schemas\n")
    import types

    tree = ast.parse(src)
    mod = types.SimpleNamespace(name=f"{PKG}.parser.control", rel="<control>")
    fs = []
    for n in tree.body:
        fs.append(types.SimpleNamespace(name=n.name, qual=f"control.{n.name}", module=mod, cls=None, node=n, kind="function",
                                        params=[*n.args.posonlyargs, *n.args.args, *n.args.kwonlyargs], decorators=[]))
    ix = types.SimpleNamespace(all_functions=fs, find_method=lambda c, m: None, mro=lambda c: [])
    an = _An(ix)
    an.summarise()
    f = fs[2]
    loop = next(x for x in ast.walk(f.node) if isinstance(x, ast.For))
    events, steps = an.run_body(f, loop.body, {"schemas": ("S", ("entry", "schemas"))})
    fired = False
    for kind, env, _node in events:
        rejected = {v[1] for v in env.values() if v[0] == "P" and v[2] is True and v[1] is not None}
        if kind == "continue" and rejected:
            ok, _ = an.tag_clean(env["schemas"][1], steps, "Schemas", rejected)
            fired = fired or not ok
    rep.control(f"{rule} registry adopted before the item is known to be kept", fired and an.clean["control.step_b"])
