"""C16 - each configuration option has exactly its documented effect (effect-scope clauses)."""
from __future__ import annotations

import ast
from typing import Any

from ..astutil import Locals, call_name, norm, receivers, short, where
from ..core import PKG, Report

LEVEL = ("effect-scope clauses (two-run comparisons are not decided): plumbing ConfigFile -> Config and CLI -> Config is the "
         "identity (defaults only under explicit `is None` tests); every read of every Config field, in Python (typed receivers "
         "from the abstract interpreter) and in templates, is inside the function/template that the README documents for that "
         "option, and no option is unread; options are applied uniformly (encoding on every write, field_prefix on every name "
         "constructor, one media-type classifier whose result - never the raw key - drives classification while the raw key is "
         "what is emitted); tags keep document order.")

# who may read each option (functions / templates), from the README's Configuration section
ALLOWED = {
    "meta_type": {"Project.__init__", "Project._create_package", "Project._build_metadata", "Project._build_pyproject_toml",
                  "config.Config.from_sources", "cli._process_config", "cli.generate"},
    "class_overrides": {"parser.properties.schemas.Class.from_string", "config.Config.from_sources"},
    "project_name_override": {"Project.__init__", "config.Config.from_sources"},
    "package_name_override": {"Project.__init__", "config.Config.from_sources"},
    "package_version_override": {"Project.__init__", "config.Config.from_sources"},
    "use_path_prefixes_for_title_model_names": {"parser.properties.model_property.ModelProperty.build", "config.Config.from_sources"},
    "post_hooks": {"Project._run_post_hooks", "config.Config.from_sources"},
    "docstrings_on_attributes": {"model.py.jinja", "client.py.jinja", "config.Config.from_sources"},
    "field_prefix": {"*name-constructor-argument*", "config.Config.from_sources"},
    "generate_all_tags": {"parser.openapi.EndpointCollection.from_data", "config.Config.from_sources"},
    "http_timeout": {"_get_project_for_url_or_path", "config.Config.from_sources"},
    "literal_enums": {"parser.properties.property_from_data", "config.Config.from_sources"},
    "document_source": {"_get_project_for_url_or_path"},
    "file_encoding": {"*encoding-argument*"},
    "content_type_overrides": {"utils.get_content_type", "config.Config.from_sources"},
    "overwrite": {"Project.build"},
    "output_path": {"Project.__init__"},
}


def run(rep: Report, ctx: Any) -> str:
    ix = ctx.py
    it, ji = ctx.flow
    rep.rule("R16.1", "plumbing is the identity: every ConfigFile field is copied to the Config field of the same name (defaults only "
                      "under an explicit None test), every CLI option reaches the same-named parameter unmodified")
    rep.rule("R16.2", "every read of a Config field happens in the function/template documented for that option; no option is unread")
    rep.rule("R16.3", "uniform application: every write passes encoding=config.file_encoding; every name constructor on document text "
                      "passes config.field_prefix; media types are classified only on the result of get_content_type while the "
                      "emitted Content-Type is the document's own key")
    rep.rule("R16.4", "generate_all_tags: the same endpoint object is appended to every collection; tags keep the document's order")

    cfgc = ix.cls("Config")
    cff = ix.cls("ConfigFile")
    fs = cfgc.methods.get("from_sources")
    rep.require(fs, "Config.from_sources")
    fields = list(ix.all_fields(cfgc))
    ffields = set(ix.all_fields(cff))
    rep.floor("config_fields", len(fields), 17)
    # ---- R16.1 -----------------------------------------------------------------------------------------------------
    ctor = next((c for c in ast.walk(fs.node) if isinstance(c, ast.Call) and call_name(c) == "Config"), None)
    rep.require(ctor, "Config(...) in from_sources")
    kws = {k.arg: k.value for k in ctor.keywords}
    params = {p.arg for p in fs.params}
    for fld in fields:
        v = kws.get(fld)
        key = f"Config.from_sources::{fld}"
        if v is None:
            rep.fail("R16.1", key, "field not set", where(fs, ctor))
            continue
        txt = norm(v)
        if fld in ffields and fld != "post_hooks":
            ok = txt in (f"config_file.{fld}", f"config_file.{fld} or {{}}")
            rep.check(ok, "R16.1", key, f"Config.{fld} is not the ConfigFile value ({txt})", where(fs, v), lhs=txt, rhs=f"config_file.{fld}")
        elif fld == "post_hooks":
            # the variable must be the file's list whenever that is not None
            assigns = [n for n in ast.walk(fs.node) if isinstance(n, ast.Assign) and norm(n.targets[0]) == txt]
            sel = next((n for n in ast.walk(fs.node) if isinstance(n, ast.If) and "config_file.post_hooks" in norm(n.test)), None)
            ok = sel is not None and norm(sel.test) in ("config_file.post_hooks is not None",) and any(
                isinstance(s, ast.Assign) and norm(s.value) == "config_file.post_hooks" for s in sel.body)
            rep.check(ok and bool(assigns), "R16.1", key,
                      "the configured post_hooks are replaced by the defaults under a condition other than `is None` (an explicit empty "
                      "list would fall back to the default hooks)", where(fs, sel or fs.node), lhs=norm(sel.test) if sel is not None else txt,
                      rhs="config_file.post_hooks is not None")
        else:
            rep.check(txt == fld and fld in params, "R16.1", key, f"Config.{fld} is not the same-named argument ({txt})", where(fs, v), lhs=txt, rhs=fld)
    # CLI -> _process_config -> from_sources
    cg = ix.func("cli.generate")
    pc = ix.func("cli._process_config")
    call = next((c for c in ast.walk(cg.node) if isinstance(c, ast.Call) and call_name(c) == "_process_config"), None)
    rep.require(call, "_process_config call")
    for k in call.keywords:
        want = {"meta_type": "meta"}.get(k.arg, k.arg)
        rep.check(norm(k.value) == want, "R16.1", f"cli.generate::{k.arg}", "CLI option not forwarded verbatim", where(cg, k.value), lhs=norm(k.value), rhs=want)
    fcall = next((c for c in ast.walk(pc.node) if isinstance(c, ast.Call) and call_name(c).endswith("from_sources")), None)
    rep.require(fcall, "from_sources call")
    pos = [p.arg for p in fs.params]
    given = {pos[i]: norm(a) for i, a in enumerate(fcall.args) if i < len(pos)}
    given.update({k.arg: norm(k.value) for k in fcall.keywords})
    pcl = Locals(pc.node)
    for name, val in given.items():
        defs = sorted({norm(v_) for v_ in pcl.values_of(val)})
        if name == "document_source":
            # a local (any spelling) that is only ever the url or the path option
            ok = bool(defs) and set(defs) <= {"url", "path"}
            want = "a local bound to `url` or `path`"
        elif name == "config_file":
            ok = bool(defs) and set(defs) <= {"ConfigFile()", "ConfigFile.load_from_path(path=config_path)"}
            want = "ConfigFile() | ConfigFile.load_from_path(path=config_path)"
        else:
            ok, want = val == name and not defs, name
        rep.check(ok, "R16.1", f"cli._process_config::{name}", "value modified between the CLI and Config", where(pc, fcall), lhs=[val, defs], rhs=want)
    pparams = {p.arg for p in pc.params}
    re_assigned = sorted({x.id for n in ast.walk(pc.node) if isinstance(n, (ast.Assign, ast.AugAssign, ast.AnnAssign))
                          for t in (n.targets if isinstance(n, ast.Assign) else [n.target]) for x in ast.walk(t)
                          if isinstance(x, ast.Name) and x.id in pparams})
    rep.check(not re_assigned, "R16.1", "cli._process_config::parameters-not-rebound", f"CLI values {re_assigned} are rebound before reaching Config",
              where(pc, pc.node), lhs=re_assigned, rhs=[])

    # ---- R16.2 ---------------------------------------------------------------------------------------------------------
    reads: dict[str, set[str]] = {f_: set() for f_ in fields}
    n_reads = 0
    for f in ix.all_functions:
        for n in ast.walk(f.node):
            if isinstance(n, ast.Attribute) and n.attr in reads and isinstance(n.ctx, ast.Load):
                av = it.node_av.get(id(n.value))
                if av is None or cfgc.qual not in av.types:
                    continue
                n_reads += 1
                site = short(f)
                par = _parent(f.node, n)
                if n.attr == "field_prefix" and isinstance(par, ast.Call) and call_name(par).rsplit(".", 1)[-1] in ("PythonIdentifier", "ClassName", "set_python_name"):
                    site = "*name-constructor-argument*"
                if n.attr == "field_prefix" and isinstance(par, ast.keyword) and par.arg == "prefix":
                    site = "*name-constructor-argument*"
                if n.attr == "file_encoding" and isinstance(par, ast.keyword) and par.arg == "encoding":
                    site = "*encoding-argument*"
                if f.parent is not None:
                    site = short(f.parent)
                reads[n.attr].add(site)
    for k, (txt, attr, line, types) in ji.attr_reads.items():
        if attr in reads and cfgc.qual in types:
            n_reads += 1
            reads[attr].add(k[0])
    rep.floor("config_reads", n_reads, 40)
    for fld in fields:
        allowed = ALLOWED.get(fld)
        rep.require(allowed is not None, f"documented readers of {fld}")
        extra = sorted(reads[fld] - allowed)
        rep.check(not extra, "R16.2", f"Config.{fld}::readers", f"option `{fld}` is consulted in {extra}: it acquires an effect the documentation "
                  "does not describe", where="", lhs=sorted(reads[fld]), rhs=sorted(allowed))
        rep.check(bool(reads[fld] - {"config.Config.from_sources"}), "R16.2", f"Config.{fld}::has-reader", f"option `{fld}` is never read: its effect is lost",
                  where="", lhs=sorted(reads[fld]), rhs="at least one reader")

    # ---- R16.3 -----------------------------------------------------------------------------------------------------------
    n_w = 0
    for f in ix.cls("Project").methods.values():
        for c in ast.walk(f.node):
            if isinstance(c, ast.Call) and isinstance(c.func, ast.Attribute) and c.func.attr == "write_text":
                n_w += 1
                enc = {k.arg: norm(k.value) for k in c.keywords}.get("encoding")
                rep.check(enc == "self.config.file_encoding", "R16.3", f"{short(f)}::write_text({norm(c.func.value)[:30]})",
                          "a file is written without the configured encoding", where(f, c), lhs=enc, rhs="self.config.file_encoding")
    rep.floor("write_text_sites", n_w, 15)
    n_pi = 0
    for f in ix.all_functions:
        if f.module.name == f"{PKG}.utils":
            continue
        for c in ast.walk(f.node):
            if isinstance(c, ast.Call) and call_name(c).rsplit(".", 1)[-1] in ("PythonIdentifier", "ClassName"):
                args = {k.arg: k.value for k in c.keywords}
                pre = args.get("prefix", c.args[1] if len(c.args) > 1 else None)
                if pre is None:
                    continue
                n_pi += 1
                ptxt = norm(pre)
                ok = ptxt.endswith("config.field_prefix")
                if isinstance(pre, ast.Constant) and pre.value in ("tag", ""):
                    ok = True  # frozen: tags are prefixed 'tag'; the constant name 'additional' needs no prefix
                rep.check(ok, "R16.3", f"{short(f)}::{call_name(c).rsplit('.', 1)[-1]}({norm(c.args[0] if c.args else args.get('value'))[:30]})",
                          "a name derived from the document does not use the configured field_prefix", where(f, c), lhs=ptxt, rhs="config.field_prefix")
    rep.floor("name_constructor_sites", n_pi, 20)
    # media types
    for fname in ("responses._source_by_content_type", "bodies.body_from_data"):
        f = ix.func(fname)
        raw = None
        parsed = None
        for n in ast.walk(f.node):
            if isinstance(n, ast.Assign) and isinstance(n.value, ast.Call) and call_name(n.value).endswith("get_content_type"):
                parsed = norm(n.targets[0])
                raw = norm(n.value.args[0]) if n.value.args else None  # the document's own key is whatever is handed to the classifier
        rep.check(parsed is not None, "R16.3", f"{short(f)}::classifies-through-get_content_type", "media types are not classified through get_content_type",
                  where(f, f.node))
        if parsed is None:
            continue
        bad = []
        for n in ast.walk(f.node):
            tests = []
            if isinstance(n, ast.Compare):
                tests = [n.left] + list(n.comparators)
            elif isinstance(n, ast.Call) and isinstance(n.func, ast.Attribute) and n.func.attr in ("startswith", "endswith", "get") and \
                    not call_name(n).endswith("get_content_type"):
                tests = [n.func.value] + list(n.args)
            for t in tests:
                if isinstance(t, ast.Name) and t.id == raw:
                    bad.append(norm(n)[:60])
        rep.check(not bad, "R16.3", f"{short(f)}::classification-uses-overridden-type",
                  f"the raw media type key is tested directly ({bad}): content_type_overrides has no effect on this decision", where(f, f.node),
                  lhs=bad, rhs=f"only `{parsed}` is tested")
    bfd = ix.func("bodies.body_from_data")
    bodies = [c for c in ast.walk(bfd.node) if isinstance(c, ast.Call) and call_name(c) == "Body"]
    rep.require(bodies, "Body(...) construction")
    for c in bodies:
        loop = next((n for n in ast.walk(bfd.node) if isinstance(n, ast.For) and norm(n.iter).endswith(".items()") and any(x is c for x in ast.walk(n))), None)
        rep.require(loop, "media type loop")
        keyvar = norm(loop.target.elts[0]) if isinstance(loop.target, ast.Tuple) else None
        ct = {k.arg: norm(k.value) for k in c.keywords}.get("content_type")
        rep.check(ct == keyvar, "R16.3", "body_from_data::content-type-is-the-documents-key",
                  "the Content-Type that will be sent is the normalised/overridden media type, not the one the document declares", where(bfd, c),
                  lhs=ct, rhs=keyvar)
    # ---- R16.4 --------------------------------------------------------------------------------------------------------------
    fd = ix.func("EndpointCollection.from_data")
    fl = Locals(fd.node)
    efd_calls = [c for c in ast.walk(fd.node) if isinstance(c, ast.Call) and call_name(c) == "Endpoint.from_data"]
    rep.require(efd_calls, "Endpoint.from_data(...) call")
    tagv = next((norm(k.value) for k in efd_calls[0].keywords if k.arg == "tags"), "")
    tags = [n for n in ast.walk(fd.node) if isinstance(n, ast.Assign) and norm(n.targets[0]) == tagv]
    rep.require(tags, "tags assignment")
    first = tags[0].value
    ops = set(fl.bound_from(lambda v: v.startswith("getattr("), "assign"))
    ordered = isinstance(first, ast.ListComp) and not any(isinstance(x, ast.Call) and call_name(x) in ("sorted", "set", "frozenset") for x in ast.walk(first)) \
        and any(norm(first.generators[0].iter).startswith(f"{o}.tags") for o in ops)
    rep.check(ordered, "R16.4", "EndpointCollection.from_data::tags-keep-document-order",
              "tags are reordered / de-duplicated through a set: with generate_all_tags off the module lands under another tag than the first listed",
              where(fd, tags[0]), lhs=norm(first)[:80], rhs="[PythonIdentifier(tag) for tag in operation.tags or ['default']]")
    cut = [n for n in tags[1:] if norm(n.value) == f"{tagv}[:1]"]
    guard = next((n for n in ast.walk(fd.node) if isinstance(n, ast.If) and "generate_all_tags" in norm(n.test)), None)
    rep.check(bool(cut) and guard is not None and norm(guard.test) == "not config.generate_all_tags" and cut[0] in guard.body, "R16.4",
              "EndpointCollection.from_data::first-tag-unless-all", "`tags[:1]` is not applied exactly when generate_all_tags is off", where(fd, fd.node))
    # every collection of the operation receives the endpoint object itself (the local bound from Endpoint.from_data / add_parameters ...)
    colls = set(fl.bound_from(lambda v: v.startswith("[") and ".setdefault(" in v, "assign"))
    endpoints = set(fl.bound_from(lambda v: v.startswith("Endpoint.from_data("), "assign[0]"))
    apps = [c for lp in ast.walk(fd.node) if isinstance(lp, ast.For) and norm(lp.iter) in colls
            for r, c in receivers(lp, "append") if r == f"{norm(lp.target)}.endpoints"]
    rep.check(bool(apps) and all(c.args and norm(c.args[0]) in endpoints for c in apps), "R16.4", "EndpointCollection.from_data::same-endpoint-object",
              "collections receive per-tag copies", where(fd, fd.node), lhs=[norm(c) for c in apps], rhs="<collection>.endpoints.append(<endpoint>)")
    rep.not_decided += ["'only rename' / 'same wire behaviour' across two runs with different option values"]
    return LEVEL


def _parent(fn: ast.AST, node: ast.AST) -> ast.AST | None:
    for n in ast.walk(fn):
        for ch in ast.iter_child_nodes(n):
            if ch is node:
                return n
    return None
