"""C16 - each configuration option has exactly its documented effect (effect-scope clauses)."""
from __future__ import annotations

import ast
from typing import Any

from jinja2 import nodes as jnodes

from ..astutil import Locals, call_name, names_in, norm, receivers, region, role_anon, short, where
from ..cfg import walk_own
from ..core import PKG, AnalysisError, Report

LEVEL = ("effect-scope clauses (two-run comparisons are not decided): plumbing ConfigFile -> Config and CLI -> Config is the "
         "identity, decided by symbolic execution on the value that reaches each field on every path (defaults only where the file's "
         "value is None); every read of every Config field, in Python (typed receivers "
         "from the abstract interpreter) and in templates, is inside the function/template that the README documents for that "
         "option or inside a private helper working only for it, and no option is unread; options are applied uniformly (encoding on every text write of the package, field_prefix on "
         "every name constructor, one media-type classifier whose result - never the raw key - drives classification while the raw key is "
         "what is emitted); tags keep document order, every collection receives the endpoint object itself and the builder renders each "
         "endpoint module from that endpoint; the package name follows the project name in effect.")

# who may read each option (functions / templates), from the README's Configuration section.  The readers are the public entry points
# the documentation speaks about (the generate function that fetches the document, Project.__init__ that names things, Project.build
# that lays out / writes / post-processes the package, the parser function that decides the representation); where Project.build
# delegates to a stage method of its own, the stage that is documented for the option is named as well, so that the other stages (models,
# api) stay closed to it.  A read inside any other private helper belongs to whoever calls the helper.
ALLOWED = {
    "meta_type": {"Project.__init__", "Project.build", "Project._create_package", "Project._build_metadata", "Project._build_pyproject_toml",
                  "config.Config.from_sources", "cli.generate"},
    "class_overrides": {"parser.properties.schemas.Class.from_string", "config.Config.from_sources"},
    "project_name_override": {"Project.__init__", "config.Config.from_sources"},
    "package_name_override": {"Project.__init__", "config.Config.from_sources"},
    "package_version_override": {"Project.__init__", "config.Config.from_sources"},
    "use_path_prefixes_for_title_model_names": {"parser.properties.model_property.ModelProperty.build", "config.Config.from_sources"},
    "post_hooks": {"Project.build", "Project._run_post_hooks", "config.Config.from_sources"},
    "docstrings_on_attributes": {"model.py.jinja", "client.py.jinja", "config.Config.from_sources"},
    "field_prefix": {"*name-constructor-argument*", "config.Config.from_sources"},
    "generate_all_tags": {"parser.openapi.EndpointCollection.from_data", "config.Config.from_sources"},
    "http_timeout": {"generate", "config.Config.from_sources"},
    "literal_enums": {"parser.properties.property_from_data", "config.Config.from_sources"},
    "document_source": {"generate"},
    "file_encoding": {"*encoding-argument*"},
    "content_type_overrides": {"utils.get_content_type", "config.Config.from_sources"},
    "overwrite": {"Project.build"},
    "output_path": {"Project.__init__"},
}


# functions with a documented effect of their own: the readers named above and the stages of Project.build.  A read inside one of them
# belongs to it; a read inside any other private helper belongs to whoever calls the helper.
_UNITS = {fn for fns in ALLOWED.values() for fn in fns if not fn.startswith("*") and not fn.endswith(".jinja")} | {
    "Project._build_models", "Project._build_api", "Project._build_setup_py", "Project._run_command", "Project._get_errors"}


_TEMPLATE_UNITS = {fn for fns in ALLOWED.values() for fn in fns if fn.endswith(".jinja")}


def run(rep: Report, ctx: Any) -> str:
    ix = ctx.py
    it, ji = ctx.flow
    rep.rule("R16.1", "plumbing is the identity, decided per path on the value that arrives (symbolic execution of from_sources, "
                      "_process_config and generate with their private helpers inlined): every ConfigFile field reaches the Config field "
                      "of the same name (another value only where the file's value `is None`, or an empty container where it is falsy), "
                      "every option of the generate command reaches the same-named from_sources parameter unmodified (the document "
                      "source is the url or the path option itself, however it is picked), the config file named on the command line is "
                      "loaded whenever one is named")
    rep.rule("R16.2", "every read of a Config field happens in the function/template documented for that option (a read inside a private "
                      "helper that has no documented effect of its own belongs to the functions that call the helper; field_prefix / "
                      "file_encoding are documented by where their value ends up - the prefix of a name constructor, the encoding of a "
                      "text write (write_text / open for writing; never of something that reads or decodes) - directly, through a local or through a parameter of a private helper used for nothing else); no option is unread")
    rep.rule("R16.3", "uniform application: every text write in the package (write_text / open for writing) passes "
                      "encoding=<Config>.file_encoding; every name constructor on document text "
                      "passes config.field_prefix (either one also through a local alias or a parameter of a private helper, judged at every "
                      "call site); response_from_data and body_from_data (private helpers inlined, executed symbolically) classify media types "
                      "through get_content_type and take no decision on the key handed to it, while the emitted Content-Type is that key")
    rep.rule("R16.4", "generate_all_tags: on every path the tags handed to Endpoint.from_data are the operation's own in document order, all "
                      "of them when the option is on and the first one when it is off; the endpoint object itself is appended, in a loop over "
                      "all those tags / their collections, to the collection selected by the loop variable; the "
                      "builder renders the module of every (collection, endpoint) pair from that very endpoint on every path")
    rep.rule("R16.5", "project_name_override / package_name_override: where the package name is not overridden it is converted from the "
                      "project name in effect (override included) by replacing `-` with `_`")

    rep.rule("R16.6", "content_type_overrides is keyed by the media type as the document spells it: every consultation of the table in "
                      "get_content_type (private helpers inlined, executed symbolically: `.get(k, ...)`, `[k]`, `k in`, `k == <one of its keys>`) "
                      "uses as k the media-type parameter itself - not something computed from it, which would match other entries than "
                      "the ones the user wrote")

    rep.rule("R16.7", "literal_enums changes the representation only: the property classes property_from_data (private helpers inlined, executed "
                      "symbolically) constructs on the paths where the option is on and on the paths where it is off present the same interface "
                      "to the templates that generate code around a property - the same set of exported macros in their property templates (callers "
                      "test for a macro's presence and fall back to generic code when it is missing) and the same allowed parameter locations")

    rep.rule("R16.8", "use_path_prefixes_for_title_model_names off means: a schema that has a title is named by that title alone.  On every path "
                      "through ModelProperty.build (private helpers inlined, executed symbolically) that can be taken with the option off and "
                      "`<schema>.title` set, the string handed to Class.from_string is computed from `<schema>.title` and from no other "
                      "parameter (no parent name, no property key) - whatever else the path tests")
    rep.rule("R16.9", "what the configuration file says is what the options are: the model the file is decoded into (ConfigFile and the models "
                      "nested in its fields) switches on no pydantic facility that converts, rewrites or renames values while decoding - no "
                      "rewriting option in model_config / class Config / Field(...) / StringConstraints(...) / constr(...) (number-to-string "
                      "coercion, stripping, case folding, aliases), no validator function or method that can replace a value - and every "
                      "field is declared with the type of the Config field it feeds (None apart)")
    rep.rule("R16.10", "class_overrides is keyed by the generated class name (the README: look the names up in the generated models folder): every "
                       "consultation of the table in Class.from_string (private helpers inlined, executed symbolically: `.get(k, ...)`, `[k]`, "
                       "`k in`, `k == <one of its keys>`) uses as k the result of `ClassName(<computed from the string parameter>, ...)` - the name "
                       "as it is minted - not the document's spelling of it nor anything computed from the minted name")
    rep.rule("R16.11", "content_type_overrides changes how a body is encoded, not what it is announced as: in every template (macros included) "
                       "that writes a body's content_type, what is written is `<body>.content_type` itself, and whether it is written does not "
                       "depend on a test of `<body>.body_type` (the classification the override table changes) - truth table over the tests that "
                       "guard the writes: for every outcome of the other tests, the outcomes of the body_type tests do not decide whether a "
                       "Content-Type is written")
    cfgc = ix.cls("Config")
    cff = ix.cls("ConfigFile")
    fs = cfgc.methods.get("from_sources")
    rep.require(fs, "Config.from_sources")
    fields = list(ix.all_fields(cfgc))
    rep.floor("config_fields", len(fields), 9)
    # ---- R16.1 -----------------------------------------------------------------------------------------------------
    # Decided on values, not on the spelling of one call: from_sources is executed symbolically (every path through its tests, locals
    # replaced by what they are bound from, dict literals filled key by key, private helpers inlined); on every path the value that
    # reaches each field of the returned Config(...) must be the file's / the caller's value.
    _r161_from_sources(rep, ix, fs, cfgc, cff, fields)
    _r161_cli(rep, ix, fs)

    # ---- R16.2 ---------------------------------------------------------------------------------------------------------
    # A read is attributed to the documented function it belongs to: a private helper that is not itself a documented reader counts as
    # part of every function that calls it (extract-helper moves code, not behaviour).  The two options that are documented by the
    # position their value ends up in (the prefix of a name constructor, the encoding of a write) are recognised by where the value read
    # flows - directly, through a local that is used for nothing else, or through a parameter of a private helper used for nothing else.
    callers = _callers(ix)
    reads: dict[str, set[str]] = {f_: set() for f_ in fields}
    n_reads = 0
    for f in ix.all_functions:
        if f.parent is not None:
            continue  # a closure is walked with the function that contains it
        for n in ast.walk(f.node):
            if isinstance(n, ast.Attribute) and n.attr in reads and isinstance(n.ctx, ast.Load):
                if not _is_config_attr(n, n.attr, it, cfgc):
                    continue
                n_reads += 1
                allowed = ALLOWED.get(n.attr, set())
                if n.attr in _VALUE_SINKS and _VALUE_SINKS[n.attr][0] in allowed and _reaches_only(ix, f, n, _VALUE_SINKS[n.attr][1]):
                    reads[n.attr].add(_VALUE_SINKS[n.attr][0])
                else:
                    reads[n.attr] |= _read_sites(f, allowed, callers, set())
    # templates: the same attribution.  A template that Python renders on its own is what the documentation speaks about; a template that
    # is only imported / included / extended (a macro library) works for the templates that load it.
    loaders = _template_loaders(ctx.jinja)
    for k, (txt, attr, line, types) in ji.attr_reads.items():
        if attr in reads and cfgc.qual in types:
            n_reads += 1
            reads[attr] |= _template_read_sites(k[0], ALLOWED.get(attr, set()), set(ji.render_kwargs), loaders, set())
    rep.floor("config_reads", n_reads, 30)
    for fld in fields:
        allowed = ALLOWED.get(fld)
        rep.require(allowed is not None, f"documented readers of {fld}")
        extra = sorted(reads[fld] - allowed)
        hint = f" (its value ends up somewhere else than in {_VALUE_SINKS[fld][2]})" if fld in _VALUE_SINKS else ""
        rep.check(not extra, "R16.2", f"Config.{fld}::readers", f"option `{fld}` is consulted in {extra}{hint}: it acquires an effect the documentation "
                  "does not describe", where="", lhs=sorted(reads[fld]), rhs=sorted(allowed))
        rep.check(bool(reads[fld] - {"config.Config.from_sources"}), "R16.2", f"Config.{fld}::has-reader", f"option `{fld}` is never read: its effect is lost",
                  where="", lhs=sorted(reads[fld]), rhs="at least one reader")

    # ---- R16.3 -----------------------------------------------------------------------------------------------------------
    # every text file written anywhere in the package is written with the configured encoding - at the call that writes, wherever a
    # refactoring puts it (method, extracted helper, module-level function)
    for f in ix.all_functions:
        if f.parent is not None:
            continue
        fl_ = None
        for c in ast.walk(f.node):
            if not isinstance(c, ast.Call):
                continue
            mode = _text_write(c)
            if mode is None:
                continue
            enc = {k.arg: k.value for k in c.keywords}.get("encoding")
            fl_ = fl_ or Locals(f.node)
            # a local alias of the option / a parameter of a private writer helper stands for what it is given
            srcs = _origins(ix, f, enc, callers) if enc is not None else []
            ok = bool(srcs) and all(_is_config_attr(v, "file_encoding", it, cfgc) for _, v in srcs)
            tgt = c.func.value if mode == "write_text" else (c.args[0] if c.args else c.func)
            if isinstance(tgt, ast.Name) and len(fl_.values_of(tgt.id)) == 1:
                tgt = fl_.values_of(tgt.id)[0]  # the key names what the path is computed from, not the local that holds it
            rep.check(ok, "R16.3", f"{short(f)}::{mode}({role_anon(tgt, f.node)[:60]})",
                      "a file is written without the configured encoding", where(f, c), lhs=norm(enc) if enc is not None else None, rhs="<config>.file_encoding")
    # floor: writes performed by Project.build, a private helper's writes counted at each place it is called from
    pb = ix.cls("Project").methods.get("build")
    rep.require(pb, "Project.build")
    rep.floor("write_text_sites", _write_events(ix, pb, set()), 8)
    n_pi = 0
    for f in ix.all_functions:
        if f.module.name == f"{PKG}.utils":
            continue
        for c in ast.walk(f.node):
            if isinstance(c, ast.Call) and call_name(c).rsplit(".", 1)[-1] in ("PythonIdentifier", "ClassName"):
                args = {k.arg: k.value for k in c.keywords}
                pre = args.get("prefix", c.args[1] if len(c.args) > 1 else None)
                if pre is None:
                    continue
                # the prefix is the option itself, however it travels there (a local read once, a parameter of a private helper);
                # frozen: tags are prefixed 'tag'; the constant name 'additional' needs no prefix
                srcs = _origins(ix, f, pre, callers)
                n_pi += len(srcs)  # a constructor inside a private helper counts once per place that supplies its prefix
                ok = all(_is_config_attr(v, "field_prefix", it, cfgc) or (isinstance(v, ast.Constant) and v.value in ("tag", "")) for _, v in srcs)
                named = c.args[0] if c.args else args.get("value")
                rep.check(ok, "R16.3", f"{short(f)}::{call_name(c).rsplit('.', 1)[-1]}({role_anon(named, f.node)[:40] if named is not None else ''})",
                          "a name derived from the document does not use the configured field_prefix", where(f, c),
                          lhs=sorted({norm(v) for _, v in srcs}), rhs="config.field_prefix")
    rep.floor("name_constructor_sites", n_pi, 12)
    _r163_media_types(rep, ix)
    _r166_override_key(rep, ix, cfgc)
    _r1610_class_override_key(rep, ix, cfgc)
    _r1611_announced_as_itself(rep, ctx.jinja)
    _r167_switched_classes(rep, ix, ctx.jinja)
    _r168_title_names(rep, ix)
    _r169_file_model(rep, ix, cfgc, cff)
    # ---- R16.4 --------------------------------------------------------------------------------------------------------------
    _r164_tags(rep, ix, callers)
    _r164_builder(rep, ix)
    _r165_package_name(rep, ix)
    rep.not_decided += ["'only rename' / 'same wire behaviour' across two runs with different option values"]
    return LEVEL


# ---- where a value comes from / goes to, across locals and private helpers ------------------------------------------------------------

def _private_name(n: str) -> bool:
    return n.startswith("_") and not n.startswith("__")


def _is_private(f: Any) -> bool:
    """not part of anybody's interface: a function with a private name, or a (non-special) method of a class with a private name"""
    return _private_name(f.name) or (f.cls is not None and _private_name(f.cls.name) and not f.name.startswith("__"))


def _private_class_method(ix: Any, g: Any, c: ast.Call) -> Any:
    """the method a call `<_PrivateClass>.m(...)` in g executes, the class being one of g's own module (`self.m` / `cls.m` inside a method
    of such a class included); None for any other call"""
    cn = call_name(c)
    if "." not in cn:
        return None
    head, last = cn.rsplit(".", 1)
    if last.startswith("__"):
        return None
    k = g.cls if head in ("self", "cls") and g.cls is not None else g.module.classes.get(head)
    if k is None or not _private_name(k.name):
        return None
    return ix.find_method(k, last)


def _helpers_of(ix: Any, g: Any) -> list[Any]:
    """the functions that work for g alone as far as the interface is concerned: astutil.region at depth 1 (private names of g's module /
    class) and the methods of private classes of g's module that g calls through the class"""
    out = region(ix, g, 1)[1:]
    seen = {h.qual for h in out} | {g.qual}
    for c in ast.walk(g.node):
        if isinstance(c, ast.Call):
            h = _private_class_method(ix, g, c)
            if h is not None and h.qual not in seen and h.module is g.module:
                seen.add(h.qual)
                out.append(h)
    return out


def _helper_called(ix: Any, g: Any, c: ast.Call, helpers: list[Any]) -> Any:
    """the helper of g (one of _helpers_of) that call c executes, if any"""
    h = _private_class_method(ix, g, c)
    if h is not None:
        return next((x for x in helpers if x.qual == h.qual), None)
    last = call_name(c).rsplit(".", 1)[-1]
    return next((x for x in helpers if x.name == last and _private_name(x.name)), None)


def _callers(ix: Any) -> dict[str, list[Any]]:
    """private helper -> the functions that call it as one (the inverse of astutil.region at depth 1)"""
    out: dict[str, list[Any]] = {}
    for g in ix.all_functions:
        for h in _helpers_of(ix, g):
            if g.qual != h.qual:
                out.setdefault(h.qual, []).append(g)
    return out


def _outermost(f: Any) -> Any:
    while f.parent is not None:
        f = f.parent
    return f


def _read_sites(f: Any, allowed: set[str], callers: dict[str, list[Any]], seen: set[str]) -> set[str]:
    """the function(s) a read inside f belongs to: f itself when it is a documented reader (of this or of another option: a unit with an
    effect of its own) or part of the interface, else - f being a private helper - whoever it works for"""
    f = _outermost(f)
    if short(f) in allowed or short(f) in _UNITS or not _is_private(f) or f.qual in seen:
        return {short(f)}
    out: set[str] = set()
    for g in callers.get(f.qual, []):
        out |= _read_sites(g, allowed, callers, seen | {f.qual})
    return out or {short(f)}


def _template_loaders(jx: Any) -> dict[str, set[str]]:
    """template -> the templates that load it (`import` / `from ... import` / `include` / `extends`).  A name computed at run time
    (`"property_templates/" + property.template`) stands for every template it can name: those that start with its constant prefix,
    every template when there is none."""
    out: dict[str, set[str]] = {}
    for ti in jx.templates.values():
        for n in ti.tree.find_all((jnodes.Import, jnodes.FromImport, jnodes.Include, jnodes.Extends)):
            t = n.template
            names: list[str]
            if isinstance(t, jnodes.Const) and isinstance(t.value, str):
                names = [t.value]
            elif isinstance(t, (jnodes.List, jnodes.Tuple)) and all(isinstance(x, jnodes.Const) for x in t.items):
                names = [x.value for x in t.items]
            else:
                head = t
                while isinstance(head, (jnodes.Add, jnodes.Concat)):
                    head = head.left if isinstance(head, jnodes.Add) else head.nodes[0]
                prefix = head.value if isinstance(head, jnodes.Const) and isinstance(head.value, str) and head is not t else ""
                names = [x for x in jx.templates if x.startswith(prefix)]
            for name in names:
                if name != ti.name:
                    out.setdefault(name, set()).add(ti.name)
    return out


def _template_read_sites(t: str, allowed: set[str], rendered: set[str], loaders: dict[str, set[str]], seen: set[str]) -> set[str]:
    """the template(s) a read inside template t belongs to: t itself when it is a documented reader (of this or of another option) or is
    rendered on its own, else - t being a library of macros / a fragment - whatever loads it"""
    if t in allowed or t in _TEMPLATE_UNITS or t in rendered or t in seen:
        return {t}
    out: set[str] = set()
    for u in loaders.get(t, ()):
        out |= _template_read_sites(u, allowed, rendered, loaders, seen | {t})
    return out or {t}


def _calls_of(g: Any, h: Any) -> list[ast.Call]:
    if not _private_name(h.name):  # a method of a private class: called through the class
        return [c for c in ast.walk(g.node) if isinstance(c, ast.Call) and call_name(c).rsplit(".", 1)[-1] == h.name and
                call_name(c).rsplit(".", 1)[0] in ({h.cls.name} | ({"self", "cls"} if g.cls is h.cls else set()))]
    return [c for c in ast.walk(g.node) if isinstance(c, ast.Call) and call_name(c).rsplit(".", 1)[-1] == h.name]


def _param_names(f: Any) -> set[str]:
    return {p.arg for p in f.params}


def _reaches_only(ix: Any, f: Any, n: ast.AST, sink: Any, depth: int = 3) -> bool:
    """the value of expression n (in f) is used only in a position `sink(parent, node, function)` accepts: directly, through a local that
    it is assigned to and that is used nowhere else, or as the argument of a private helper whose parameter is used nowhere else"""
    par = _parent(f.node, n)
    if par is None:
        return False
    if sink(par, n, f.node):
        return True
    if depth <= 0:
        return False
    if isinstance(par, (ast.Tuple, ast.List)) and not any(isinstance(x, ast.Starred) for x in par.elts):
        # `a, b = x, y`: the value goes to the target at its own position
        asg = _parent(f.node, par)
        if isinstance(asg, ast.Assign) and asg.value is par and all(isinstance(t, (ast.Tuple, ast.List)) and len(t.elts) == len(par.elts) for t in asg.targets):
            i = next(i for i, x in enumerate(par.elts) if x is n)
            targets = [t.elts[i] for t in asg.targets]
            if not all(isinstance(t, ast.Name) for t in targets):
                return False
            names = {t.id for t in targets}
            uses = [m for m in ast.walk(f.node) if isinstance(m, ast.Name) and m.id in names and isinstance(m.ctx, ast.Load)]
            return all(_reaches_only(ix, f, m, sink, depth - 1) for m in uses)
        return False
    if isinstance(par, (ast.Assign, ast.AnnAssign, ast.NamedExpr)) and par.value is n:
        targets = par.targets if isinstance(par, ast.Assign) else [par.target]
        if not all(isinstance(t, ast.Name) for t in targets):
            return False
        if isinstance(par, ast.NamedExpr) and not isinstance(_parent(f.node, par), ast.Expr) and not _reaches_only(ix, f, par, sink, depth - 1):
            return False  # the walrus expression is itself a use of the value
        names = {t.id for t in targets}
        uses = [m for m in ast.walk(f.node) if isinstance(m, ast.Name) and m.id in names and isinstance(m.ctx, ast.Load)]
        return all(_reaches_only(ix, f, m, sink, depth - 1) for m in uses)
    call = par if isinstance(par, ast.Call) else _parent(f.node, par) if isinstance(par, ast.keyword) else None
    if isinstance(call, ast.Call) and call.func is not n:
        h = _helper_called(ix, f, call, _helpers_of(ix, f))
        if h is not None:
            pname = next((k for k, v in _bind_call(call, h).items() if v is n), None)
            if pname is None or pname not in _param_names(h):
                return False
            uses = [m for m in ast.walk(h.node) if isinstance(m, ast.Name) and m.id == pname and isinstance(m.ctx, ast.Load)]
            stores = [m for m in ast.walk(h.node) if isinstance(m, ast.Name) and m.id == pname and isinstance(m.ctx, ast.Store)]
            return not stores and all(_reaches_only(ix, h, m, sink, depth - 1) for m in uses)
    return False


def _origins(ix: Any, f: Any, e: ast.AST, callers: dict[str, list[Any]], depth: int = 3, unpack: bool = False, stop: Any = None) -> list[tuple[Any, ast.AST]]:
    """(function, expression) pairs the value of e (in f) is taken from: a local stands for everything it is assigned, a parameter of a
    private helper for what each of its call sites passes (its default where a call passes nothing); anything else stands for itself.
    With `unpack`, a name bound by unpacking `a, b = call(...)` stands for `call(...)[i]`."""
    if isinstance(e, ast.NamedExpr):
        return _origins(ix, f, e.value, callers, depth, unpack, stop)  # `(x := v)` has the value of v
    if not isinstance(e, ast.Name) or depth <= 0 or (stop is not None and stop(f, e)):
        return [(f, e)]
    defs = Locals(f.node).defs.get(e.id, [])
    if defs:
        out: list[tuple[Any, ast.AST]] = []
        for k, _, v in defs:
            if v is None or not k.startswith("assign"):
                return [(f, e)]  # a loop / with / augmented binding: not a plain copy of something
            if "[" in k:
                idx = [int(x) for x in k[len("assign"):].replace("]", "").split("[") if x]
                if len(idx) != 1:
                    return [(f, e)]
                if isinstance(v, (ast.Tuple, ast.List)) and idx[0] < len(v.elts) and not any(isinstance(x, ast.Starred) for x in v.elts):
                    out += _origins(ix, f, v.elts[idx[0]], callers, depth - 1, unpack, stop)  # `a, b = x, y`
                elif unpack:
                    # the i-th item of what a private helper returns is the i-th item of each tuple it returns
                    back = _returned(ix, f, v, idx[0], callers, depth - 1, stop)
                    out += back if back is not None else [(f, ast.copy_location(ast.Subscript(value=v, slice=ast.Constant(value=idx[0]), ctx=ast.Load()), v))]
                else:
                    return [(f, e)]
                continue
            back = _returned(ix, f, v, None, callers, depth - 1, stop) if unpack else None
            if back is not None:
                out += back
                continue
            out += [(f, v)] if isinstance(v, ast.Name) and v.id == e.id else _origins(ix, f, v, callers, depth - 1, unpack, stop)
        return out
    if e.id in _param_names(f) and _is_private(f) and callers.get(f.qual):
        a = f.node.args
        allpos = [*a.posonlyargs, *a.args]
        defaults = {p.arg: d for p, d in zip(allpos[len(allpos) - len(a.defaults):], a.defaults)}
        defaults.update({p.arg: d for p, d in zip(a.kwonlyargs, a.kw_defaults) if d is not None})
        out = []
        for g in callers[f.qual]:
            for c in _calls_of(g, f):
                if any(isinstance(x, ast.Starred) for x in c.args) or any(k.arg is None for k in c.keywords):
                    return [(f, e)]
                v = _bind_call(c, f).get(e.id)
                if v is not None:
                    out += _origins(ix, g, v, callers, depth - 1, unpack, stop)
                elif e.id in defaults:
                    out.append((f, defaults[e.id]))
                else:
                    return [(f, e)]
        return out or [(f, e)]
    return [(f, e)]


def _returned(ix: Any, f: Any, v: ast.AST, idx: int | None, callers: dict[str, list[Any]], depth: int, stop: Any) -> list[tuple[Any, ast.AST]] | None:
    """where the value of `<private helper of f>(...)` (its idx-th item, the helper returning tuple displays) is taken from: the origins,
    inside the helper, of what each of its `return` statements returns.  None when v is not such a call or a return is not that plain."""
    if not isinstance(v, ast.Call) or depth <= 0:
        return None
    h = _helper_called(ix, f, v, _helpers_of(ix, f))
    if h is None or h.qual == f.qual:
        return None
    rets, todo = [], list(h.node.body)
    while todo:
        n = todo.pop()
        if isinstance(n, ast.Return):
            rets.append(n)
        elif isinstance(n, (ast.Yield, ast.YieldFrom)):
            return None
        elif not isinstance(n, (ast.FunctionDef, ast.AsyncFunctionDef, ast.Lambda, ast.ClassDef)):
            todo += list(ast.iter_child_nodes(n))
    out: list[tuple[Any, ast.AST]] = []
    for r in rets:
        rv = r.value
        if rv is not None and idx is not None:
            rv = rv.elts[idx] if isinstance(rv, ast.Tuple) and idx < len(rv.elts) and not any(isinstance(x, ast.Starred) for x in rv.elts) else None
        if rv is None:
            return None
        out += _origins(ix, h, rv, callers, depth, True, stop)
    return out or None


_NAME_CTORS = ("PythonIdentifier", "ClassName")  # (value, prefix, ...)


def _is_prefix_position(par: ast.AST, n: ast.AST, fn: ast.AST) -> bool:
    """the prefix handed to a name constructor: its second argument, or any keyword named `prefix`"""
    if isinstance(par, ast.keyword):
        return par.arg == "prefix"
    return isinstance(par, ast.Call) and len(par.args) > 1 and par.args[1] is n and not isinstance(par.args[0], ast.Starred) and _last(par) in _NAME_CTORS


def _is_encoding_position(par: ast.AST, n: ast.AST, fn: ast.AST) -> bool:
    """the encoding of a text WRITE (`write_text` / `open` for writing): the option is documented as the encoding generated files are
    written in, so an `encoding=` handed to anything that reads or decodes (a template loader, `read_text`, `open` for reading, a
    subprocess) is another effect.  An `encoding=` of a private helper is judged by where the helper's parameter ends up."""
    if not (isinstance(par, ast.keyword) and par.arg == "encoding"):
        return False
    call = _parent(fn, par)
    return isinstance(call, ast.Call) and _text_write(call) is not None


# options documented by the position their value is used in: marker in ALLOWED, the position
_VALUE_SINKS = {
    "field_prefix": ("*name-constructor-argument*", _is_prefix_position, "the prefix of a name constructor"),
    "file_encoding": ("*encoding-argument*", _is_encoding_position, "the encoding= of a text write (write_text / open for writing)"),
}


def _is_config_attr(v: ast.AST, attr: str, it: Any, cfgc: Any) -> bool:
    """`<Config object>.<attr>`: the receiver is a Config for the abstract interpreter, or (where it has no value for the node) is
    spelled as the `config` attribute / parameter"""
    if not (isinstance(v, ast.Attribute) and v.attr == attr):
        return False
    av = it.node_av.get(id(v.value))
    if av is not None and av.types:
        return cfgc.qual in av.types
    return norm(v.value).rsplit(".", 1)[-1] == "config"


# ---- R16.3: media types -------------------------------------------------------------------------------------------------------------

_CLASSIFIER = "get_content_type"
_KEY_TESTS = ("startswith", "endswith", "get", "find", "index", "count", "__contains__", "__eq__")


def _last(c: ast.Call) -> str:
    return call_name(c).rsplit(".", 1)[-1]


def _expand_helper_calls(sx: "SymExec") -> None:
    """a helper (private function, closure) called anywhere inside an expression - as an argument, in a test, as the element or the filter
    of a comprehension - is executed as well, with the values its arguments have there, so that the calls it makes and the tests it takes
    are seen in terms of the entry point's inputs.  (A helper called as a statement / assigned / returned is inlined by the executor.)"""
    i, done = 0, set()
    while i < len(sx.hits) and i < 4000:
        conds, call, g = sx.hits[i]
        i += 1
        for a in [call, *call.args, *[k.value for k in call.keywords]]:
            if sx._helper(a, g) is not None and (g.qual, norm(a)) not in done:
                done.add((g.qual, norm(a)))
                sx.values(a, State(dict(sx.hit_env.get(id(call), {})), tuple(conds)), g, 1)


def _decisions_on(e: ast.AST, is_key: Any) -> list[str]:
    """the places inside e where a decision is taken on a key (or on something computed from it by its own methods / by indexing it):
    an operand of a comparison, the receiver or argument of a string / table test, the key of a lookup.  What happens inside a call of the
    classifier is the classifier's business."""

    def derived(x: ast.AST) -> bool:
        if isinstance(x, ast.Call) and _last(x) == _CLASSIFIER:
            return False
        if is_key(x):
            return True
        if isinstance(x, ast.Call) and isinstance(x.func, ast.Attribute):
            return derived(x.func.value)
        if isinstance(x, ast.Subscript):
            return derived(x.value)
        return False

    out: list[str] = []
    todo = [e]
    while todo:
        n = todo.pop()
        if isinstance(n, ast.Call) and _last(n) == _CLASSIFIER:
            continue
        ops: list[ast.AST] = []
        if isinstance(n, ast.Compare):
            ops = [n.left, *n.comparators]
        elif isinstance(n, ast.Call) and isinstance(n.func, ast.Attribute) and n.func.attr in _KEY_TESTS:
            ops = [n.func.value, *n.args]
        elif isinstance(n, ast.Call) and call_name(n).startswith(("re.", "fnmatch.")):
            ops = list(n.args)
        elif isinstance(n, ast.Subscript) and not (isinstance(n.slice, ast.Name) and n.slice.id == "*"):
            ops = [n.slice]
        if ops and _own_mapping_lookup(n):
            ops = []  # `content[key]` for a key of `content`: fetching the entry that belongs to the key, not classifying the key
        if any(derived(o) for o in ops):
            out.append(norm(n)[:80])
        todo += list(ast.iter_child_nodes(n))
    return out


def _own_mapping_lookup(n: ast.AST) -> bool:
    """`M[k]` / `M.get(k, ...)` / `k in M` where k is an element of iterating M itself (`M[*]`, `M.keys()[*]`, `M.items()[*][0]`)"""
    if isinstance(n, ast.Subscript):
        m, k = n.value, n.slice
    elif isinstance(n, ast.Call) and isinstance(n.func, ast.Attribute) and n.func.attr == "get" and n.args:
        m, k = n.func.value, n.args[0]
    elif isinstance(n, ast.Compare) and len(n.ops) == 1 and isinstance(n.ops[0], (ast.In, ast.NotIn)):
        m, k = n.comparators[0], n.left
    else:
        return False
    mt = norm(m)
    return norm(k) in (f"{mt}[*]", f"{mt}.keys()[*]", f"{mt}.items()[*][0]", f"list({mt})[*]")


def _r163_media_types(rep: Report, ix: Any) -> None:
    """Wherever the parser decides what a media type is (the source of a response, the kind of a body), it decides on the result of
    get_content_type - which is where content_type_overrides is applied - and never on the document's key itself; the key is only handed
    to the classifier and emitted.  Decided on values: the two entry points are executed symbolically with their private helpers inlined,
    so a test is recognised by what it tests, whatever the locals are called, whether the key's name is reused for the result, and
    wherever the classification is moved."""
    for fname in ("responses.response_from_data", "bodies.body_from_data"):
        f = ix.func(fname)
        sx = SymExec(ix, watch=lambda c: True, record=True)
        sx.run(f)
        _expand_helper_calls(sx)
        cls_hits = [(call, g) for _, call, g in sx.hits if _last(call) == _CLASSIFIER]
        at = cls_hits[0][1] if cls_hits else next((g for g in region(ix, f) if any(_last(c) == _CLASSIFIER for c in ast.walk(g.node) if isinstance(c, ast.Call))), f)
        rep.check(bool(cls_hits), "R16.3", f"{short(f)}::classifies-through-get_content_type", "media types are not classified through get_content_type",
                  where(at, at.node))
        if not cls_hits:
            continue
        # the document's own key is whatever is handed to the classifier
        keys = set()
        for call, g in cls_hits:
            a = call.args[0] if call.args else {k.arg: k.value for k in call.keywords}.get("content_type")
            if a is not None and norm(a) != UNKNOWN:
                keys.add(norm(a))
        rep.require(keys, f"the media type key handed to get_content_type in {short(f)} (resolvable to the document)")
        seen: set[int] = set()
        exprs: list[ast.AST] = list(sx.recorded or [])  # every test and every value computed on the way, in terms of the inputs
        for conds, call, _ in sx.hits:
            exprs += [e for e, _ in conds] + [call]
        for st, rv in sx.exits:
            exprs += [e for e, _ in st.conds] + [rv]
        memo: dict[int, bool] = {}

        def is_key(x: ast.AST) -> bool:
            if not isinstance(x, (ast.Name, ast.Attribute, ast.Subscript)):
                return False
            if id(x) not in memo:
                memo[id(x)] = norm(x) in keys
            return memo[id(x)]

        bad: set[str] = set()
        for e in exprs:
            if id(e) in seen:
                continue
            seen.add(id(e))
            bad |= set(_decisions_on(e, is_key))
        rep.check(not bad, "R16.3", f"{short(f)}::classification-uses-overridden-type",
                  f"the raw media type key is tested directly ({sorted(bad)[:4]}): content_type_overrides has no effect on this decision", where(at, at.node),
                  lhs=sorted(bad), rhs="only the result of get_content_type(<key>) is tested")
        if fname.startswith("bodies."):
            made = [(call, g) for _, call, g in sx.hits if _last(call) == "Body"]
            rep.require(made, "Body(...) construction reached from body_from_data")
            sent = {norm(v) for call, _ in made for v in [{k.arg: k.value for k in call.keywords}.get("content_type", call.args[0] if call.args else None)]
                    if v is not None}
            rep.require(sent, "the content_type of Body(...)")
            wrong = sorted(sent - keys)
            rep.check(not wrong, "R16.3", "body_from_data::content-type-is-the-documents-key",
                      "the Content-Type that will be sent is the normalised/overridden media type, not the one the document declares", where(made[0][1], made[0][0]),
                      lhs=sorted(sent), rhs=sorted(keys))


# ---- R16.6: the key the override table is consulted with ---------------------------------------------------------------------------

_OVERRIDES = "content_type_overrides"


def _table_lookups(e: ast.AST, is_table: Any) -> list[tuple[ast.AST, ast.AST]]:
    """(key expression, lookup) of every place inside e where a table is consulted for one key: `T.get(k, ...)` / `T.pop` / `T.setdefault`,
    `T[k]`, `k in T` / `k not in T`, and `k == x` / `k != x` where x is one of T's own keys (`T[*]`, `T.keys()[*]`, `T.items()[*][0]`: the
    loop form of the same lookup)"""

    def key_element(x: ast.AST) -> bool:
        if isinstance(x, ast.Subscript) and isinstance(x.slice, ast.Constant) and x.slice.value == 0:
            y = x.value  # T.items()[*][0]
            return isinstance(y, ast.Subscript) and isinstance(y.slice, ast.Name) and y.slice.id == "*" and isinstance(y.value, ast.Call) and \
                isinstance(y.value.func, ast.Attribute) and y.value.func.attr == "items" and is_table(y.value.func.value)
        if isinstance(x, ast.Subscript) and isinstance(x.slice, ast.Name) and x.slice.id == "*":
            y = x.value
            if isinstance(y, ast.Call) and call_name(y) in ("list", "tuple", "sorted", "iter") and len(y.args) == 1:
                y = y.args[0]
            if isinstance(y, ast.Call) and isinstance(y.func, ast.Attribute) and y.func.attr == "keys":
                y = y.func.value
            return is_table(y)
        return False

    out: list[tuple[ast.AST, ast.AST]] = []
    for n in ast.walk(e):
        if isinstance(n, ast.Call) and isinstance(n.func, ast.Attribute) and n.func.attr in ("get", "pop", "setdefault", "__getitem__", "__contains__") and \
                is_table(n.func.value):
            k = n.args[0] if n.args else next((kw.value for kw in n.keywords if kw.arg in ("key", "k")), None)
            if k is not None:
                out.append((k, n))
        elif isinstance(n, ast.Subscript) and is_table(n.value) and not (isinstance(n.slice, ast.Name) and n.slice.id == "*"):
            out.append((n.slice, n))
        elif isinstance(n, ast.Compare) and len(n.ops) == 1:
            l, r = n.left, n.comparators[0]
            if isinstance(n.ops[0], (ast.In, ast.NotIn)):
                t = r.func.value if isinstance(r, ast.Call) and isinstance(r.func, ast.Attribute) and r.func.attr == "keys" and not r.args else r
                if is_table(t):
                    out.append((l, n))
            elif isinstance(n.ops[0], (ast.Eq, ast.NotEq)):
                if key_element(l) and not key_element(r):
                    out.append((r, n))
                elif key_element(r) and not key_element(l):
                    out.append((l, n))
    return out


def _r166_override_key(rep: Report, ix: Any, cfgc: Any) -> None:
    """`content_type_overrides` maps a media type, spelled as in the document (that is how the user copies it into the configuration), to
    the type it is to be treated as.  The table therefore has to be consulted with the very string the parser hands to the classifier:
    a key that was normalised first (case, whitespace, parameters stripped, parsed) finds other entries than the configured ones, and the
    media type is classified by its own name although an override for it exists.  Decided on values: the classifier is executed
    symbolically with its private helpers inlined, so the key of each lookup is an expression of the classifier's parameters whatever
    locals it travels through and whether or not the parameter's name is reused for the result."""
    f = ix.func(f"utils.{_CLASSIFIER}")
    rep.require(f, f"utils.{_CLASSIFIER}")
    # the media type is the parameter that is not the configuration
    others = [p.arg for p in f.params if not (p.annotation is not None and cfgc.name in norm(p.annotation))]
    rep.require(len(others) == 1, f"the media type parameter of {_CLASSIFIER} (the one parameter that is not annotated as {cfgc.name})")
    key_param = others[0]

    def is_table(x: ast.AST) -> bool:
        return isinstance(x, ast.Attribute) and x.attr == _OVERRIDES

    sx = SymExec(ix, watch=lambda c: True, record=True)
    sx.run(f)
    _expand_helper_calls(sx)
    exprs: list[ast.AST] = list(sx.recorded or [])
    for conds, call, _ in sx.hits:
        exprs += [e for e, _ in conds] + [call]
    for st, rv in sx.exits:
        exprs += [e for e, _ in st.conds] + [rv]
    found: dict[str, tuple[ast.AST, ast.AST]] = {}
    for e in exprs:
        for k, at in _table_lookups(e, is_table):
            found.setdefault(f"{norm(k)} @ {norm(at)}", (k, at))
    rep.floor("override_table_lookups", len(found), 1)
    wrong = sorted({norm(k)[:80] for k, _ in found.values() if not (isinstance(k, ast.Name) and k.id == key_param)})
    rep.check(not wrong, "R16.6", f"{short(f)}::overrides-keyed-by-the-documents-media-type",
              f"content_type_overrides is consulted with {wrong[:3]} instead of the media type as the document spells it: an override whose key "
              "differs from that computed form is never found, and the media type is classified by its own name", where(f, f.node),
              lhs=wrong or key_param, rhs=f"<config>.{_OVERRIDES} looked up by `{key_param}` itself")


# ---- R16.10: the key the class override table is consulted with -------------------------------------------------------------------------

def _r1610_class_override_key(rep: Report, ix: Any, cfgc: Any) -> None:
    """`class_overrides` maps the name of a generated class - as the user finds it in the generated models folder - to the names to use
    instead.  The table therefore has to be consulted with the class name as it is minted (`ClassName(...)` of the string the class is
    made from): the document's own spelling (`pet_category`, `pet-category`) finds other entries than the documented ones, and so does
    anything computed from the minted name.  Decided on values: Class.from_string is executed symbolically with its private helpers
    inlined, so the key of each lookup is an expression of its parameters whatever locals it travels through."""
    table = "class_overrides"
    f = ix.func("parser.properties.schemas.Class.from_string")
    rep.require(f, "Class.from_string")
    others = [p.arg for p in f.params if not (p.annotation is not None and cfgc.name in norm(p.annotation))]
    rep.require(len(others) == 1, f"the string parameter of Class.from_string (the one parameter that is not annotated as {cfgc.name})")
    src = others[0]

    def is_table(x: ast.AST) -> bool:
        return isinstance(x, ast.Attribute) and x.attr == table

    sx = SymExec(ix, watch=lambda c: True, record=True)
    sx.run(f)
    _expand_helper_calls(sx)
    exprs: list[ast.AST] = list(sx.recorded or [])
    for conds, call, _ in sx.hits:
        exprs += [e for e, _ in conds] + [call]
    for st, rv in sx.exits:
        exprs += [e for e, _ in st.conds] + [rv]
    found: dict[str, tuple[ast.AST, ast.AST]] = {}
    for e in exprs:
        for k, at in _table_lookups(e, is_table):
            found.setdefault(f"{norm(k)} @ {norm(at)}", (k, at))
    rep.floor("class_override_lookups", len(found), 1)

    def minted(k: ast.AST) -> bool:
        if not (isinstance(k, ast.Call) and _last(k) == "ClassName"):
            return False
        named = k.args[0] if k.args else {kw.arg: kw.value for kw in k.keywords}.get("value")
        return named is not None and not any(isinstance(a, ast.Starred) for a in k.args) and src in _free_names(named)

    wrong = sorted({norm(k)[:80] for k, _ in found.values() if not minted(k)})
    rep.check(not wrong, "R16.10", f"{short(f)}::overrides-keyed-by-the-generated-class-name",
              f"class_overrides is consulted with {wrong[:3]} instead of the class name as it is generated (ClassName(...) of `{src}`): an override "
              "keyed, as documented, by the name found in the generated models is not applied to a schema whose spelling differs from its class name",
              where(f, f.node), lhs=wrong or "ClassName(...)", rhs=f"<config>.{table} looked up by ClassName(<from {src}>, <prefix>)")


# ---- R16.11: a body is announced as the media type the document declares ------------------------------------------------------------------

def _r1611_announced_as_itself(rep: Report, jx: Any) -> None:
    """content_type_overrides changes the classification of a media type (Body.body_type: how the body is encoded); the media type it is
    sent as stays the document's (Body.content_type).  In the templates this holds when (1) what is written from a body's content_type is
    that attribute itself and (2) whether it is written is not decided by a test of the classification: a write under `body_type == X`
    (or skipped under it) makes the override change the Content-Type on the wire.  (2) is a truth table over the tests guarding the writes
    of one scope (template body / macro): nested or chained tests, either branch order, a dispatch on body_type that writes the
    Content-Type in every branch all leave the answer independent of the body_type tests."""
    from .. import tplq

    import re

    from ..jinja_interp import expr_text

    def reads(n: Any, attr: str) -> bool:
        """the expression reads `<x>.attr` - itself or through a template-local variable (which reads as its definition, jinja_canon)"""
        return any(isinstance(x, jnodes.Getattr) and x.attr == attr for x in [n, *n.find_all(jnodes.Getattr)]) or \
            re.search(rf"\.{attr}\b", expr_text(n)) is not None

    def is_attr(n: Any, attr: str) -> bool:
        """`<x>.attr` for a plain x (names, attributes, items), directly or as the definition of a template-local variable"""
        if isinstance(n, jnodes.Getattr) and n.attr == attr:
            return not any(isinstance(x, (jnodes.Call, jnodes.Filter, jnodes.CondExpr, jnodes.BinExpr, jnodes.Concat)) for x in n.node.find_all(jnodes.Node))
        return isinstance(n, jnodes.Name) and re.fullmatch(rf"\(?[\w.\[\]*()]+\.{attr}\)?", n.name) is not None

    n_writes = 0
    for ti in jx.templates.values():
        scopes = [("<template>", ti.tree.body)] + [(m.name, m.body) for m in ti.tree.find_all(jnodes.Macro)]
        exprs = {sname: [fr for fr in tplq.frags(body) if fr.kind == "expr"] for sname, body in scopes}
        # a call of a macro of the template that writes a content_type is a write where it is called
        writers: set[str] = set()
        while True:
            more = {sname for sname, frs in exprs.items() if sname != "<template>" and sname not in writers and any(
                reads(fr.node, "content_type") or _calls_macro(fr.node, writers) for fr in frs)}
            if not more:
                break
            writers |= more
        for sname, body in scopes:
            direct = [fr for fr in exprs[sname] if reads(fr.node, "content_type")]
            writes = direct + [fr for fr in exprs[sname] if fr not in direct and _calls_macro(fr.node, writers)]
            if not writes:
                continue
            n_writes += len(direct)  # each place that writes a content_type, wherever a refactoring puts it (template text, macro)
            key = f"{ti.name}::{sname}" if sname != "<template>" else ti.name
            computed = [fr for fr in direct if not is_attr(fr.node, "content_type")]
            rep.check(not computed, "R16.11", f"{key}::writes-the-declared-content-type",
                      "what is written as a body's media type is computed from its content_type instead of being it: the body is not announced as the "
                      "document declares it", where=f"{PKG}/templates/{ti.name}:{computed[0].line if computed else writes[0].line}",
                      lhs=[fr.text[:80] for fr in computed[:3]] or "<body>.content_type", rhs="{{ <body>.content_type }}")
            names: list[str] = []
            tests: dict[str, Any] = {}
            for fr in writes:
                for gn in fr.guard_nodes:
                    for a, node in _tpl_atoms(gn):
                        if a not in names:
                            names.append(a)
                            tests[a] = node
            cls_atoms = [a for a in names if reads(tests[a], "body_type")]
            rest = [a for a in names if a not in cls_atoms]
            deciding: list[dict[str, bool]] = []
            if cls_atoms and len(names) <= 14:
                for env in tplq.assignments(rest):
                    outcomes = {any(tplq.guard_holds(fr, {**env, **cenv}) for fr in writes) for cenv in tplq.assignments(cls_atoms)}
                    if len(outcomes) > 1:
                        deciding.append(env)
            elif cls_atoms:
                deciding.append({})
            rep.check(not deciding, "R16.11", f"{key}::content-type-written-whatever-the-classification",
                      f"whether the body's Content-Type is written depends on {cls_atoms[:2]}: a media type that content_type_overrides maps to "
                      "another one is then announced (or not) by what it is mapped to, not as itself", where=f"{PKG}/templates/{ti.name}:{writes[0].line}",
                      lhs=cls_atoms, rhs="tests of <body>.content_type / of the number of bodies only")
    rep.floor("content_type_writes", n_writes, 1)


def _calls_macro(n: Any, names: set[str]) -> bool:
    return bool(names) and any(isinstance(c.node, jnodes.Name) and c.node.name in names for c in [n, *n.find_all(jnodes.Call)] if isinstance(c, jnodes.Call))


def _tpl_atoms(test: Any) -> list[tuple[str, Any]]:
    """(text, node) of the atoms of a template test, as tplq.atoms splits it"""
    from ..jinja_interp import expr_text
    if isinstance(test, (jnodes.And, jnodes.Or)):
        return _tpl_atoms(test.left) + _tpl_atoms(test.right)
    if isinstance(test, jnodes.Not):
        return _tpl_atoms(test.node)
    return [(expr_text(test), test)]


# ---- R16.7: the classes an option switches between ----------------------------------------------------------------------------------

def _r167_switched_classes(rep: Report, ix: Any, jx: Any) -> None:
    """`literal_enums` makes property_from_data build another property class for the same schema.  Everything the generated code does with a
    property goes through the macros of the class's template - and the templates around it (endpoint, model) ask whether a macro exists
    (`if <template>.transform_header`) and emit generic code when it does not - and through the locations the class may appear in.  The
    option therefore changes behaviour, not just representation, as soon as the two classes differ in which macros their templates define
    or in where they are allowed.  The classes are found by following the option: the property classes constructed on paths whose
    condition forces `<config>.literal_enums` true / false."""
    option = "literal_enums"
    pfd = ix.func("parser.properties.property_from_data")
    classes = {c.name: c for c in ix.property_classes()}

    def made(c: ast.Call) -> list[tuple[tuple, str]]:
        """(condition, class) for each property class the call constructs: `C(...)` / `C.build(...)`, C possibly chosen by a conditional"""
        tgt = c.func.value if isinstance(c.func, ast.Attribute) and c.func.attr == "build" else c.func
        return [(tuple(ac), av.id) for ac, av in alternatives(tgt) if isinstance(av, ast.Name) and av.id in classes]

    sx = SymExec(ix, watch=lambda c: True)
    sx.run(pfd)
    _expand_helper_calls(sx)
    sides: dict[bool, set[str]] = {True: set(), False: set()}
    for conds, call, _ in sx.hits:
        for ac, cname in made(call):
            # the tests that mention the option, and those that share an atom with them, decide; leaving the others out only weakens
            # the premise
            allc = [(c, frozenset(_atoms_of(c[0]))) for c in tuple(conds) + ac]
            mine = {a for c, ats in allc for a in ats if a[1].rsplit(".", 1)[-1] == option}
            while True:
                more = {a for c, ats in allc if ats & mine for a in ats} - mine
                if not more or len(mine | more) > 12:
                    break
                mine |= more
            rel = tuple(c for c, ats in allc if ats and ats <= mine)
            if not rel or not consistent(rel):
                continue
            atoms: list = []
            for e, _p in rel:
                _atoms(e, atoms)
            for a in atoms:
                if a[0] == "truthy" and a[1].rsplit(".", 1)[-1] == option:
                    for val in (True, False):
                        if implies(rel, a, val):
                            sides[val].add(cname)
    on, off = sides[True] - sides[False], sides[False] - sides[True]
    rep.require(on and off, f"the property classes property_from_data constructs when <config>.{option} is on / off")
    pairs = [(a, b) for a in sorted(on) for b in sorted(off)]
    rep.floor("literal_enums_class_pairs", len(pairs), 1)

    def template_of(name: str) -> Any:
        tv = ix.find_classvar(classes[name], "template")
        tname = ix.const_str(tv[0].module, tv[1]) if tv else None
        ti = jx.templates.get("property_templates/" + (tname or ""))
        rep.require(ti is not None, f"the property template of {name}")
        return ti

    def locations_of(name: str) -> set[str] | None:
        al = ix.find_classvar(classes[name], "_allowed_locations")
        return _const_set(ix, al[0].module, al[1]) if al is not None else None

    for a, b in pairs:
        # what a template offers to the templates that import it: Jinja exports the top-level names that do not start with `_`
        ma, mb = (_exported_names(template_of(x).tree) for x in (a, b))
        rep.check(ma == mb, "R16.7", f"{option}::{b}|{a}::same-template-macros",
                  f"the templates of {a} ({option} on) and {b} (off) do not define the same macros: for {sorted(ma ^ mb)} the surrounding "
                  f"templates emit the class's own code under one setting and the generic fallback under the other - the option changes behaviour",
                  where=f"{PKG}/templates/{template_of(a if mb - ma else b).name}", lhs=sorted(ma), rhs=sorted(mb))
        la, lb = locations_of(a), locations_of(b)
        rep.require(la is not None and lb is not None, f"_allowed_locations of {a} and {b} as a display of locations")
        rep.check(la == lb, "R16.7", f"{option}::{b}|{a}::same-allowed-locations",
                  f"{a} ({option} on) and {b} (off) are not allowed in the same parameter locations ({sorted(la ^ lb)}): a document accepted under "
                  "one setting is rejected under the other", where=f"{PKG}/parser/properties", lhs=sorted(la), rhs=sorted(lb))


def _const_set(ix: Any, m: Any, e: ast.AST, depth: int = 8) -> set[str] | None:
    """the members of a constant collection of enumeration members, evaluated: a display (`*x` spliced in), `set` / `frozenset` / `tuple` /
    `list` of one, a module-level constant or a class constant (of this or of an imported module) standing for its value, `|` `-` `&` `^` of
    two.  A member is named by its last component (`oai.ParameterLocation.QUERY` -> QUERY).  None when anything else takes part."""
    if depth <= 0:
        return None
    if isinstance(e, (ast.Set, ast.List, ast.Tuple)):
        out: set[str] = set()
        for x in e.elts:
            if isinstance(x, ast.Starred):
                part = _const_set(ix, m, x.value, depth - 1)
                if part is None:
                    return None
                out |= part
            elif isinstance(x, ast.Attribute):
                out.add(x.attr)
            else:
                return None
        return out
    if isinstance(e, ast.Call) and call_name(e) in ("set", "frozenset", "tuple", "list") and not e.keywords and len(e.args) <= 1:
        return _const_set(ix, m, e.args[0], depth - 1) if e.args else set()
    if isinstance(e, ast.BinOp) and isinstance(e.op, (ast.BitOr, ast.Sub, ast.BitAnd, ast.BitXor)):
        a, b = _const_set(ix, m, e.left, depth - 1), _const_set(ix, m, e.right, depth - 1)
        if a is None or b is None:
            return None
        return a | b if isinstance(e.op, ast.BitOr) else a - b if isinstance(e.op, ast.Sub) else a & b if isinstance(e.op, ast.BitAnd) else a ^ b
    if isinstance(e, (ast.Name, ast.Attribute)):
        r = ix.resolve(m, norm(e))
        if r and r[0] == "var":
            mod, n = r[1]
            return _const_set(ix, mod, mod.variables[n], depth - 1)
        if r and r[0] == "classvar":
            cv = ix.find_classvar(*r[1])
            return _const_set(ix, cv[0].module, cv[1], depth - 1) if cv else None
    return None


# ---- R16.8: titled models without path prefixes ----------------------------------------------------------------------------------------

def _given_truthy(e: ast.AST, text: str) -> ast.AST:
    """e simplified by the knowledge that the expression spelled `text` is truthy: `text or x` is `text`, `a if text else b` is `a`"""
    import copy

    class T(ast.NodeTransformer):
        def visit_BoolOp(self, n: ast.BoolOp) -> ast.AST:
            self.generic_visit(n)
            if isinstance(n.op, ast.Or):
                for i, v in enumerate(n.values):
                    if norm(_unbool(v)) == text:
                        return v if i == 0 else ast.copy_location(ast.BoolOp(op=ast.Or(), values=n.values[:i + 1]), n)
            return n

        def visit_IfExp(self, n: ast.IfExp) -> ast.AST:
            self.generic_visit(n)
            t = _unbool(n.test)
            if norm(t) == text:
                return n.body
            if isinstance(t, ast.UnaryOp) and isinstance(t.op, ast.Not) and norm(_unbool(t.operand)) == text:
                return n.orelse
            return n

    return T().visit(copy.deepcopy(e))


def _r168_title_names(rep: Report, ix: Any) -> None:
    """The README: with the option off the generator 'will use the title property of any object that has it set without prefixing'.  The
    class of a model is minted by Class.from_string from one string; which string is decided in ModelProperty.build.  Decided on values and
    path conditions: the function is executed symbolically; wherever Class.from_string is reached on a path that does not exclude
    `option off and <schema>.title set`, the string must be made of the title only.  A proxy for 'has a title' (comparing the title with
    the fallback name, testing its length, ...) leaves such a path open with a prefixed value."""
    option = "use_path_prefixes_for_title_model_names"
    f = ix.func("parser.properties.model_property.ModelProperty.build")
    schema_params = [p.arg for p in f.params if p.annotation is not None and norm(p.annotation).rsplit(".", 1)[-1].strip("'\"") == "Schema"]
    rep.require(len(schema_params) == 1, "the schema parameter of ModelProperty.build (the one annotated as Schema)")
    title = f"{schema_params[0]}.title"
    others = {p.arg for p in f.params} - {schema_params[0]}
    sx = SymExec(ix, watch=lambda c: call_name(c).endswith("Class.from_string"), stop_at_hit=True)
    sx.run(f)
    hits = [(c, call, g) for c, call, g in sx.hits if consistent(c)]
    rep.require(hits, "a call of Class.from_string reached from ModelProperty.build")
    bad: list[tuple[str, str]] = []
    n = 0
    for conds, call, g in hits:
        v0 = {k.arg: k.value for k in call.keywords}.get("string", call.args[0] if call.args else None)
        rep.require(v0 is not None, "the string handed to Class.from_string")
        for st, v in sx.values(v0, State(dict(sx.hit_env.get(id(call), {})), tuple(conds)), g, 1):  # a helper in argument position is inlined
            for ac, av in alternatives(v):
                allc = tuple(st.conds) + tuple(ac)
                atoms: list = []
                for e, _ in allc:
                    _atoms(e, atoms)
                premise = {a: False for a in atoms if a[0] == "truthy" and a[1].rsplit(".", 1)[-1] == option}
                premise[("truthy", title)] = True
                premise[("none", title)] = False
                premise[("empty", title)] = False
                if not possible(allc, premise):
                    continue
                n += 1
                av = _given_truthy(av, title)
                rep.require(UNKNOWN not in names_in(av), f"the value of the class string on the path `{conds_text(allc)[:160]}`")
                uses_title = any(isinstance(x, ast.Attribute) and norm(x) == title for x in ast.walk(av))
                foreign = sorted(_free_names(av) & others)
                if not uses_title or foreign:
                    bad.append((norm(av)[:120], conds_text(allc)[:200]))
    rep.floor("titled_model_name_paths", n, 1)
    rep.check(not bad, "R16.8", f"{short(f)}::titled-model-named-by-its-title-when-prefixes-are-off",
              f"with {option} off a schema that has a title can still be named from something else than its title "
              f"({'; '.join(f'{v} when {c}' for v, c in bad[:2])}): the option does not have its documented effect for those schemas",
              where(f, f.node), lhs=bad[:4] or title, rhs=f"a string computed from {title} alone whenever the option is off and {title} is set")


# ---- R16.9: the configuration file is decoded as written --------------------------------------------------------------------------------

# pydantic facilities that make the decoded value differ from the written one (model_config / class Config / Field / StringConstraints /
# constr keywords), from pydantic's documentation
_REWRITING_OPTIONS = {
    "coerce_numbers_to_str": "numbers are turned into text (1.10 becomes '1.1')",
    "str_strip_whitespace": "whitespace is stripped", "strip_whitespace": "whitespace is stripped",
    "str_to_lower": "text is lower-cased", "to_lower": "text is lower-cased",
    "str_to_upper": "text is upper-cased", "to_upper": "text is upper-cased",
    "alias": "the option is read under another key", "validation_alias": "the option is read under another key",
    "alias_generator": "options are read under computed keys",
    "val_json_bytes": "bytes are re-encoded", "ser_json_bytes": "bytes are re-encoded",
}
_VALIDATOR_WRAPPERS = ("BeforeValidator", "AfterValidator", "PlainValidator", "WrapValidator")
_VALIDATOR_DECORATORS = ("field_validator", "model_validator", "validator", "root_validator")


def _plain_type(ann: ast.AST | None) -> str:
    """an annotation as a type, None apart: `Optional[T]` / `Union[T, None]` / `T | None` is T, `Annotated[T, ...]` is T, typing's
    capitalised generics are the builtins"""
    if ann is None:
        return "?"
    if isinstance(ann, ast.Constant) and isinstance(ann.value, str):
        try:
            ann = ast.parse(ann.value, mode="eval").body
        except SyntaxError:
            return ann.value
    if isinstance(ann, ast.Subscript):
        head = norm(ann.value).rsplit(".", 1)[-1]
        args = list(ann.slice.elts) if isinstance(ann.slice, ast.Tuple) else [ann.slice]
        if head == "Optional":
            return _plain_type(args[0])
        if head == "Annotated":
            return _plain_type(args[0])
        if head == "Union":
            rest = sorted(_plain_type(a) for a in args if not (isinstance(a, ast.Constant) and a.value is None))
            return rest[0] if len(rest) == 1 else "Union[" + ", ".join(rest) + "]"
        low = {"List": "list", "Dict": "dict", "Set": "set", "Tuple": "tuple", "FrozenSet": "frozenset", "Type": "type"}.get(head, head)
        return f"{low}[{', '.join(_plain_type(a) for a in args)}]"
    if isinstance(ann, ast.BinOp) and isinstance(ann.op, ast.BitOr):
        parts, todo = [], [ann]
        while todo:
            x = todo.pop()
            if isinstance(x, ast.BinOp) and isinstance(x.op, ast.BitOr):
                todo += [x.right, x.left]
            elif not (isinstance(x, ast.Constant) and x.value is None):
                parts.append(_plain_type(x))
        parts.sort()
        return parts[0] if len(parts) == 1 else "Union[" + ", ".join(parts) + "]"
    if isinstance(ann, ast.Constant) and ann.value is None:
        return "None"
    return norm(ann).rsplit(".", 1)[-1]


def _r169_file_model(rep: Report, ix: Any, cfgc: Any, cff: Any) -> None:
    """R16.1 follows a value from the ConfigFile object to the Config object; this is the step before: from the text of the file to the
    ConfigFile object.  pydantic decodes a plainly annotated field as written (text stays text, a number is not text); every facility that
    changes that is switched on by something visible in the class: an option in its configuration, in a Field / constraint object of a
    field's annotation or default, a validator.  Models nested in field annotations (ClassOverride) are decoded by the same rules."""
    models, todo = [], [cff]
    while todo:
        k = todo.pop()
        if k.qual in {m.qual for m in models}:
            continue
        models.append(k)
        for c in ix.mro(k):
            for ann in c.fields.values():
                for x in ast.walk(ann) if ann is not None else []:
                    if isinstance(x, (ast.Name, ast.Attribute)):
                        r = ix.resolve(c.module, norm(x))
                        if r and r[0] == "class" and any(b.rsplit(".", 1)[-1] == "BaseModel" for b in ix.ext_bases(r[1])):
                            todo.append(r[1])
    n = 0
    for k in models:
        bad: list[str] = []
        for c in ix.mro(k):
            for st in c.node.body:
                # the model's own configuration
                if isinstance(st, (ast.Assign, ast.AnnAssign)) and st.value is not None:
                    tg = st.targets[0] if isinstance(st, ast.Assign) else st.target
                    if isinstance(tg, ast.Name) and tg.id == "model_config":
                        v = st.value
                        pairs = [(kw.arg or "**", kw.value) for kw in v.keywords] if isinstance(v, ast.Call) else \
                            [(key.value if isinstance(key, ast.Constant) else "**", val) for key, val in zip(v.keys, v.values)] if isinstance(v, ast.Dict) else [("**", v)]
                        bad += [f"model_config {o}" for o, val in pairs if (o in _REWRITING_OPTIONS or o == "**") and not (isinstance(val, ast.Constant) and val.value in (False, None))]
                elif isinstance(st, ast.ClassDef) and st.name == "Config":
                    bad += [f"Config.{t.id}" for s2 in st.body if isinstance(s2, ast.Assign) for t in s2.targets if isinstance(t, ast.Name) and t.id in _REWRITING_OPTIONS
                            and not (isinstance(s2.value, ast.Constant) and s2.value.value in (False, None))]
                elif isinstance(st, (ast.FunctionDef, ast.AsyncFunctionDef)):
                    bad += [f"@{call_name(d) if isinstance(d, ast.Call) else norm(d)} {st.name}" for d in st.decorator_list
                            if (call_name(d) if isinstance(d, ast.Call) else norm(d)).rsplit(".", 1)[-1] in _VALIDATOR_DECORATORS]
                # each field: what its annotation and its default carry
                if isinstance(st, ast.AnnAssign) and isinstance(st.target, ast.Name):
                    n += 1
                    for x in [y for part in (st.annotation, st.value) if part is not None for y in ast.walk(part)]:
                        if not isinstance(x, ast.Call):
                            continue
                        last = call_name(x).rsplit(".", 1)[-1]
                        if last in _VALIDATOR_WRAPPERS:
                            bad.append(f"{st.target.id}: {last}(...)")
                        bad += [f"{st.target.id}: {last}({kw.arg or '**'}=...)" for kw in x.keywords if (kw.arg in _REWRITING_OPTIONS or kw.arg is None)
                                and not (isinstance(kw.value, ast.Constant) and kw.value.value in (False, None))]
        rep.check(not bad, "R16.9", f"{k.name}::decoded-as-written",
                  f"the configuration file is not decoded as written: {'; '.join(bad[:4])}" +
                  "".join(f" - {_REWRITING_OPTIONS[o]}" for o in _REWRITING_OPTIONS if any(o in b for b in bad[:1])),
                  where=f"{k.module.rel}:{k.node.lineno}", lhs=bad or "plain fields", rhs="no converting / rewriting / renaming facility")
    rep.floor("config_file_fields", n, 9)
    # the model is given what the file's parser returned, nothing edited in between
    for lf in [m for m in cff.methods.values() if m.kind in ("staticmethod", "classmethod") and not m.name.startswith("_")
               and m.node.returns is not None and cff.name in norm(m.node.returns)]:
        edited: list[tuple[str, str]] = []
        rets = [(c, v) for c, v in SymExec(ix).run(lf) if consistent(c)]
        rep.require(rets, f"a path through {short(lf)} that returns")
        makers = {cff.name} | ({lf.params[0].arg} if lf.kind == "classmethod" and lf.params else set())
        for conds, rv in rets:
            data = None
            if isinstance(rv, ast.Call) and call_name(rv) in makers and not rv.args and len(rv.keywords) == 1 and rv.keywords[0].arg is None:
                data = rv.keywords[0].value  # ConfigFile(**data)
            elif isinstance(rv, ast.Call) and isinstance(rv.func, ast.Attribute) and rv.func.attr in ("model_validate", "parse_obj") and \
                    norm(rv.func.value) in makers and len(rv.args) == 1 and not rv.keywords:
                data = rv.args[0]
            for ac, dv in alternatives(data) if data is not None else [((), rv)]:
                if not consistent(tuple(conds) + tuple(ac)):
                    continue
                while isinstance(dv, ast.Call) and call_name(dv) == "dict" and len(dv.args) == 1 and not dv.keywords:
                    dv = dv.args[0]
                if isinstance(dv, ast.Dict) and not dv.keys:
                    continue  # nothing in the file: no options
                r = ix.resolve(lf.module, call_name(dv)) if isinstance(dv, ast.Call) else None
                parsed = data is not None and isinstance(dv, ast.Call) and UNKNOWN not in names_in(dv.func) and (r is None or r[0] == "ext")
                if not parsed:
                    edited.append((norm(dv)[:120], conds_text(tuple(conds) + tuple(ac))[:160]))
        rep.check(not edited, "R16.9", f"{short(lf)}::model-is-given-what-the-parser-returned",
                  f"{cff.name} is not built from the parsed file itself ({'; '.join(f'{v} when {c or chr(39) + 'always' + chr(39)}' for v, c in edited[:2])}): "
                  "values can be changed between the file and the options", where(lf, lf.node), lhs=edited[:4] or "parsed file",
                  rhs=f"{cff.name}(**<what the JSON / YAML parser returned>)")
    # the type a field is decoded as is the type the option has
    file_fields, cfg_fields = ix.all_fields(cff), ix.all_fields(cfgc)
    for fld, ann in file_fields.items():
        if fld in cfg_fields:
            a, b = _plain_type(ann), _plain_type(cfg_fields[fld])
            rep.check(a == b, "R16.9", f"ConfigFile.{fld}::type-of-the-option", f"the configuration file accepts `{a}` for `{fld}` while the option is `{b}`: "
                      "a value of another type is accepted and converted (or passed on as it is) instead of being refused",
                      where=f"{cff.module.rel}:{cff.node.lineno}", lhs=a, rhs=b)


def _exported_names(tree: Any) -> set[str]:
    """the macros a template module offers to the templates that import it: those defined at the top level of the file whose name does
    not start with `_` (Jinja exports nothing else; a macro nested in another one or named `_x` is the file's own business)"""
    return {n.name for n in tree.body if type(n).__name__ == "Macro" and not n.name.startswith("_")}


# ---- R16.4: tags --------------------------------------------------------------------------------------------------------------------

def _tag_list_shapes(e: ast.AST, conds: tuple = ()) -> list[tuple[tuple, tuple[bool, bool] | None]]:
    """each (condition, (keeps the document's order, cut to the first element)) of a value computed from `<operation>.tags` by mapping,
    copying, choosing and taking the first; the shape is None for anything else (sorted / set / filtered / built some other way)"""

    def cut(inner: list, ok: bool) -> list:
        return [(c, (sh[0], True) if ok and sh is not None else None) for c, sh in inner]

    if isinstance(e, (ast.ListComp, ast.GeneratorExp)):
        if len(e.generators) != 1 or e.generators[0].ifs or e.generators[0].is_async:
            return [(conds, None)]
        return _tag_list_shapes(e.generators[0].iter, conds)
    if isinstance(e, ast.Call) and call_name(e) in ("list", "tuple") and len(e.args) == 1 and not e.keywords:
        return _tag_list_shapes(e.args[0], conds)
    if isinstance(e, ast.Subscript) and isinstance(e.slice, ast.Slice):
        lo, hi, step = e.slice.lower, e.slice.upper, e.slice.step
        first_only = (lo is None or (isinstance(lo, ast.Constant) and lo.value in (0, None))) and isinstance(hi, ast.Constant) and hi.value == 1 and \
            (step is None or (isinstance(step, ast.Constant) and step.value in (1, None)))
        return cut(_tag_list_shapes(e.value, conds), first_only)
    if isinstance(e, ast.List) and len(e.elts) == 1 and isinstance(e.elts[0], ast.Subscript) and isinstance(e.elts[0].slice, ast.Constant) and e.elts[0].slice.value == 0:
        return cut(_tag_list_shapes(e.elts[0].value, conds), True)  # [xs[0]] of a never-empty list
    if isinstance(e, ast.IfExp):
        return _tag_list_shapes(e.body, conds + ((e.test, True),)) + _tag_list_shapes(e.orelse, conds + ((e.test, False),))
    if isinstance(e, ast.BoolOp) and isinstance(e.op, ast.Or):
        # `<operation>.tags or [<constant>, ...]`: the declared tags, a fixed name when there are none
        declared = isinstance(e.values[0], ast.Attribute) and e.values[0].attr == "tags"
        fallback = all(isinstance(v, (ast.List, ast.Tuple)) and all(isinstance(x, ast.Constant) for x in v.elts) for v in e.values[1:])
        return [(conds, (True, False) if declared and fallback else None)]
    if isinstance(e, ast.Attribute) and e.attr == "tags":
        return [(conds, (True, False))]
    return [(conds, None)]


def _r164_tags(rep: Report, ix: Any, callers: dict[str, list[Any]]) -> None:
    """The tags an operation is filed under are the document's, in the document's order: all of them when generate_all_tags is on, the
    first one when it is off - decided on the value that reaches `Endpoint.from_data(tags=...)` on every path, however it is computed
    (statement or conditional expression, either branch order, cut before or after the names are built).  Every collection of those tags
    then receives the endpoint object itself."""
    fd = ix.func("EndpointCollection.from_data")
    sx = SymExec(ix, watch=lambda c: call_name(c).endswith("Endpoint.from_data"))
    sx.run(fd)
    hits = [(c, call, g) for c, call, g in sx.hits if consistent(c)]
    rep.require(hits, "Endpoint.from_data(...) call")
    unordered: list[tuple[str, str]] = []
    miscut: list[tuple[str, str]] = []
    n = 0
    for conds, call, g in hits:
        tv = {k.arg: k.value for k in call.keywords}.get("tags")
        rep.require(tv is not None, "the tags= argument of Endpoint.from_data(...)")
        for ac, sh in _tag_list_shapes(tv):
            allc = tuple(conds) + tuple(ac)
            if not consistent(allc):
                continue
            n += 1
            if sh is None or not sh[0]:
                unordered.append((norm(tv)[:160], conds_text(allc)[-120:]))
                continue
            atoms: list = []
            for e, _ in allc:
                _atoms(e, atoms)
            opt = [a for a in atoms if a[0] == "truthy" and a[1].rsplit(".", 1)[-1] == "generate_all_tags"]
            on = any(implies(allc, a, True) for a in opt)
            off = any(implies(allc, a, False) for a in opt)
            if not ((on and not sh[1]) or (off and sh[1])):
                miscut.append((norm(tv)[:160], "generate_all_tags is " + ("on" if on else "off" if off else "not tested on this path")))
    rep.require(n, "a value for the tags of an operation")
    rep.check(not unordered, "R16.4", "EndpointCollection.from_data::tags-keep-document-order",
              "tags are reordered / de-duplicated through a set: with generate_all_tags off the module lands under another tag than the first listed",
              where(fd, fd.node), lhs=unordered[:3] or "document order", rhs="[PythonIdentifier(tag) for tag in operation.tags or ['default']]")
    rep.check(not miscut, "R16.4", "EndpointCollection.from_data::first-tag-unless-all", "`tags[:1]` is not applied exactly when generate_all_tags is off",
              where(fd, fd.node), lhs=miscut[:3] or "all tags / the first tag", rhs="all tags when generate_all_tags, else the first")
    # every collection of the operation receives the endpoint object itself: what is appended to `<collection>.endpoints` is the local that
    # holds the result of Endpoint.from_data, appended in a loop over all the collections (or all the tags - the value decided above) that
    # selects the collection by the loop variable and does not rebind the endpoint
    def is_tags(fn: Any, v: ast.AST, depth: int = 3) -> bool:
        """the local is what Endpoint.from_data receives as `tags=`: handed to it in fn, or handed to a private helper of fn whose
        parameter is"""
        if not isinstance(v, ast.Name):
            return False
        helpers = None
        for c in ast.walk(fn.node):
            if not isinstance(c, ast.Call):
                continue
            if call_name(c).endswith("Endpoint.from_data"):
                if any(k.arg == "tags" and isinstance(k.value, ast.Name) and k.value.id == v.id for k in c.keywords):
                    return True
            elif depth > 0 and any(isinstance(a, ast.Name) and a.id == v.id for a in [*c.args, *[k.value for k in c.keywords]]):
                helpers = helpers if helpers is not None else _helpers_of(ix, fn)
                h = _helper_called(ix, fn, c, helpers)
                if h is not None and h.qual != fn.qual and any(
                        isinstance(a, ast.Name) and a.id == v.id and p in _param_names(h) and is_tags(h, ast.Name(id=p, ctx=ast.Load()), depth - 1)
                        for p, a in _bind_call(c, h).items()):
                    return True
        return False

    def all_collections(fn: Any, v: ast.AST) -> bool:
        """the tags themselves, or one collection per tag: `[<map>.setdefault(tag, ...) | <map>[tag] for tag in <tags>]`"""
        if is_tags(fn, v):
            return True
        return isinstance(v, (ast.ListComp, ast.GeneratorExp)) and len(v.generators) == 1 and not v.generators[0].ifs and is_tags(fn, v.generators[0].iter) and \
            names_in(v.elt) >= names_in(v.generators[0].target)

    apps = [(g, c) for g in region(ix, fd) for r, c in receivers(g.node, "append") if r.rsplit(".", 1)[-1] == "endpoints"]
    bad = []
    for g, c in apps:
        x = c.args[0] if len(c.args) == 1 else None
        is_endpoint = isinstance(x, ast.Name) and any(
            isinstance(v, ast.Subscript) and isinstance(v.value, ast.Call) and call_name(v.value).endswith("Endpoint.from_data")
            for _, v in _origins(ix, g, x, callers, unpack=True))
        loops = [lp for lp in ast.walk(g.node) if isinstance(lp, (ast.For, ast.AsyncFor)) and any(y is c for y in ast.walk(lp))]
        inner = min(loops, key=lambda lp: sum(1 for _ in ast.walk(lp)), default=None)
        over_all = inner is not None and all(all_collections(fn, v) for fn, v in _origins(ix, g, inner.iter, callers, unpack=True, stop=is_tags))
        selected = inner is not None and bool(names_in(inner.target) & _names_behind(c.func.value, g.node))
        rebound = inner is not None and isinstance(x, ast.Name) and x.id in _touched([inner])
        if not (is_endpoint and over_all and selected and not rebound):
            bad.append(norm(c)[:100] + (" (not the object returned by Endpoint.from_data)" if not is_endpoint else " (not in a loop over every collection)"
                                        if not (over_all and selected) else " (rebound per collection)"))
    rep.check(bool(apps) and not bad, "R16.4", "EndpointCollection.from_data::same-endpoint-object",
              "collections receive per-tag copies", where(fd, fd.node), lhs=bad or [norm(c) for _, c in apps], rhs="<collection>.endpoints.append(<endpoint>)")


def _free_names(e: ast.AST) -> set[str]:
    """names an expression reads from its surroundings (not the variables of its own comprehensions / lambdas)"""
    own = {n.id for c in ast.walk(e) if isinstance(c, ast.comprehension) for n in ast.walk(c.target) if isinstance(n, ast.Name)}
    own |= {a.arg for lam in ast.walk(e) if isinstance(lam, ast.Lambda) for a in [*lam.args.posonlyargs, *lam.args.args, *lam.args.kwonlyargs]}
    return names_in(e) - own


def _names_behind(e: ast.AST, fn: ast.AST, depth: int = 2) -> set[str]:
    """the names an expression is computed from, locals followed to what they are bound from"""
    lc = Locals(fn)
    out = _free_names(e)
    frontier = set(out)
    for _ in range(depth):
        nxt: set[str] = set()
        for nm in frontier:
            for v in lc.values_of(nm):
                nxt |= _free_names(v) - out
        out |= nxt
        frontier = nxt
    return out


def _text_write(c: ast.Call) -> str | None:
    """`<path>.write_text(...)`, or `open(..., "w"...)` / `<path>.open("w"...)` in text mode"""
    if isinstance(c.func, ast.Attribute) and c.func.attr == "write_text":
        return "write_text"
    is_open = call_name(c) in ("open", "io.open", "codecs.open") or (isinstance(c.func, ast.Attribute) and c.func.attr == "open")
    if is_open:
        pos = 1 if call_name(c) in ("open", "io.open", "codecs.open") else 0
        mode = {k.arg: k.value for k in c.keywords}.get("mode", c.args[pos] if len(c.args) > pos else None)
        if isinstance(mode, ast.Constant) and isinstance(mode.value, str) and any(ch in mode.value for ch in "wax+") and "b" not in mode.value:
            return "open-for-writing"
    return None


def _write_events(ix: Any, f: Any, stack: set[str]) -> int:
    if f.qual in stack or len(stack) > 6:
        return 0
    n = sum(1 for c in ast.walk(f.node) if isinstance(c, ast.Call) and _text_write(c))
    helpers = _helpers_of(ix, f)
    for c in ast.walk(f.node):
        h = _helper_called(ix, f, c, helpers) if isinstance(c, ast.Call) else None
        if h is not None:
            n += _write_events(ix, h, stack | {f.qual})
    return n


def _parent(fn: ast.AST, node: ast.AST) -> ast.AST | None:
    for n in ast.walk(fn):
        for ch in ast.iter_child_nodes(n):
            if ch is node:
                return n
    return None


# ---- R16.4 (builder) / R16.5: symbolic execution of the Project ---------------------------------------------------------------------

def _r164_builder(rep: Report, ix: Any) -> None:
    """An endpoint module is a file whose path is computed from an element of `<collection>.endpoints`.  Its text must be, on every path,
    `<template>.render(endpoint=<that element>)`: rendered for this collection from this endpoint, not taken from anywhere else."""
    sites: dict[str, tuple[Any, list]] = {}  # function that contains the write -> failures
    for f in ix.cls("Project").methods.values():
        sx = SymExec(ix, watch=lambda c: _text_write(c) == "write_text")
        sx.run(f)
        for conds, call, g in sx.hits:
            els = {norm(x) for x in ast.walk(call.func.value) if isinstance(x, ast.Subscript) and isinstance(x.slice, ast.Name) and x.slice.id == "*"
                   and isinstance(x.value, ast.Attribute) and x.value.attr == "endpoints"}
            if not els or not consistent(conds):
                continue
            bad = sites.setdefault(g.qual, (g, []))[1]
            text = call.args[0] if call.args else {k.arg: k.value for k in call.keywords}.get("data")
            ok = isinstance(text, ast.Call) and isinstance(text.func, ast.Attribute) and text.func.attr == "render" and not text.args and \
                any(k.arg == "endpoint" and norm(k.value) in els for k in text.keywords)
            if not ok and (norm(text)[:120], conds_text(conds)[:200], where(g, call)) not in bad:
                bad.append((norm(text)[:120], conds_text(conds)[:200], where(g, call)))
    rep.require(sites, "a write of an endpoint module (path computed from an element of <collection>.endpoints) in Project")
    for g, bad in sites.values():
        rep.check(not bad, "R16.4", f"{short(g)}::endpoint-module-rendered-from-its-endpoint",
                  "the text written as an endpoint's module is not (on every path) the template rendered with that endpoint: under "
                  "generate_all_tags a tag can receive another operation's module", bad[0][2] if bad else where(g, g.node),
                  lhs=[b[:2] for b in bad[:4]] or "render(endpoint=<element of collection.endpoints>)",
                  rhs="<template>.render(endpoint=<the element of collection.endpoints the path is computed from>)")


def _r165_package_name(rep: Report, ix: Any) -> None:
    init = ix.cls("Project").methods.get("__init__")
    rep.require(init, "Project.__init__")
    sx = SymExec(ix)
    sx.run(init)
    me = init.params[0].arg
    bad = []
    n = 0
    for st, _ in sx.exits:
        if not consistent(st.conds):
            continue
        pkg, prj = st.env.get(f"{me}.package_name"), st.env.get(f"{me}.project_name")
        rep.require(pkg is not None and prj is not None, "Project.__init__ assigns self.project_name and self.package_name on every path")
        for ac, av in alternatives(pkg):
            if isinstance(av, ast.Attribute) and av.attr == "package_name_override":
                continue  # the override itself
            for pc_, pv in alternatives(prj):
                if not consistent(st.conds + tuple(ac) + tuple(pc_)):
                    continue
                n += 1
                # some `<...project name...>.replace("-", "_")` inside the value
                ok = any(isinstance(c, ast.Call) and isinstance(c.func, ast.Attribute) and c.func.attr == "replace" and [norm(a) for a in c.args] == ["'-'", "'_'"]
                         and any(norm(x) == norm(pv) for x in ast.walk(c.func.value)) for c in ast.walk(av))
                if not ok:
                    bad.append((norm(av)[:120], f"project name is {norm(pv)[:80]}", conds_text(st.conds + tuple(ac) + tuple(pc_))[:200]))
    rep.require(n, "a default for Project.package_name")
    rep.check(not bad, "R16.5", "Project.__init__::package-name-follows-project-name",
              "without package_name_override the package name is not derived from the project name in effect: project_name_override alone "
              "no longer renames the package", where(init, init.node), lhs=bad[:3] or "<project name>.replace('-', '_')", rhs="<project name in effect>.replace('-', '_')")


# ---- R16.1: what value reaches each field ---------------------------------------------------------------------------------------

def _r161_from_sources(rep: Report, ix: Any, fs: Any, cfgc: Any, cff: Any, fields: list[str]) -> None:
    file_fields = ix.all_fields(cff)
    params = {p.arg for p in fs.params}
    cf_param = next((p.arg for p in fs.params if p.annotation is not None and cff.name in norm(p.annotation)), None)
    rep.require(cf_param, "the ConfigFile parameter of Config.from_sources")
    ctor_names = {cfgc.name} | ({fs.params[0].arg} if fs.kind == "classmethod" and fs.params else set())
    # a method of the file model called on the file object (`config_file.m(...)`) is part of the plumbing: executed like a private helper
    sx = SymExec(ix, methods_of_inputs=True)
    sx.run(fs)
    rets = [(st, v) for st, v in sx.exits if consistent(st.conds)]
    rep.require(rets, "a path through Config.from_sources that returns")
    bad: dict[str, list[tuple[str, str, ast.AST]]] = {f_: [] for f_ in fields}
    for st0, rv in rets:
        given = _ctor_arguments(rv, ctor_names, fields)
        rep.require(given is not None, "Config.from_sources returns Config(...) with resolvable arguments (keywords, **{dict literal filled by constant keys})")
        for fld in fields:
            v0 = given.get(fld)
            if v0 is None:
                bad[fld].append(("field not set", conds_text(st0.conds), rv))
                continue
            # a helper called in argument position is executed as well: the field receives what it returns on each of its paths
            for st, v in sx.values(v0, st0, fs, 1):
                for ac, av in alternatives(v):
                    allc = tuple(st.conds) + tuple(ac)
                    if not consistent(allc):
                        continue
                    if fld in file_fields:
                        src = f"{cf_param}.{fld}"
                        ok = norm(av) == src and isinstance(av, ast.Attribute) \
                            or implies(allc, ("none", src), True) \
                            or (implies(allc, ("truthy", src), False) and _empty_literal_of(av, file_fields[fld]))
                    else:
                        ok = isinstance(av, ast.Name) and av.id == fld and fld in params
                    if not ok:
                        bad[fld].append((norm(av), conds_text(allc), av))
    for fld in fields:
        key = f"Config.from_sources::{fld}"
        b = bad[fld]
        if fld in file_fields:
            want = f"{cf_param}.{fld} (a default only where `{cf_param}.{fld} is None`)"
            msg = f"Config.{fld} is not the ConfigFile value on every path: " + "; ".join(f"{t} when {c or 'always'}" for t, c, _ in b[:3])
            if b and any(k in norm(file_fields[fld]).lower() for k in ("list", "dict")):
                msg += " - the configured value is replaced under a condition other than `is None` (an explicit empty value would fall back to the default)"
        else:
            want = fld
            msg = f"Config.{fld} is not the same-named argument: " + "; ".join(f"{t} when {c or 'always'}" for t, c, _ in b[:3])
        rep.check(not b, "R16.1", key, msg, where(fs, b[0][2] if b else fs.node), lhs=[(t, c) for t, c, _ in b] or want, rhs=want)


def _ctor_arguments(rv: ast.AST | None, ctor_names: set[str], fields: list[str]) -> dict[str, ast.AST] | None:
    """field -> value expression of a `Config(...)` call: positional by field order, keywords, `**{...}` of a dict with constant keys"""
    if not (isinstance(rv, ast.Call) and call_name(rv) in ctor_names) or any(isinstance(a, ast.Starred) for a in rv.args):
        return None
    out: dict[str, ast.AST] = {fields[i]: a for i, a in enumerate(rv.args) if i < len(fields)}

    def merge(d: ast.AST) -> bool:
        if not isinstance(d, ast.Dict):
            return False
        for k, v in zip(d.keys, d.values):
            if k is None:
                if not merge(v):
                    return False
            elif isinstance(k, ast.Constant) and isinstance(k.value, str):
                out[k.value] = v
            else:
                return False
        return True

    for k in rv.keywords:
        if k.arg is not None:
            out[k.arg] = k.value
        elif not merge(k.value):
            return None
    return out


def _empty_literal_of(v: ast.AST, ann: ast.AST | None) -> bool:
    """`{}` / `dict()` for a dict-typed field, `[]` / `list()` for a list-typed one: the only value a falsy non-None container can equal"""
    a = norm(ann).lower()
    kind = None
    if isinstance(v, ast.Dict) and not v.keys:
        kind = "dict"
    elif isinstance(v, ast.List) and not v.elts:
        kind = "list"
    elif isinstance(v, ast.Call) and not v.args and not v.keywords and call_name(v) in ("dict", "list"):
        kind = call_name(v)
    return kind is not None and kind in a


def _selections(e: ast.AST) -> set[str] | None:
    """the expressions e can evaluate to when it only CHOOSES among values and computes nothing: a conditional expression, `and` / `or`,
    `:=`, an element (any index, `next(...)`) of a display, of a comprehension that passes (some of) its elements through, of
    list / tuple / sorted / reversed / filter / iter of one.  None when something is computed from a value on the way."""
    if isinstance(e, (ast.Name, ast.Attribute, ast.Constant)):
        return {norm(e)}
    if isinstance(e, ast.NamedExpr):
        return _selections(e.value)
    if isinstance(e, ast.IfExp):
        parts = [_selections(e.body), _selections(e.orelse)]
    elif isinstance(e, ast.BoolOp):
        parts = [_selections(v) for v in e.values]
    elif isinstance(e, ast.Subscript) and not isinstance(e.slice, ast.Slice):
        parts = [_elements(e.value)]
    elif isinstance(e, ast.Call) and call_name(e) == "next" and 1 <= len(e.args) <= 2 and not e.keywords:
        parts = [_elements(e.args[0]), *[_selections(d) for d in e.args[1:]]]
    else:
        return None
    return None if any(x is None for x in parts) else set().union(*parts)


def _elements(e: ast.AST) -> set[str] | None:
    """what the elements of a collection can be (see _selections)"""
    if isinstance(e, (ast.Tuple, ast.List, ast.Set)):
        parts = [_elements(x.value) if isinstance(x, ast.Starred) else _selections(x) for x in e.elts]
    elif isinstance(e, (ast.ListComp, ast.SetComp, ast.GeneratorExp)):
        parts = [_selections(e.elt)]  # comprehension variables already read as elements of what is iterated
    elif isinstance(e, ast.Call) and call_name(e) in ("list", "tuple", "sorted", "reversed", "iter", "set", "frozenset") and len(e.args) == 1 and \
            all(k.arg in ("key", "reverse") for k in e.keywords):
        parts = [_elements(e.args[0])]
    elif isinstance(e, ast.Call) and call_name(e) == "filter" and len(e.args) == 2 and not e.keywords:
        parts = [_elements(e.args[1])]
    elif isinstance(e, ast.Subscript) and isinstance(e.slice, ast.Slice):
        parts = [_elements(e.value)]
    elif isinstance(e, (ast.IfExp, ast.BoolOp, ast.NamedExpr)):
        alts = [e.body, e.orelse] if isinstance(e, ast.IfExp) else e.values if isinstance(e, ast.BoolOp) else [e.value]
        parts = [_elements(x) for x in alts]
    else:
        return None
    return None if any(x is None for x in parts) else set().union(*parts)


# from_sources parameter <- the option(s) of the generate command it is taken from (same name unless listed)
_CLI_OPTION_OF = {"meta_type": ("meta",), "document_source": ("url", "path")}


def _r161_cli(rep: Report, ix: Any, fs: Any) -> None:
    """CLI option -> Config.from_sources parameter: the generate command is executed symbolically with the private helpers it delegates to
    inlined, so that on every path that reaches Config.from_sources(...) each argument is written in terms of the command's own options -
    whatever helpers, locals and tests lie in between.  Each must be the option itself (for the document source: the url or the path
    option, whichever way it is picked), the configuration file the one loaded from --config."""
    cg = ix.func("cli.generate")
    sx = SymExec(ix, watch=lambda c: _last(c) == fs.name, inline_depth=3)
    sx.run(cg)
    hits = [(c, call, g) for c, call, g in sx.hits if consistent(c)]
    rep.require(hits, "a call of Config.from_sources reached from the generate command (private helpers inlined)")
    options = {p.arg for p in cg.params}
    cffn = "ConfigFile"
    got: dict[str, list[tuple[str, str]]] = {}
    for conds, call, g in hits:
        rep.require(not any(isinstance(a, ast.Starred) for a in call.args) and all(k.arg for k in call.keywords), "from_sources(...) with explicit arguments")
        for name, v0 in _bind_call(call, fs).items():
            wrong = got.setdefault(name, [])
            # a helper called in argument position is inlined as well
            for st, v in sx.values(v0, State(dict(sx.hit_env.get(id(call), {})), tuple(conds)), g, 1):
                if not consistent(st.conds):
                    continue
                if name == "config_file":
                    # the file named by --config loaded as it is, or (only when none is named) an empty ConfigFile
                    ok = "config_path" in options
                    for ac, av in alternatives(v):
                        allc = tuple(st.conds) + tuple(ac)
                        if not consistent(allc):
                            continue
                        loaded = isinstance(av, ast.Call) and call_name(av) == f"{cffn}.load_from_path" and \
                            [norm(a) for a in av.args] + [f"{k.arg}={norm(k.value)}" for k in av.keywords] in (["config_path"], ["path=config_path"])
                        empty = isinstance(av, ast.Call) and call_name(av) == cffn and not av.args and not av.keywords and \
                            implies(allc, ("truthy", "config_path"), False)
                        ok = ok and (loaded or empty)
                else:
                    want = set(_CLI_OPTION_OF.get(name, (name,)))
                    sel = _selections(v)
                    ok = want <= options and sel is not None and bool(sel) and sel <= want
                if not ok:
                    wrong.append((norm(v)[:160], conds_text(st.conds)[:200]))
    rep.floor("cli_options_forwarded", len(got), 3)
    wants = {"document_source": "the `url` or the `path` option", "config_file": "ConfigFile.load_from_path(path=config_path) | ConfigFile() when no config_path"}
    for name, wrong in got.items():
        want = wants.get(name, " | ".join(_CLI_OPTION_OF.get(name, (name,))))
        rep.check(not wrong, "R16.1", f"cli.generate::{name}", "value modified between the CLI option and Config", where(cg, cg.node),
                  lhs=wrong[:4] or want, rhs=want)


def _bind_call(call: ast.Call, callee: Any) -> dict[str, ast.AST]:
    """parameter name -> argument expression (explicit arguments only)"""
    a = callee.node.args
    pos = [p.arg for p in [*a.posonlyargs, *a.args]]
    if callee.kind in ("method", "classmethod"):
        pos = pos[1:]
    out = {pos[i]: arg for i, arg in enumerate(call.args) if i < len(pos)}
    out.update({k.arg: k.value for k in call.keywords if k.arg})
    return out


# ---- a small symbolic executor ------------------------------------------------------------------------------------------------------
# Enumerates the paths of a small function through its `if` / `try` statements.  Every local is replaced by the expression it is bound
# from, so the values that come out are written in terms of parameters, attributes and calls only - however the function spells or
# orders its temporaries, whether it nests or chains its tests, builds a call from keywords or from a dict filled step by step, or moves
# a step into a private helper (inlined).  Anything it does not model becomes UNKNOWN, which no rule accepts as a value.

UNKNOWN = "<unknown>"
_MUTATORS = {"update", "setdefault", "pop", "popitem", "clear", "append", "extend", "insert", "remove", "sort", "reverse", "add", "discard"}
Cond = tuple  # (test expression with locals substituted, polarity)


def _unknown() -> ast.expr:
    return ast.Name(id=UNKNOWN, ctx=ast.Load())


def _is_generator(h: Any) -> bool:
    """a function whose own body (nested functions apart) yields"""
    todo = list(h.node.body)
    while todo:
        n = todo.pop()
        if isinstance(n, (ast.Yield, ast.YieldFrom)):
            return True
        if not isinstance(n, (ast.FunctionDef, ast.AsyncFunctionDef, ast.Lambda, ast.ClassDef)):
            todo += list(ast.iter_child_nodes(n))
    return False


def _constant_test(t: ast.AST) -> bool | None:
    """the truth value of a test made of constants only (`not`, `and`, `or` included); None when it depends on anything"""
    if isinstance(t, ast.Constant):
        return bool(t.value)
    if isinstance(t, ast.UnaryOp) and isinstance(t.op, ast.Not):
        v = _constant_test(t.operand)
        return None if v is None else not v
    if isinstance(t, ast.BoolOp):
        vals = [_constant_test(v) for v in t.values]
        if isinstance(t.op, ast.And):
            return False if any(v is False for v in vals) else True if all(v is True for v in vals) else None
        return True if any(v is True for v in vals) else False if all(v is False for v in vals) else None
    return None


class State:
    __slots__ = ("env", "conds")

    def __init__(self, env: dict[str, ast.AST], conds: tuple[Cond, ...]) -> None:
        self.env = env
        self.conds = conds

    def fork(self, *extra: Cond) -> "State":
        return State(dict(self.env), self.conds + tuple(extra))


def _subst_names(e: ast.AST, env: dict[str, ast.AST]) -> ast.AST:
    """e with every local `x` / attribute cell `x.attr` that env knows replaced by its value"""
    import copy

    shadow = {n.id for c in ast.walk(e) if isinstance(c, ast.comprehension) for n in ast.walk(c.target) if isinstance(n, ast.Name)}
    shadow |= {a.arg for lam in ast.walk(e) if isinstance(lam, ast.Lambda) for a in [*lam.args.posonlyargs, *lam.args.args, *lam.args.kwonlyargs]}

    class S(ast.NodeTransformer):
        def visit_Name(self, n: ast.Name) -> ast.AST:
            if isinstance(n.ctx, ast.Load) and n.id in env and n.id not in shadow:
                return copy.deepcopy(env[n.id])  # not visited again: the value is already in terms of the caller's inputs
            return n

        def visit_Attribute(self, n: ast.Attribute) -> ast.AST:
            if isinstance(n.ctx, ast.Load) and isinstance(n.value, ast.Name) and n.value.id not in shadow and f"{n.value.id}.{n.attr}" in env:
                return copy.deepcopy(env[f"{n.value.id}.{n.attr}"])
            return self.generic_visit(n)

    return S().visit(copy.deepcopy(e))


def _bind_comprehensions(e: ast.AST) -> ast.AST:
    """every variable of a comprehension / generator expression read as what it stands for, exactly as the target of a `for` statement
    is: `x` of `for x in ITER` is `ITER[*]`, the i-th name of a tuple target `ITER[*][i]`, a name bound by `:=` in a filter is the value
    bound.  What a comprehension computes is then written in terms of what it iterates, however its variables are called.  (e is
    modified in place: it is a private copy.)"""

    class T(ast.NodeTransformer):
        def _comp(self, n: Any) -> ast.AST:
            env: dict[str, ast.AST] = {}

            def part(x: ast.AST) -> ast.AST:
                return self.visit(_subst_names(x, env) if env else x)

            for g in n.generators:
                g.iter = part(g.iter)
                if isinstance(g.target, ast.Name):
                    env[g.target.id] = _element(g.iter)
                elif isinstance(g.target, (ast.Tuple, ast.List)) and all(isinstance(x, ast.Name) for x in g.target.elts):
                    for i, x in enumerate(g.target.elts):
                        env[x.id] = _element(g.iter, i)
                else:
                    for x in ast.walk(g.target):
                        if isinstance(x, ast.Name):
                            env.pop(x.id, None)
                ifs = []
                for c in g.ifs:
                    c = part(c)
                    for w in ast.walk(c):
                        if isinstance(w, ast.NamedExpr) and isinstance(w.target, ast.Name):
                            env[w.target.id] = w.value
                    ifs.append(c)
                g.ifs = ifs
            for fld in ("elt", "key", "value"):
                if hasattr(n, fld):
                    setattr(n, fld, part(getattr(n, fld)))
            return n

        visit_ListComp = visit_SetComp = visit_GeneratorExp = visit_DictComp = _comp

    return T().visit(e)


def substitute(e: ast.AST, env: dict[str, ast.AST]) -> ast.AST:
    """e in terms of the inputs: every local `x` / attribute cell `x.attr` that env knows replaced by its value, every comprehension
    variable by the element of what it iterates"""
    out = _subst_names(e, env)
    if any(isinstance(n, ast.comprehension) for n in ast.walk(out)):
        out = _bind_comprehensions(out)
    return out


def _cell(t: ast.AST) -> str | None:
    """the cell a store / in-place mutation through expression t changes: the local `x`, or `x.attr` when it goes through an attribute of x"""
    chain = []
    while isinstance(t, (ast.Attribute, ast.Subscript, ast.Starred)):
        chain.append(t)
        t = t.value
    if not isinstance(t, ast.Name):
        return None
    return f"{t.id}.{chain[-1].attr}" if chain and isinstance(chain[-1], ast.Attribute) else t.id


def _touched(nodes: list[ast.stmt]) -> set[str]:
    """cells whose value a block of statements may change: assigned, deleted, or mutated in place"""
    out: set[str] = set()
    for st in nodes:
        for n in ast.walk(st):
            c = None
            if isinstance(n, (ast.Name, ast.Attribute, ast.Subscript)) and isinstance(getattr(n, "ctx", None), (ast.Store, ast.Del)):
                c = _cell(n)
            elif isinstance(n, ast.Call) and isinstance(n.func, ast.Attribute) and n.func.attr in _MUTATORS:
                c = _cell(n.func.value)
            elif isinstance(n, ast.ExceptHandler) and n.name:
                c = n.name
            if c:
                out.add(c)
    return out


def _element(it_: ast.AST, idx: int | None = None) -> ast.AST:
    """`ITER[*]`: some element of the iterable a loop runs over (`ITER[*][i]` for the i-th name of a tuple target)"""
    el: ast.AST = ast.copy_location(ast.Subscript(value=it_, slice=ast.Name(id="*", ctx=ast.Load()), ctx=ast.Load()), it_)
    if idx is not None:
        el = ast.copy_location(ast.Subscript(value=el, slice=ast.Constant(value=idx), ctx=ast.Load()), it_)
    return el


class SymExec:
    MAX_STATES = 256

    def __init__(self, ix: Any, watch: Any = None, inline_depth: int = 2, record: bool = False, stop_at_hit: bool = False,
                 methods_of_inputs: bool = False) -> None:
        self.ix = ix
        self.watch = watch
        # a method called on a parameter of the entry function that is annotated as a class of the package (`config_file.m(...)`) is
        # executed as well, `self` being that parameter: what it returns is part of what the entry function computes from its inputs
        self.methods_of_inputs = methods_of_inputs
        self.entry: Any = None
        self.stop_at_hit = stop_at_hit  # a path is followed up to the first statement that makes a watched call (what comes after is not asked for)
        self.inline_depth = inline_depth
        self.recorded: list[ast.AST] | None = [] if record else None  # every expression a statement evaluates (tests included), substituted
        self.hits: list[tuple[tuple[Cond, ...], ast.Call, Any]] = []  # (path condition, watched call with locals substituted, function)
        self.exits: list[tuple[State, ast.AST]] = []                  # of the outermost function: (final state, returned value)
        self.hit_env: dict[int, dict[str, ast.AST]] = {}              # id(watched call) -> what the locals held where it was met
        self._helpers: dict[str, dict[str, Any]] = {}
        self._sinks: list[list[tuple[State, ast.AST]]] = []           # of the generator helpers being executed: what they yield

    def run(self, f: Any, bound: dict[str, ast.AST] | None = None, conds: tuple[Cond, ...] = (), depth: int = 0) -> list[tuple[tuple[Cond, ...], ast.AST]]:
        """(path condition, returned value) of every path that returns"""
        rets: list[tuple[State, ast.AST]] = []
        if depth == 0:
            self.entry = f
        for s in self._block(f.node.body, [State(dict(bound or {}), tuple(conds))], rets, f, depth):
            rets.append((s, ast.Constant(value=None)))
        if depth == 0:
            self.exits = rets
        return [(s.conds, v) for s, v in rets]

    # -- values ---------------------------------------------------------------------------------------------------------------------
    def _helper(self, call: ast.AST, f: Any) -> Any:
        """the function a call in f executes as part of f's own work: a function defined inside f (or inside a function that encloses f)
        called by its plain name, or a private helper of f's module / class"""
        if not isinstance(call, ast.Call):
            return None
        known = self._helpers.get(f.qual)
        if known is None:
            known = {}
            scopes, g = set(), f
            while g is not None:
                scopes.add(g.qual)
                g = g.parent
            for h in self.ix.all_functions:
                if h.parent is not None and h.parent.qual in scopes and h.qual not in scopes:
                    known.setdefault(h.name, h)
            for h in _helpers_of(self.ix, f):
                if _private_name(h.name):
                    known.setdefault("." + h.name, h)
            self._helpers[f.qual] = known
        cn = call_name(call)
        h = (known.get(cn) if "." not in cn else None) or known.get("." + cn.rsplit(".", 1)[-1])
        if h is None:
            h = _private_class_method(self.ix, f, call)  # `<_PrivateClass>.m(...)`
            if h is not None and (h.module is not f.module or h.qual == f.qual):
                h = None
        if h is None and self.methods_of_inputs:
            h = self._method_of_input(call)
        return h

    def _method_of_input(self, call: ast.Call) -> Any:
        """the method `<parameter of the entry function>.m(...)` executes, the parameter being annotated as a class of the package"""
        fn, e = call.func, self.entry
        if e is None or not (isinstance(fn, ast.Attribute) and isinstance(fn.value, ast.Name)) or fn.attr.startswith("__"):
            return None
        p = next((p for p in e.params if p.arg == fn.value.id and p.annotation is not None), None)
        if p is None:
            return None
        ann = p.annotation.value if isinstance(p.annotation, ast.Constant) and isinstance(p.annotation.value, str) else norm(p.annotation)
        r = self.ix.resolve(e.module, ann)
        if not r or r[0] != "class":
            return None
        m = self.ix.find_method(r[1], fn.attr)
        return m if m is not None and m.kind == "method" and m.params else None

    def values(self, v: ast.AST, s: State, f: Any, depth: int) -> list[tuple[State, ast.AST]]:
        """the (already substituted) value, a call to a helper of f (private function / method, closure) replaced by what the helper
        returns on each of its paths"""
        h = self._helper(v, f)
        if h is None or depth >= self.inline_depth or any(isinstance(a, ast.Starred) for a in v.args) or any(k.arg is None for k in v.keywords):
            return [(s, v)]
        if _is_generator(h):
            return [(s, v)]  # calling it runs nothing: its body runs where the result is iterated (see yielded)
        bound, outer = self._helper_frame(h, v, s, f)
        out = []
        for c, rv in self.run(h, bound, s.conds, depth + 1):
            s2 = State(dict(s.env), c)
            for cell in outer & _touched(h.node.body):
                self._forget(s2, cell)
            out.append((s2, rv))
        return out

    def yielded(self, v: ast.AST, s: State, f: Any, depth: int) -> list[tuple[State, ast.AST]] | None:
        """`for x in <helper>(...)` where the helper is a generator function: x is, in turn, each value the helper yields - (state with the
        path condition under which it is yielded, the value); None when v is not such a call"""
        h = self._helper(v, f)
        if h is None or depth >= self.inline_depth or any(isinstance(a, ast.Starred) for a in v.args) or any(k.arg is None for k in v.keywords) \
                or not _is_generator(h):
            return None
        bound, _ = self._helper_frame(h, v, s, f)
        sink: list[tuple[State, ast.AST]] = []
        self._sinks.append(sink)
        try:
            self.run(h, bound, s.conds, depth + 1)
        finally:
            self._sinks.pop()
        return [(State(dict(s.env), ys.conds), yv) for ys, yv in sink]

    def _helper_frame(self, h: Any, v: ast.Call, s: State, f: Any) -> tuple[dict[str, ast.AST], set[str]]:
        """what the names of helper h stand for when it is entered through call v (made in f, state s), and the enclosing function's
        cells it declares nonlocal"""
        a = h.node.args
        names = [p.arg for p in [*a.posonlyargs, *a.args, *a.kwonlyargs]]
        if h.kind in ("method", "classmethod"):
            names = names[1:]
        allpos = [*a.posonlyargs, *a.args]
        bound: dict[str, ast.AST] = {}
        outer: set[str] = set()
        if h.parent is not None:
            # a closure reads the variables of the function it is defined in as they are when it is called; its own parameters and
            # locals hide them, names it declares `nonlocal` are the enclosing function's and are unknown there after the call
            outer = {x for n in ast.walk(h.node) if isinstance(n, (ast.Nonlocal, ast.Global)) for x in n.names}
            own = (_touched(h.node.body) | {p.arg for p in h.params}) - outer
            own = {c.split(".", 1)[0] for c in own if "." not in c}
            bound = {k: val for k, val in s.env.items() if k.split(".", 1)[0] not in own}
        bound.update({p.arg: d for p, d in zip(allpos[len(allpos) - len(a.defaults):], a.defaults)})
        bound.update({p.arg: d for p, d in zip(a.kwonlyargs, a.kw_defaults) if d is not None})
        bound.update(_bind_call(v, h))
        for n in names:
            bound.setdefault(n, _unknown())
        if h.kind == "classmethod" and h.cls is not None and h.params and isinstance(v.func, ast.Attribute) and norm(v.func.value) == h.cls.name:
            bound[h.params[0].arg] = ast.Name(id=h.cls.name, ctx=ast.Load())  # called through the class itself: `cls` is that class
        if h.kind == "method" and h.params and isinstance(v.func, ast.Attribute) and isinstance(v.func.value, ast.Name) and v.func.value.id != UNKNOWN \
                and h.params[0].arg not in bound and (h.cls is None or v.func.value.id != h.cls.name):
            bound[h.params[0].arg] = v.func.value  # the object the method runs on is the receiver of the call
        if h.kind == "method" and f.kind == "method" and isinstance(v.func, ast.Attribute) and norm(v.func.value) == f.params[0].arg:
            # the same object: what the caller knows about its attributes holds in the helper
            bound.update({f"{h.params[0].arg}.{k.split('.', 1)[1]}": val for k, val in s.env.items() if k.startswith(f.params[0].arg + ".")})
        return bound, outer

    # -- statements -----------------------------------------------------------------------------------------------------------------
    def _block(self, body: list[ast.stmt], states: list[State], rets: list, f: Any, depth: int) -> list[State]:
        for st in body:
            nxt: list[State] = []
            for s in states:
                nxt += self._stmt(st, s, rets, f, depth)
            states = nxt
            if len(states) > self.MAX_STATES:
                raise AnalysisError(f"symbolic execution of {short(f)}: more than {self.MAX_STATES} paths")
        return states

    def _note(self, st: ast.stmt, s: State, f: Any) -> bool:
        if self.watch is None:
            return False
        hit = False
        for n in walk_own(st):
            if isinstance(n, ast.Call) and self.watch(n):
                call = substitute(n, s.env)
                self.hits.append((s.conds, call, f))
                self.hit_env[id(call)] = s.env
                hit = True
        return hit

    def _forget(self, s: State, cell: str) -> None:
        s.env[cell] = _unknown()
        for k in [k for k in s.env if k.startswith(cell + ".")]:
            del s.env[k]  # attributes of whatever the name held before

    def _havoc(self, s: State, cells: set[str]) -> State:
        s2 = s.fork()
        for c in cells:
            self._forget(s2, c)
        return s2

    def _method_effects(self, st: ast.stmt, s: State, f: Any) -> None:
        """a method called on the object f itself runs on (`self.m(...)`) may assign attributes of it: those cells are no longer known"""
        if f.cls is None or f.kind != "method" or not f.params:
            return
        me = f.params[0].arg
        for n in walk_own(st):
            if isinstance(n, ast.Call) and isinstance(n.func, ast.Attribute) and isinstance(n.func.value, ast.Name) and n.func.value.id == me:
                todo, seen = [n.func.attr], set()
                while todo:
                    m = self.ix.find_method(f.cls, todo.pop())
                    if m is None or m.qual in seen or not m.params:
                        continue
                    seen.add(m.qual)
                    its = m.params[0].arg
                    for c in _touched(m.node.body):
                        if c.startswith(its + "."):
                            self._forget(s, f"{me}.{c.split('.', 1)[1]}")
                    todo += [c.func.attr for c in ast.walk(m.node) if isinstance(c, ast.Call) and isinstance(c.func, ast.Attribute)
                             and isinstance(c.func.value, ast.Name) and c.func.value.id == its]

    def _record(self, val: ast.AST, f: Any) -> dict[str, ast.AST] | None:
        """field -> value of `<Class>(...)` when Class is a plain record of the package (NamedTuple / dataclass / attrs class: annotated
        fields, no constructor or post-init hook of its own), whose attributes are what it was constructed with"""
        if f is None or not isinstance(val, ast.Call) or any(isinstance(a, ast.Starred) for a in val.args) or any(k.arg is None for k in val.keywords):
            return None
        r = self.ix.resolve(f.module, call_name(val))
        if not r or r[0] != "class":
            return None
        k = r[1]
        fields = list(self.ix.all_fields(k))
        if not fields or any(self.ix.find_method(k, m) is not None for m in ("__init__", "__new__", "__post_init__", "__attrs_post_init__")):
            return None
        if any(isinstance(d, ast.Call) and any(kw.arg in ("converter", "factory", "default_factory") for kw in d.keywords)
               for c in self.ix.mro(k) for d in c.field_defaults.values()):
            return None
        out = {fields[i]: a for i, a in enumerate(val.args) if i < len(fields)}
        out.update({kw.arg: kw.value for kw in val.keywords if kw.arg in fields})
        return out

    def _tuple_items(self, val: ast.AST, f: Any) -> list[ast.AST] | None:
        """the items a value unpacks into: the elements of a tuple / list display, the fields (in declaration order) of a NamedTuple of the
        package that is constructed with all of them"""
        if isinstance(val, (ast.Tuple, ast.List)):
            return list(val.elts)
        rec = self._record(val, f)
        if rec is None:
            return None
        k = self.ix.resolve(f.module, call_name(val))[1]
        fields = list(self.ix.all_fields(k))
        if not any(b.rsplit(".", 1)[-1] == "NamedTuple" for b in self.ix.ext_bases(k)) or any(x not in rec for x in fields):
            return None
        return [rec[x] for x in fields]

    def _decide_type_tests(self, t: ast.AST, f: Any) -> ast.AST:
        """the test with every `isinstance(<C(...)>, D)` whose answer follows from the classes alone (C, D classes of the package, the object
        being constructed right there) replaced by that answer"""
        ix = self.ix

        def klass(e: ast.AST) -> Any:
            r = ix.resolve(f.module, norm(e)) if isinstance(e, (ast.Name, ast.Attribute)) and UNKNOWN not in names_in(e) else None
            return r[1] if r and r[0] == "class" else None

        class T(ast.NodeTransformer):
            def visit_Call(self, n: ast.Call) -> ast.AST:
                if call_name(n) == "isinstance" and len(n.args) == 2 and not n.keywords and isinstance(n.args[0], ast.Call):
                    c = klass(n.args[0].func)
                    ds = [klass(d) for d in (n.args[1].elts if isinstance(n.args[1], ast.Tuple) else [n.args[1]])]
                    if c is not None and ds and all(d is not None for d in ds) and ix.find_method(c, "__new__") is None:
                        quals = {k.qual for k in ix.mro(c)}
                        return ast.copy_location(ast.Constant(value=any(d.qual in quals for d in ds)), n)
                return self.generic_visit(n)

        if not any(isinstance(n, ast.Call) and call_name(n) == "isinstance" for n in ast.walk(t)):
            return t
        import copy
        return T().visit(copy.deepcopy(t))

    def _bind(self, t: ast.AST, val: ast.AST, s: State, f: Any = None) -> None:
        if isinstance(t, ast.Name):
            self._forget(s, t.id)
            s.env[t.id] = val
            for fld, fv in (self._record(val, f) or {}).items():
                s.env[f"{t.id}.{fld}"] = fv  # a record just built: each attribute is the argument it was given
        elif isinstance(t, ast.Attribute) and isinstance(t.value, ast.Name):
            self._forget(s, f"{t.value.id}.{t.attr}")
            s.env[f"{t.value.id}.{t.attr}"] = val
        elif isinstance(t, (ast.Tuple, ast.List)):
            items = self._tuple_items(val, f)
            if items is not None and len(items) == len(t.elts) and not any(isinstance(x, ast.Starred) for x in [*t.elts, *items]):
                for te, ve in zip(t.elts, items):
                    self._bind(te, ve, s, f)
            else:
                for te in t.elts:
                    self._bind(te, _unknown(), s)
        elif isinstance(t, ast.Subscript) and isinstance(t.value, ast.Name) and isinstance(s.env.get(t.value.id), ast.Dict) and \
                isinstance(t.slice, ast.Constant) and all(isinstance(k, ast.Constant) for k in s.env[t.value.id].keys):
            d = s.env[t.value.id]
            pairs = [(k, v) for k, v in zip(d.keys, d.values) if k.value != t.slice.value] + [(t.slice, val)]
            s.env[t.value.id] = ast.copy_location(ast.Dict(keys=[k for k, _ in pairs], values=[v for _, v in pairs]), d)
        else:
            c = _cell(t)
            if c:
                self._forget(s, c)  # an item / nested attribute of it was assigned: whatever it held is no longer known

    def _bind_loop_target(self, t: ast.AST, it_: ast.AST, s: State) -> None:
        if isinstance(t, (ast.Tuple, ast.List)) and all(isinstance(x, ast.Name) for x in t.elts):
            for i, x in enumerate(t.elts):
                self._bind(x, _element(it_, i), s)
        else:
            self._bind(t, _element(it_), s)

    def _stmt(self, st: ast.stmt, s: State, rets: list, f: Any, depth: int) -> list[State]:
        if self._note(st, s, f) and self.stop_at_hit:
            return []
        if self.recorded is not None:
            own = [getattr(st, a, None) for a in ("test", "value", "iter", "subject", "exc")] + [i.context_expr for i in getattr(st, "items", []) or []]
            self.recorded += [substitute(e, s.env) for e in own if isinstance(e, ast.AST)]
        if isinstance(st, (ast.Assign, ast.AnnAssign)):
            if st.value is None:
                return [s]
            targets = st.targets if isinstance(st, ast.Assign) else [st.target]
            out = []
            for s2, val in self.values(substitute(st.value, s.env), s, f, depth):
                s2 = s2.fork()
                self._method_effects(st, s2, f)
                for t in targets:
                    self._bind(t, val, s2, f)
                out.append(s2)
            return out
        if isinstance(st, ast.AugAssign):
            s2 = s.fork()
            self._method_effects(st, s2, f)
            if isinstance(st.target, ast.Name):
                cur = substitute(ast.Name(id=st.target.id, ctx=ast.Load()), s.env)
                s2.env[st.target.id] = ast.copy_location(ast.BinOp(left=cur, op=st.op, right=substitute(st.value, s.env)), st)
            else:
                self._bind(st.target, _unknown(), s2)
            return [s2]
        if isinstance(st, ast.If):
            t = self._decide_type_tests(substitute(st.test, s.env), f)
            s2 = s.fork()
            self._method_effects(st, s2, f)
            known = _constant_test(t)
            if known is not None:  # decided by what the value is (an object just constructed is / is not of a class): one branch exists
                return self._block(st.body if known else st.orelse, [s2], rets, f, depth)
            return self._block(st.body, [s2.fork((t, True))], rets, f, depth) + self._block(st.orelse, [s2.fork((t, False))], rets, f, depth)
        if isinstance(st, ast.Expr) and isinstance(st.value, (ast.Yield, ast.YieldFrom)):
            if self._sinks and depth > 0:
                yv = substitute(st.value.value, s.env) if st.value.value is not None else ast.Constant(value=None)
                self._sinks[-1].append((s, _element(yv) if isinstance(st.value, ast.YieldFrom) else yv))
            return [s]
        if isinstance(st, ast.Return):
            v = substitute(st.value, s.env) if st.value is not None else ast.Constant(value=None)
            for s2, val in self.values(v, s, f, depth):
                rets.append((s2, val))
            return []
        if isinstance(st, (ast.Raise, ast.Break, ast.Continue)):
            return []
        if isinstance(st, ast.Try) or st.__class__.__name__ == "TryStar":
            outs = self._block(st.body, [s.fork()], rets, f, depth)
            if st.orelse:
                outs = self._block(st.orelse, outs, rets, f, depth)
            for h in st.handlers:
                hs = self._havoc(s, _touched(st.body) | ({h.name} if h.name else set()))
                for b in st.body:
                    self._method_effects(b, hs, f)
                outs = outs + self._block(h.body, [hs], rets, f, depth)
            if st.finalbody:
                outs = self._block(st.finalbody, outs, rets, f, depth)
            return outs
        if isinstance(st, (ast.With, ast.AsyncWith)):
            s2 = self._havoc(s, {c for i in st.items if i.optional_vars is not None for c in [_cell(i.optional_vars)] if c})
            self._method_effects(st, s2, f)
            return self._block(st.body, [s2], rets, f, depth)
        if isinstance(st, (ast.For, ast.AsyncFor, ast.While)):
            # zero or more iterations: whatever the loop may touch is unknown inside and after it; inside, the loop variable is some
            # element of what is iterated
            s2 = self._havoc(s, _touched([st]))
            for b in ast.walk(st):
                if isinstance(b, ast.stmt) and b is not st:
                    self._method_effects(b, s2, f)
            self._method_effects(st, s2, f)
            ys = self.yielded(substitute(st.iter, s2.env), s2, f, depth) if not isinstance(st, ast.While) else None
            if ys is not None:
                # a loop over a generator helper: the body runs for each value the helper yields, under the condition it is yielded
                for ystate, yv in ys:
                    self._bind(st.target, yv, ystate, f)
                    self._block(st.body, [ystate], rets, f, depth)
                return self._block(st.orelse, [s2], rets, f, depth) if st.orelse else [s2]
            inner = s2.fork()
            if not isinstance(st, ast.While):
                self._bind_loop_target(st.target, substitute(st.iter, s2.env), inner)
            self._block(st.body, [inner], rets, f, depth)
            return self._block(st.orelse, [s2], rets, f, depth) if st.orelse else [s2]
        if isinstance(st, ast.Match):
            s2 = self._havoc(s, _touched([st]))
            for c in st.cases:
                self._block(c.body, [s2.fork()], rets, f, depth)
            return [s2]
        if isinstance(st, ast.Expr) and isinstance(st.value, ast.Call) and isinstance(st.value.func, ast.Attribute) and st.value.func.attr == "update" and \
                isinstance(st.value.func.value, ast.Name) and isinstance(s.env.get(st.value.func.value.id), ast.Dict):
            # <dict local>.update({...constant keys...}, key=value, ...) is a sequence of item assignments
            c = st.value
            lit = c.args[0] if len(c.args) == 1 else None
            if len(c.args) <= 1 and (lit is None or (isinstance(lit, ast.Dict) and all(isinstance(k, ast.Constant) for k in lit.keys))) and all(k.arg for k in c.keywords):
                s2 = s.fork()
                pairs = list(zip(lit.keys, lit.values)) if lit is not None else []
                pairs += [(ast.Constant(value=k.arg), k.value) for k in c.keywords]
                for k, v in pairs:
                    self._bind(ast.Subscript(value=c.func.value, slice=k, ctx=ast.Store()), substitute(v, s.env), s2)
                return [s2]
        if isinstance(st, ast.Expr) and self._helper(st.value, f) is not None:
            # a private helper called for its effects: executed in place (its watched calls are seen with the caller's values)
            if not self.values(substitute(st.value, s.env), s, f, depth):
                return []  # the helper never returns
            s2 = s.fork()  # which of its paths the helper took does not matter to the caller: one state goes on
            self._method_effects(st, s2, f)
            return [s2]
        if isinstance(st, (ast.Expr, ast.Delete)):
            s2 = self._havoc(s, _touched([st]))
            self._method_effects(st, s2, f)
            return [s2]
        return [s]  # def / class / import / pass / global / assert: bind nothing the rules look at


# -- path conditions --------------------------------------------------------------------------------------------------------------------
# atoms: ("none", X) for `X is None`, ("empty", X) for `X == <empty literal>`, ("truthy", X) for anything else used as a test; the axioms are
# X is None  =>  not X   and   X == <empty>  =>  not X and X is not None

def _unbool(e: ast.AST) -> ast.AST:
    """`bool(x)` used as a test is the test `x`"""
    while isinstance(e, ast.Call) and isinstance(e.func, ast.Name) and e.func.id == "bool" and len(e.args) == 1 and not e.keywords:
        e = e.args[0]
    return e


def _leaf(e: ast.AST) -> tuple[tuple[str, str], bool] | None:
    """(atom, polarity) of a test that is not a not/and/or; None for a constant"""
    if isinstance(e, ast.Compare) and len(e.ops) == 1 and isinstance(e.comparators[0], ast.Constant) and e.comparators[0].value is None and \
            isinstance(e.ops[0], (ast.Is, ast.IsNot, ast.Eq, ast.NotEq)):
        return ("none", norm(e.left)), isinstance(e.ops[0], (ast.Is, ast.Eq))
    if isinstance(e, ast.Compare) and len(e.ops) == 1 and isinstance(e.ops[0], (ast.Eq, ast.NotEq)) and _is_empty_literal(e.comparators[0]):
        return ("empty", norm(e.left)), isinstance(e.ops[0], ast.Eq)
    return ("truthy", norm(e)), True


def _is_empty_literal(e: ast.AST) -> bool:
    """`""`, `0`, `[]`, `{}`, `()`: a value that is falsy and is not None"""
    if isinstance(e, ast.Constant):
        return e.value is not None and not isinstance(e.value, bool) and not e.value
    return (isinstance(e, (ast.List, ast.Tuple, ast.Set)) and not e.elts) or (isinstance(e, ast.Dict) and not e.keys)


def _atoms(e: ast.AST, out: list) -> None:
    e = _unbool(e)
    if isinstance(e, ast.BoolOp):
        for v in e.values:
            _atoms(v, out)
    elif isinstance(e, ast.UnaryOp) and isinstance(e.op, ast.Not):
        _atoms(e.operand, out)
    elif not isinstance(e, ast.Constant):
        a = _leaf(e)[0]
        if a not in out:
            out.append(a)


def _atoms_of(e: ast.AST) -> list:
    out: list = []
    _atoms(e, out)
    return out


def _holds(e: ast.AST, asg: dict) -> bool:
    e = _unbool(e)
    if isinstance(e, ast.BoolOp):
        vals = [_holds(v, asg) for v in e.values]
        return all(vals) if isinstance(e.op, ast.And) else any(vals)
    if isinstance(e, ast.UnaryOp) and isinstance(e.op, ast.Not):
        return not _holds(e.operand, asg)
    if isinstance(e, ast.Constant):
        return bool(e.value)
    a, pol = _leaf(e)
    return asg[a] == pol


def _models(conds: tuple[Cond, ...], extra: list) -> Any:
    import itertools

    atoms: list = list(extra)
    for e, _ in conds:
        _atoms(e, atoms)
    if len(atoms) > 14:
        raise _TooManyAtoms
    for vals in itertools.product([False, True], repeat=len(atoms)):
        asg = dict(zip(atoms, vals))
        if any(k == "none" and v and asg.get(("truthy", x)) for (k, x), v in asg.items()):
            continue
        if any(k == "empty" and v and (asg.get(("truthy", x)) or asg.get(("none", x))) for (k, x), v in asg.items()):
            continue  # X == "" (0, [], ...): X is falsy and is not None
        if all(_holds(e, asg) == pol for e, pol in conds):
            yield asg


class _TooManyAtoms(Exception):
    pass


def consistent(conds: tuple[Cond, ...]) -> bool:
    """can the path be taken at all (as far as the propositional structure of its tests tells)?  Undecided counts as yes."""
    try:
        return next(iter(_models(conds, [])), None) is not None
    except _TooManyAtoms:
        return True


def implies(conds: tuple[Cond, ...], atom: tuple[str, str], value: bool) -> bool:
    """the path condition forces `atom` (("none", X): X is None; ("truthy", X): bool(X)) to have the given value.  Undecided counts as no."""
    try:
        return all(asg[atom] == value for asg in _models(conds, [atom]))
    except _TooManyAtoms:
        return False


def possible(conds: tuple[Cond, ...], fixed: dict[tuple[str, str], bool]) -> bool:
    """can the path be taken with the given atoms having the given values?  Undecided counts as yes."""
    try:
        return any(all(asg[a] == v for a, v in fixed.items()) for asg in _models(conds, list(fixed)))
    except _TooManyAtoms:
        return True


def conds_text(conds: tuple[Cond, ...]) -> str:
    return " and ".join(norm(e) if pol else f"not ({norm(e)})" for e, pol in conds)


def alternatives(e: ast.AST, conds: tuple[Cond, ...] = ()) -> list[tuple[tuple[Cond, ...], ast.AST]]:
    """a value written as a conditional expression / `a or b` / `a and b`: each operand it can evaluate to, with the condition under which"""
    if isinstance(e, ast.IfExp):
        return alternatives(e.body, conds + ((e.test, True),)) + alternatives(e.orelse, conds + ((e.test, False),))
    if isinstance(e, ast.BoolOp):
        stop = isinstance(e.op, ast.Or)  # `or` yields the first truthy operand, `and` the first falsy one, else the last
        out = []
        pre = conds
        for v in e.values[:-1]:
            out += alternatives(v, pre + ((v, stop),))
            pre = pre + ((v, not stop),)
        return out + alternatives(e.values[-1], pre)
    return [(conds, e)]
